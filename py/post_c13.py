"""Cross-shard part of C13(c): validators from different shards that share a hash256 must have the same verdict vector."""
def post(prop, tier, seed, tmp, results, errors):
    seen = {}
    for r in results:
        for d, (vec, typ) in (r.get("aux", {}).get("buckets") or {}).items():
            if d in seen and seen[d][0] != vec:
                results[0]["violations"].append({
                    "signature": "same-digest-different-behaviour|cross-shard",
                    "clause": "behaviour-implies-digest",
                    "detail": f"{seen[d][1]}  vs  {typ} share {d[:16]} but have different verdict vectors on the common pool",
                    "replay": {"property": prop, "kind": "note", "digest": d, "types": [seen[d][1], typ]},
                    "count": 1,
                })
            seen.setdefault(d, (vec, typ))
    if results:
        results[0]["counters"]["cross_shard_digests"] = len(seen)

#!/usr/bin/env python3
"""dev helper: run one property's shards and print the violation signatures grouped (no known-finding filtering)"""
import json, sys, subprocess, os, tempfile, collections, re
prop=sys.argv[1]; seed=sys.argv[2] if len(sys.argv)>2 else "1"; n=int(sys.argv[3]) if len(sys.argv)>3 else 16
NODE="/root/.nvm/versions/node/v22.22.2/bin/node"
subprocess.run([NODE,"/verif/js/prep-runtime.mjs"],stdout=subprocess.DEVNULL)
tmp=tempfile.mkdtemp(dir="/var/tmp")
ps=[]
for i in range(n):
    ps.append(subprocess.Popen([NODE,"/verif/js/shard.mjs",prop,"--seed",seed,"--tier","quick","--shard",str(i),"--of",str(n),"--out",f"{tmp}/{i}.json"],stdout=subprocess.DEVNULL,stderr=subprocess.DEVNULL))
for p in ps: p.wait()
c=collections.Counter(); ex={}
for i in range(n):
    try: r=json.load(open(f"{tmp}/{i}.json"))
    except Exception as e: print("shard",i,"failed"); continue
    if r.get("error"): print("ERR", r["error"][:500])
    for v in r["violations"]:
        parts=v["signature"].split("|")
        key="|".join(parts[:2]) + ("|"+"|".join(parts[3:]) if len(parts)>3 else "")
        c[key]+=v["count"]; ex.setdefault(key,(v["signature"],v["detail"][:400]))
for k,n_ in c.most_common(60): print(n_, k, "\n      ", ex[k][0][:200], "\n      ", ex[k][1])
import shutil; shutil.rmtree(tmp)

"""driver-side hook: run the jsonschema oracle (python3-vt has the jsonschema package) over the records of all shards"""
import json, os, subprocess

def post(prop, tier, seed, tmp, results, errors):
    out = os.path.join(tmp, "schema_verdicts.json")
    here = os.path.dirname(os.path.abspath(__file__))
    r = subprocess.run(["python3-vt", os.path.join(here, "post_schema.py"), tmp, out], stdout=subprocess.PIPE, stderr=subprocess.STDOUT, text=True)
    if r.returncode != 0 or not os.path.exists(out):
        errors.append("jsonschema oracle failed: " + r.stdout[-1500:])
        return
    v = json.load(open(out))
    if results:
        results[0]["evaluations"] += v["judged"]
        results[0]["counters"]["jsonschema_judgements"] = v["judged"]
        for x in v["violations"]:
            x["replay"]["property"] = prop
            results[0]["violations"].append(x)

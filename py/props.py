"""Per-property configuration of the check driver."""

ASSUMPTIONS = [
    "A1: the native x86_64 build of beff-core/beff-wasm behaves like the shipped wasm32 build (same source, no cfg(target_arch))",
    "A2: module.stripTypeScriptTypes (erase-only) + pruning of type-only import specifiers is a faithful build of packages/beff-client/src; the parser module is assembled as ts-node/bundle-to-disk.ts does for module:cjs",
    "A3: the reference models (js/ref, harness/src/refmodel.rs) are the trusted base for what TypeScript means; they are three-valued and unspecified cases are counted, never judged",
]

SPEC = {
    "C01": {
        "engine": "node",
        "rule": "cases = (generated program, parser, value) triples: values are members built from the reference, one-edit mutants of them and a fixed hostile pool; "
                "judged = reference verdict is not 'unspecified'. distinct_nontrivial = distinct (structural type key, value class) pairs, counted with a set, "
                "restricted to types that had both an accepted and a rejected value in this run",
        "floor": {"quick": 5000, "thorough": 200000},
        "workload_exclusions": ["a declared property literally named __proto__ stays in its probe only (known finding C01-proto-key)",
                                "Record<number,V> / number index signatures stay in their probe only (known finding C01-number-index)"],
    },
}

HOOK_COMMITS = ["c4252cd"]

NOT_CLAIMED = {}

CLAIMS = {
    "C01": {
        "technique": "reference-model runtime monitor: real compiler + real client validators vs. an independent three-valued TypeScript membership model, on generated programs x (members, one-edit mutants, hostile values); violations localised by re-execution",
        "text": "Every generated (program, parser, value) triple is compiled by the real extract+emit_code, loaded against the real client runtime and judged against an independent reference interpreter of the TypeScript subset. "
                "Held means: no disagreement outside the recorded known findings on ~6e5 (quick) / ~1.5e7 (thorough) judged pairs; reach is bounded by the generator grammar (depth<=4, <=10 declarations) and the reference's specified region.",
        "note": "Trusted: the reference model js/ref (three-valued; unspecified cases are not judged), type stripping of the client (A2), native build = wasm build (A1). Not covered: programs outside the generator grammar, values outside the value generators.",
    },
}

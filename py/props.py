"""Per-property configuration of the check driver (SPEC) and of the manifest (CLAIMS)."""

ASSUMPTIONS = [
    "A1: the native x86_64 build of beff-core/beff-wasm behaves like the shipped wasm32 build (same source, no cfg(target_arch))",
    "A2: module.stripTypeScriptTypes (erase-only) + pruning of type-only import specifiers is a faithful build of packages/beff-client/src; the parser module is assembled as ts-node/bundle-to-disk.ts does for module:cjs",
    "A3: the reference models (js/ref, harness/src/refmodel.rs) are the trusted base for what TypeScript means; they are three-valued and unspecified cases are counted, never judged",
]

HOOK_COMMITS = ["c4252cd"]

SPEC = {}
CLAIMS = {}
NOT_CLAIMED = {}

TRUST_REF = ("Trusted: the reference model js/ref (three-valued; unspecified cases are not judged), type stripping of the client (A2), "
             "native build = wasm build (A1). Not covered: programs outside the generator grammar (depth<=4, <=10 declarations), values outside the value generators.")

# ------------------------------------------------------------------------------------------ C01
SPEC["C01"] = {
    "engine": "node",
    "rule": "cases = (generated program, parser, value) triples: values are members built from the reference, one-edit mutants of them and a fixed hostile pool; "
            "judged = reference verdict is not 'unspecified'. distinct_nontrivial = distinct (structural type key, value class) pairs, counted with a set, "
            "restricted to types that had both an accepted and a rejected value in this run",
    "floor": {"quick": 5000, "thorough": 200000},
    "workload_exclusions": [],
}
CLAIMS["C01"] = {
    "technique": "reference-model runtime monitor: real compiler + real client validators vs. an independent three-valued TypeScript membership model, on generated programs x (members, one-edit mutants, hostile values); violations localised by re-execution",
    "text": "Every generated (program, parser, value) triple is compiled by the real extract+emit_code, loaded against the real client runtime and judged against an independent reference interpreter of the TypeScript subset. "
            "Held means: no disagreement outside the recorded known findings on ~3.5e6 (quick) / ~1.5e7 (thorough) judged pairs; reach is bounded by the generator grammar and the reference's specified region. A table of source-text probes (one program per repaired defect or documented refusal, with the values that told the behaviours apart and TypeScript's verdict) is judged in every run, so that a regression of a repaired defect is found whatever the random streams produce.",
    "note": TRUST_REF,
}

# ------------------------------------------------------------------------------------------ C11
SPEC["C11"] = {
    "engine": "node",
    "rule": "cases = (generated program, parser, value): members and one-edit mutants (incl. an extra key at a random object position, hostile key names); judged = reference strict verdict is specified. "
            "distinct_nontrivial = distinct (structural type key, value class) pairs over types for which strict mode rejected some value that default mode accepted AND accepted another",
    "floor": {"quick": 5000, "thorough": 200000},
}
CLAIMS["C11"] = {
    "technique": "reference-model runtime monitor on two runs of every validator (default vs disallowExtraProperties) + reference-free relation strict => default",
    "text": "For every generated (program, parser, value): validate(v) and validate(v,{disallowExtraProperties:true}) of the real client are compared with the reference's strict membership "
            "(declared keys = all members of an intersection, the matching union branch, keys admitted by an index signature). Held = no disagreement outside recorded known findings on the judged pairs.",
    "note": TRUST_REF + " Symbol keys and non-enumerable keys are unspecified.",
}

# ------------------------------------------------------------------------------------------ C03
SPEC["C03"] = {
    "engine": "node",
    "rule": "cases = (parser, value, ParseOptions) triples over compiled validators of generated programs (values: members, mutants, hostile pool, objects assembled from several union branches) "
            "and b.*/buntyped ad-hoc validators, all four option combinations; each triple runs validate/safeParse/parse, re-validates and re-parses the data, checks projection, key-order invariance, "
            "input snapshot and a second run on the frozen input. distinct_nontrivial = distinct (type key, options, value class) among ACCEPTED triples (the ones whose data is checked)",
    "floor": {"quick": 5000, "thorough": 200000},
}
CLAIMS["C03"] = {
    "technique": "relational runtime monitor over recorded results of validate/safeParse/parse (agreement, idempotence, projection, key-order invariance) + input snapshot/deep-freeze mutation monitor",
    "text": "For every (validator, value, options) triple the three entry points of the real client are run and their results related to each other; successful data is re-validated, re-parsed, "
            "checked to be a projection of the input made of declared parts only, compared across objectKeyOrder, and the input is snapshotted before and deep-frozen for a second run. "
            "Held = no relation broken outside recorded known findings. Besides the random corpus: an enumerated grid of leaf kinds shared by intersection / union members, probes kept from repaired defects (short tuples, Map / Set intersections, prototype-named optional keys, sorted key order), and a bulk stream (containers of 60 000 - 200 000 mostly wrong items against array / tuple / record / Map / Set / union parsers). An impostor stream offers 55 objects that only look like built-ins (prototype-only Map / Set / Date / typed arrays, subclasses, built-ins with own properties, built-ins beff has no type for), bare and in ten wrappers, to 19 parsers: nothing but parse's documented error may be thrown and the three entry points agree.",
    "note": "No membership oracle is needed except 'declared somewhere' (generous over-approximation from js/ref). Inputs whose own code throws (getters, Proxy traps) are not generated. A2/A1 as everywhere.",
}

# ------------------------------------------------------------------------------------------ C12
SPEC["C12"] = {
    "engine": "node",
    "rule": "cases = rejected (parser, value, options) triples from the generated corpus (members' one-edit mutants, hostile pool, over-long arrays; default and strict mode); "
            "each is judged by the error-count bounds, the path resolver over every (nested) error path, received-identity, and repeatable rendering. "
            "distinct_nontrivial = distinct (type key, mode, value class) among rejected triples",
    "floor": {"quick": 5000, "thorough": 200000},
}
CLAIMS["C12"] = {
    "technique": "runtime monitor with a path-resolver oracle over recorded safeParse().errors / printErrors / parse().message of every rejected value",
    "text": "Every rejected (validator, value, options) of the corpus is checked: 1..10 errors; each path, including paths inside nested union errors, is resolved against the input "
            "(property, [i], key()/value()/item() segments; last segment may be a missing property) and `received` must be identical to what is found there; printErrors and the parse() message are rendered twice and must not throw or differ. A bulk stream (containers of 60 000 - 200 000 wrong items) checks that the report stays within ten errors and that nothing throws; the hostile pool contains Map keys / Set members that cannot be converted to a string.",
    "note": "The resolver is reference-free (it only reads the input). Ambiguous segments (a property literally named '[0]') are resolved in every possible way and accepted if one fits. A2/A1 as everywhere.",
}

# ------------------------------------------------------------------------------------------ C04
SPEC["C04"] = {
    "engine": "node",
    "rule": "cases = compile requests: grammar-generated programs over the whole TypeScript type syntax (supported or not), token-level mutations of the repository's own test corpus, "
            "multi-file projects with missing/cyclic/looping imports, random format settings and registration orders, plus supported programs from the C01 generator. "
            "distinct_nontrivial = distinct (diagnostic variant, located?) kinds observed + distinct success shapes (stream, #parsers, #files, has references)",
    "floor": {"quick": 3000, "thorough": 100000},
    "watchdog_s": {"quick": 1500, "thorough": 10800},
}
CLAIMS["C04"] = {
    "technique": "fault monitors around the real compiler (catch_unwind + panic-location hook, per-thread CPU-time watchdog, worker-death detection with gdb stack naming) + range checker of every diagnostic against the file text + load / reference-closure walk of every success",
    "text": "Every request runs extract+emit_code on a fresh 64 MB-stack thread under catch_unwind; a panic, a killed worker, >20 s CPU (re-checked alone with 60 s), an emit error without diagnostic, "
            "a diagnostic whose file/line/column is not inside the project text, an unlocated diagnostic for a file that parses, a module that does not load, a missing parser or a dangling RefRuntype is a violation. "
            "Totality is approximated by absence of failures on ~7e5 (quick) / 6e6 (thorough) hostile programs; the evidence lists the diagnostic kinds and outcomes actually observed. Three enumerated grids are judged as well: (container of a self-reference) x (type operator), (empty or collapsing type) x (position), and (enum member form) x (use) x (import style) for an enum declared in a module much longer than the entry file, where every diagnostic must lie inside the file it names. A worker death counts only if the request dies again alone in a fresh process; its stack is read with gdb (retried). Further grids: pairs / triples of recursive types that each go through a semantic operator in one build, and JSDoc blocks whose frame is made of every kind of white space.",
    "note": "Bounded progress only (20 s / 60 s CPU). Nesting depth of generated input is small, so a stack overflow can only come from unbounded recursion. Native build stands for wasm (A1); module loading through the cjs-style assembly, ESM import for a sample.",
}

# ------------------------------------------------------------------------------------------ C10
SPEC["C10"] = {
    "engine": "node",
    "rule": "cases = projects (supported programs with many same-shaped declarations and multi-key discriminated unions, typeof of namespace imports with failing exports, multi-file projects, "
            "wild programs, corpus mutations); each is compiled in k fresh OS processes (beffc --once: fresh std RandomState) under lazy / sorted / reversed / shuffled file registration, and twice in "
            "the long-lived server; evaluations = compilations compared. distinct_nontrivial = distinct (stream, outcome, #files, output prefix) project kinds",
    "floor": {"quick": 1000, "thorough": 50000},
    "assumptions": ["a nondeterminism that shows with probability p per process is missed with probability (1-p)^k, k = 8 (quick) / 14 (thorough) runs per project"],
}
CLAIMS["C10"] = {
    "technique": "differential runtime monitor across OS processes and file-registration orders: sha256 of emit_code() bytes and of the serialised diagnostics must coincide",
    "text": "Each project is compiled 8 (quick) / 14 (thorough) times: in fresh OS processes (new hash seeds) with lazy, sorted, reversed and shuffled eager file registration, and in the long-lived compile server after unrelated work. "
            "Any two different outputs (code bytes, diagnostics, outcome) is a violation. A per-process nondeterminism with probability p is missed with probability (1-p)^k. Registration orders include PARTIAL pre-registration (one file, random subsets, every single file of an export-star chain) next to lazy-only and full orders; further streams: failing projects whose unresolved names have several equally near candidates, and names reaching the entry through 2-3 `export *` hops.",
    "note": "Only nondeterminism that manifests on the generated projects within k runs is seen; the workload is aimed at the places where hash-map iteration could reach the output (namespace typeof, hoist numbering, discriminator choice).",
}

# ------------------------------------------------------------------------------------------ C08
SPEC["C05"] = {
    "engine": "rust",
    "bin": "semmon",
    "rule": "cases = ordered pairs (S, T) of Runtype IR types with their named definitions, judged through beff-core's public API (to_sem_type + is_subtype on a fresh SemTypeContext) against a witness search: "
            "the exact values of S (one representative per class the pair can distinguish) are enumerated and tested for (open) membership in T. Streams: all ordered pairs of types of size <= 2 over the alphabet "
            "{null, boolean, true, number, 1, string, \"a\", {}, [], arrays, 1-2-tuples with/without rest, objects over keys a/b required/optional, index signatures over string and over \"a\"|\"b\", union, intersection}; pairs with one operand of size 3 "
            "(quick: seeded 1/4 sample, thorough: all, plus a sample of 3x3); random pairs up to size 8 with 0-3 named, mutually recursive definitions; one-edit near pairs; reflexive, S<:S|T, S&T<:S and name-vs-unfolding pairs; "
            "every 4th random case additionally asks S<:T, T<:S and is_same_type on one context, the same question again, and on a fresh context in the opposite order. evaluations = judged decisions; distinct_nontrivial = distinct (constructor kinds of S, of T, answer) classes",
    "floor": {"quick": 100000, "thorough": 3000000},
    "workload_exclusions": [
        "index signatures with number / template keys, formats, template literal types, Date/BigInt/Map/Set/typed arrays, void/undefined (outside the quantifier of the property)",
        "numeric literals that are not small integers (beff's fixed-point literal representation is C01's recorded finding)",
        "negation on the left-hand side (the source language has none; differences are C06/C07's subject)",
    ],
    "watchdog_s": {"quick": 900, "thorough": 10800},
    "exhaustive_subruns": ["all ordered pairs of types of size <= 2 in both tiers (counts in the evidence counters exhaustive_size1_types / exhaustive_size2_types)", "thorough: all ordered pairs with one operand of size 3 and the other of size <= 2"],
}
CLAIMS["C05"] = {
    "technique": "reference-model monitor over the real decision procedure: every is_subtype answer is compared with a witness search over concrete values (independent interpreter of the type IR, no shared code with the engine); bounded-exhaustive + random + near-miss pair streams; CPU watchdog for termination",
    "text": "For each pair the engine's answer is observed through the public API. The oracle enumerates the exact values of S - per position one representative of every class the two types can tell apart (mentioned literals plus a fresh one, "
            "list lengths up to the longest mentioned prefix plus one extra element per list type of T, mentioned keys plus one fresh key per object type of T under index signatures, named types unfolded to depth 4) - and tests each for open membership in T. "
            "`yes` with a witness outside T is a violation (sound: the witness is a concrete value, re-checked by the reference's own exact/open membership); `no` with a completely enumerated universe and no witness is a violation; `no` with a truncated universe is inconclusive. "
            "Also checked: is_same_type = both directions; the answer does not depend on what the context has been asked before; a decision that burns 20 s of CPU is reported as non-termination. Violating pairs are shrunk (subterm replacement) while the same clause fails. Streams: bounded-exhaustive pairs, random pairs (a third of them with typed-array / bigint / Date leaves), near pairs, relational laws, covering problems for tuples / objects / index signatures, reference cycles against an edited copy, and finite index signatures against the same keys declared by name. A further stream intersects two unions that share a named member (one memoised atom on both sides).",
    "note": "The exact/open reading (left operand: declared properties only; right operand: structural) is the one the property states. Types the engine refuses with an error (`recursive type` for a recursive alias whose body is a union) are counted as refusals, not decisions.",
}
SPEC["C06"] = {
    "engine": "rust",
    "bin": "semmon",
    "rule": "layer 1: decision diagrams reached from {True, False, 4 atoms} (two atom alphabets: one kind / mixed kinds) by union, intersect, diff, complement - breadth-first while the pool is small, then seeded random pairs from the pool; every result's 16-row truth table is compared with the Boolean combination of the operands' tables; "
            "layer 3: for every result bdd_to_dnf read as a formula and dnf_to_bdd(bdd_to_dnf(x)) have the same table; layer 2: pairs of SemTypes built from random types (also pre-combined by complement / diff / union so that deny lists and negative atoms occur), the four operations, "
            "membership of every probe value in the result (read from the engine's tables by the reference) = Boolean combination of the memberships in the operands. evaluations = (operation, truth table) checks + (operation, value) checks; distinct_nontrivial = distinct Boolean functions reached + distinct (operand preparation, constructor kinds) classes",
    "floor": {"quick": 3000000, "thorough": 100000000},
    "workload_exclusions": ["void/undefined and custom formats (their literal lists are ordered by a sub-type relation, so plain set algebra is not what the code claims there)", "Map/Set atoms and typed arrays"],
    "watchdog_s": {"quick": 900, "thorough": 10800},
}
CLAIMS["C06"] = {
    "technique": "invariant monitor on the public BddOps / SemTypeOps / bdd_to_dnf / dnf_to_bdd results with an independent evaluator: truth tables under all 16 assignments (layer 1, 3) and value membership read from the engine's own tables (layer 2)",
    "text": "Layer 1 evaluates a diagram as (atom AND left) OR middle OR (NOT atom AND right) under all assignments of 4 atoms and requires eval(op(x,y)) = op(eval x, eval y) for every operation application explored (tens of thousands of distinct diagrams, including non-False middle branches and both atom orders). "
            "Layer 3 requires the DNF read as a formula, and the diagram rebuilt from it, to have the table of the original. Layer 2 fixes the denotation of every atom (a value is in a mapping / list atom iff it satisfies the atom's table entry, open reading) and requires membership in A op B to be the Boolean combination of the memberships in A and B for every probe value "
            "(exact values of both operand types, their one-step variants, pseudo values for absent / bigint / Date tags). Leaves include the eleven typed-array classes (pairwise disjoint value sets: a value is an instance of exactly one), bigint and Date, so the allow/deny lists of every proper-subtype kind are exercised. Layer 2 also takes operands that are everything / nothing without being the trivial diagram (A | B | (!A & !B), (!A | B) | (A & !B), and empty counterparts).",
    "note": "Exactness is checked under one fixed denotation of atoms, which is all Boolean exactness needs; whether the emptiness check reads atoms consistently is C05's subject.",
}
SPEC["C07"] = {
    "engine": "rust",
    "bin": "semmon",
    "rule": "cases = (operation in {diff, intersect, union, keyof, indexed access}, operand types with named recursive definitions): the semantic result T is materialised with semtype_to_runtypes; "
            "names: every reference in head / helpers is defined exactly once; printable: no Function / empty union; meaning: for every probe value membership in T (read from the engine's tables) = membership in the materialised type; "
            "for diff additionally the type after remove_nots_of_intersections_and_empty_of_union (what Exclude hands to code generation when no negation is left) against `exact value of A and not a value of B`. "
            "evaluations = (case, value) membership comparisons + name checks; distinct_nontrivial = distinct (operation, constructor kinds of the materialised type) classes",
    "floor": {"quick": 10000000, "thorough": 300000000},
    "workload_exclusions": ["results that still contain a negation are refused by the frontend with a diagnostic (ensure_no_negation) and are counted, not judged", "formats, templates, Date/Map/Set (outside the fragment)"],
    "watchdog_s": {"quick": 900, "thorough": 10800},
}
CLAIMS["C07"] = {
    "technique": "round-trip monitor on the public materialisation API: the semantic type and the Runtype handed to code generation are both interpreted by the reference over the same probe values; helper-name bookkeeping is checked on the returned definition lists",
    "text": "For every computed semantic type the monitor observes semtype_to_runtypes' head and helper definitions, and (for differences) the result of remove_nots_of_intersections_and_empty_of_union, i.e. exactly what the frontend inserts and returns. "
            "A reference that is not backed by exactly one definition, an unprintable construct, or a probe value on which the materialised type and the semantic type disagree is a violation. The source-level counterpart (validators of Exclude / keyof / T[K] against the TypeScript reference) is part of C01's stream. The engine's own round trip is judged as well (the materialised type converted back is the computed type, modulo the missing-property marker), which also covers Map / Set / typed-array / Date atoms; an enumerated grid puts Map / Set / list / object members, named and inline, next to each other under diff / intersect / indexed access.",
    "note": "Membership is compared under one fixed reading of the atoms (materialisation is a transliteration of the diagram, so this is reading-independent); the Exclude step is compared under the exact-left / open-right reading the engine itself uses.",
}
SPEC["C08"] = {
    "engine": "node",
    "rule": "cases = (program, composition of 1-5 rewrites from the catalog of DESIGN.md appendix B): union/intersection/property/declaration permutation, alias introduce / inline / rename, identity-generic wrapping, "
            "parentheses, readonly, comments and JSDoc, interface<->alias, extends<->intersection, nested literal unions; evaluations = parsers compared (verdict vector over the shared pool + hash256). "
            "distinct_nontrivial = distinct (applied rewrite set, parser shapes) combinations",
    "floor": {"quick": 2000, "thorough": 50000},
    "workload_exclusions": ["cyclic input values are not in the shared pool: whether a cyclic value overflows the stack depends on member order (known finding C03-cyclic-input)"],
}
CLAIMS["C08"] = {
    "technique": "metamorphic runtime monitor: two spellings of one program compiled by the real compiler, validators compared on a shared value pool and by hash256; failing rewrite sequences minimised by re-execution",
    "text": "For every generated program, compositions of catalogued meaning-preserving rewrites are applied to the source AST; original and rewritten program are compiled and every parser pair must give the same "
            "validate() verdict on every pool value and, for the naming/ordering/comment rewrites, the same hash256(). Held = no difference outside recorded known findings. Two rewrites intersect a type (a named object type, or an inline member of a union) with a new, wider alias (behaviour compared, digests not).",
    "note": "The rewrite catalog (js/gen/rewrite.mjs) is the trusted part: each rewrite yields the identical TypeScript type. No membership oracle is involved. Strict mode is not compared (C11's known finding depends on alias boundaries).",
}

# ------------------------------------------------------------------------------------------ C13
SPEC["C13"] = {
    "engine": "node",
    "post": "post_c13",
    "rule": "cases = (a) every Hash256Writer stream of the run (all parsers of the corpus, twins and rewrites) re-hashed with node:crypto, plus the writer driven through its update* methods for EVERY total length 0..320 "
            "with three random chunkings each; (b) parsers compared before/after naming/ordering/comment rewrites (hash256 and hash); (c) digests bucketed with verdict vectors over a common pool, and near-miss twins "
            "(one semantic edit: optionality, rest element, literal, primitive, format chain, index key, array->tuple) that are distinguishable on the pool; (d) hash256()/hash() on every recursive parser. "
            "distinct_nontrivial = distinct shared digest buckets + distinct distinguishable near-miss shapes",
    "floor": {"quick": 5000, "thorough": 100000},
    "exhaustive_subruns": ["SHA-256 message lengths 0..320 bytes (every padding / block-boundary residue), each with 3 chunkings, per shard"],
}
CLAIMS["C13"] = {
    "technique": "online stream monitor on Hash256Writer (prototype wrapper) against node:crypto SHA-256 + metamorphic digest comparison under rewrites + behaviour=>digest bucket monitor with near-miss twins",
    "text": "Every byte handed to every Hash256Writer during the run is recorded by a wrapper installed from outside and the digest compared with node:crypto over the same bytes (exhaustive over message lengths 0..320); "
            "hash256/hash of each parser is compared before and after meaning-preserving renamings/reorderings/comments; validators sharing a digest must share their verdict vector, and one-edit twins that the pool distinguishes must get different digests. Twins are also built by retargeting ONE reference inside copies of the declarations (a recursive back-edge aimed at another enclosing type), and an enumerated grid of chains T1 -> ... -> Tn whose back-reference names each enclosing type in turn must give pairwise different digests; 600 strings must reach the hasher as pairwise different byte streams. Named types registered at run time: for 8 bodies x 8 overrides x 5 holders, a parser hashed before overrideNamedType must report afterwards what a parser built after it reports, and a behaviour-changing override must move the digest.",
    "note": "behaviour=>digest is only as strong as the common pool / generated twins; SHA-256 equality is exact. Known findings record where alias boundaries change the emitted structure and hence the digest.",
}

# ------------------------------------------------------------------------------------------ C15
SPEC["C14"] = {
    "engine": "rust",
    "bin": "watchmon",
    "rule": "cases = (project of 4-5 files with valid / unresolvable / unparsable content variants, initial disk, history of 3-25 write|rebuild operations, notification policy): every rebuild of the history is one evaluation "
            "(the long-lived session's code + emitted diagnostics + bundle_to_diagnostics result compared with a fresh session thread on a copy of the disk). distinct_nontrivial = distinct histories as sequences of (file role, content class) operations",
    "floor": {"quick": 200000, "thorough": 10000000},
    "workload_exclusions": [
        "file deletions and renames (the property quantifies over updates and rebuilds; chokidar's change listener is not told about unlink)",
        "the TypeScript host's own caches in bundler.ts (resolvedCache keeps successful resolutions, fsCache keeps source text for rendering): the native host of the beff_verif feature answers from the virtual disk every time; without deletions a successful resolution never changes",
        "changes of settings between rebuilds",
    ],
}
CLAIMS["C14"] = {
    "technique": "history monitor over the real long-lived session (thread-local BUNDLER reached through the beff_verif native host): write/rebuild histories with a from-scratch oracle (fresh thread = fresh session) after every rebuild; differing rebuilds are attributed by re-execution and delta-debugged",
    "text": "For every generated history the same beff-wasm entry points the watch loop uses (update_file_content, bundle_to_string, bundle_to_diagnostics, emit_diagnostic) are driven on one session thread over a virtual disk. "
            "Writes are reported to the session the way commandeer.ts does (only for files the session has read; a second policy reports every write). After EVERY rebuild the session's code, emitted diagnostics and diagnostics result must equal "
            "those of a brand-new session on the current disk. A differing rebuild is attributed (`as-if[f: old->new]`: the session answers exactly like a fresh session on a disk where f still has its earlier content) and shrunk while the attribution stays the same. Projects contain relative imports, a path alias (@app/...) resolved by the host, a barrel module that only passes names on with export *, and file variants in which a name moves between the barrel's targets, stops being exported, becomes unparsable or unresolvable, or only changes its doc comments. Contents come in four classes: valid, unresolvable, unparsable and blank (empty file, white space, comment only, `export {}`, BOM).",
    "note": "Diagnostics of one build are compared as multisets. The JavaScript half of the watch loop (chokidar, fs) is modelled by the notification policy, not executed.",
}
SPEC["C15"] = {
    "engine": "node",
    "rule": "cases = parsers of generated programs: describe() text is compiled again by the real compiler (text + buildParsers<{X: Codec<name>}>) and the second-generation validator is compared with the "
            "original on the shared value pool and by hash256; alias declarations are counted. distinct_nontrivial = distinct (type shape, constructor-kind set) of the described types",
    "floor": {"quick": 3000, "thorough": 100000},
}
CLAIMS["C15"] = {
    "technique": "round-trip runtime monitor: describe() output fed back through the real compiler, validators of both generations compared on a value pool and by hash256",
    "text": "For every parser of the corpus describe() must return text that beff compiles without diagnostics, whose root alias CodecName yields a validator with the same verdict on every pool value and the same hash256, "
            "and that declares every alias exactly once; a RangeError is non-termination on a recursive type.",
    "note": "The oracle is beff's own compiler, as the statement says 'valid TypeScript for beff'. Known findings record hash differences that only come from alias boundaries (see C08/C13).",
}

# ------------------------------------------------------------------------------------------ C09
SPEC["C09"] = {
    "engine": "node",
    "rule": "cases = (generated program, partition of its declarations into 2-6 files incl. nested directories, .d.ts and .tsx, with per-reference link styles: named / renamed / namespace / type-only / default imports, "
            "import(\"...\") types, export lists, export * and renamed re-export chains of 1-2 hops; optional name collision; then one broken link). evaluations = projects compiled + parsers compared. "
            "distinct_nontrivial = distinct (set of link styles, file set, collision?) layouts",
    "floor": {"quick": 3000, "thorough": 80000},
}
CLAIMS["C09"] = {
    "technique": "metamorphic runtime monitor: single-file program vs. generated multi-file layouts compiled by the real compiler (outcome, validators on a value pool, hash256), plus broken-link fault injection expecting a diagnostic",
    "text": "Each generated program is compiled as one file and as a project whose declarations are spread over files with randomly chosen import/export styles; both must compile and every parser must give the same verdicts "
            "(and, up to recorded alias/member-order findings, the same hash256). With two different types given the same name in different files the parsers must still match their single-file counterparts. "
            "After removing an export, an import or a file that a parser depends on, the project must produce a diagnostic and no code. Enumerated grids add: two declarations of one name in two files for each declaration kind (alias, interface, enum used whole / through a member / behind an alias, const through typeof) x import style x shape, judged on four distinguishing values; and a module that imports a VALUE while declaring a TYPE of the same name. A rejected split project is attributed by a model of beff's export walk (does an export * lead back into the named re-export being resolved?), which keys the one recorded finding of that kind. Half of the split projects are also compiled through beff_wasm's own file manager and module resolver (native host of the hook; `beffc` request flag via=wasm): outcome, code (byte for byte) and diagnostics must equal those of the harness path. A grid puts one relative specifier into two directories (7 link styles squared, equal or different export names), and modules may export through plain / type-only / inline-type lists.",
    "note": "Module resolution is the harness's TypeScript-style probing over a virtual project (.ts/.tsx/.d.ts/index.ts), not tsc's; chokidar / tsconfig paths are out of scope.",
}

# ------------------------------------------------------------------------------------------ C02
SPEC["C02"] = {
    "engine": "node",
    "post": "post_c02",
    "rule": "cases = (parser, printing mode: flat | contextual x 3 refPathTemplate/container configurations, JSON document): documents are members / one-edit mutants from the reference AND documents generated from the "
            "emitted schema itself (properties / required / items / prefixItems / enum / anyOf / allOf / $ref walk). Each schema is checked against the Draft 2020-12 meta-schema, every $ref is resolved by JSON-pointer walk, "
            "python jsonschema gives the schema's verdict per document. distinct_nontrivial = distinct (type shape, mode, validator verdicts, document shape) combinations",
    "floor": {"quick": 5000, "thorough": 200000},
    "workload_exclusions": ["numeric literal types beyond i64 (1e21) are not generated here: their truncation is C01's known finding C01-lit-fixed-point",
                            "documents are handed to the validator as null-prototype objects (a JSON document has no prototype chain); string documents ending in a newline are not judged against schemas with `pattern` (python re vs ECMAScript `$`)"],
    "assumptions": ["python jsonschema 4.26 (Draft202012Validator) is the trusted JSON Schema implementation; `pattern` is evaluated by python re (documents for which it raises are not judged)"],
}
CLAIMS["C02"] = {
    "technique": "differential runtime monitor: emitted schemas judged by an independent JSON Schema implementation (python jsonschema) against the real validator's verdicts and the reference's exact membership",
    "text": "For every schema-printable parser, flat schema() (non-recursive types) and schemaWithContext() under three reference-template configurations are printed by the real client; the assembled root document must pass the "
            "2020-12 meta-schema and resolve every $ref; for every JSON document: schema-valid => validate() true and no undeclared key; exact null-free member => schema-valid; types with Date/bigint/Map/Set/typed arrays must throw.",
    "note": "Trusted: python jsonschema and the reference's strict membership. Formats are annotations for jsonschema (not asserted), so format-typed strings/numbers are judged on their base type only by the schema side.",
}

# ------------------------------------------------------------------------------------------ C16
SPEC["C16"] = {
    "engine": "node",
    "rule": "cases = (set of 2-5 parsers of one generated program sharing named / recursive / discriminated types, one refPathTemplate configuration, a call sequence): all permutations for sets of <= 4 parsers "
            "(24 random orders beyond) plus 6 sequences with repetitions, each on one SchemaPrintingContext, compared with a fresh context per parser. evaluations = sequences run. "
            "distinct_nontrivial = distinct (set size, constructor kinds, configuration) combinations",
    "floor": {"quick": 3000, "thorough": 100000},
}
CLAIMS["C16"] = {
    "technique": "history monitor over recorded schemaWithContext() call sequences: the exported definition table after every order / repetition is compared with the fresh-context table (offline checker over recorded states)",
    "text": "For every parser set all call orders (<= 4 parsers: all permutations) and sequences with repetitions are replayed on one SchemaPrintingContext of the real client; after each sequence the exported definitions "
            "must equal those of any other sequence, each definition must equal what a fresh context produces, none may be empty or still marked in progress, and every $ref of every returned schema and definition must resolve. An enumerated grid crosses 18 ways a named type Back mentions Node with 7 ways Node leads back to Back (through intersections with named and inline members, unions, tagged unions, utility types, containers, generics, interface extension), all call orders of three parsers.",
    "note": "Reads the erased-private inProgressDefinitions field. Types JSON Schema cannot express are skipped (C02 covers the throw). Schema/validator agreement for the shared context is C02's oracle (contextual mode).",
}

#!/opt/veriftools/pyvenv/bin/python
"""Oracle side of C02 (and the schema/validator agreement part of C16): python jsonschema
(Draft 2020-12) judges the records written by the Node shards.

  post_schema.py <tmpdir> <out.json>      judge every shard*.json.records.jsonl in tmpdir
  post_schema.py --replay <case.json>     re-judge one stored case
"""
import json, sys, os, glob, re
from multiprocessing import Pool
from jsonschema import Draft202012Validator
from jsonschema.exceptions import SchemaError, best_match


def kw_path(err):
    """keywords of the failing schema path with indices / property names dropped"""
    out = []
    for seg in err.absolute_schema_path:
        if isinstance(seg, str) and seg in ("allOf", "anyOf", "oneOf", "items", "prefixItems", "properties", "additionalProperties", "propertyNames", "required", "type",
                                            "enum", "const", "pattern", "minItems", "maxItems", "$ref", "format", "not", "discriminator", "unevaluatedProperties"):
            out.append(seg)
    return ".".join(out[-3:]) or "root"


def leaves(err, depth=0):
    if not err.context or depth > 12:
        return [err]
    out = []
    for c in err.context:
        out.extend(leaves(c, depth + 1))
    return out


def cause_tag(errs):
    """name why the schema rejects: look at the leaf errors below anyOf/oneOf/allOf wrappers"""
    ls = []
    for e in errs:
        ls.extend(leaves(e))
    paths = [[seg for seg in l.absolute_schema_path if isinstance(seg, str)] for l in ls]
    if any("allOf" in p and p[-1] == "additionalProperties" for p in paths):
        return "closed-object-under-allOf"
    if any(l.validator == "oneOf" and "is valid under each of" in l.message for l in ls) or any(e.validator == "oneOf" and "is valid under each of" in e.message for e in errs):
        return "oneOf-matches-several"
    b = best_match(errs)
    return kw_path(b)


def judge_record(rec):
    """returns (n_judged, [violations])"""
    out = []
    n = 0
    mode = rec["mode"] + ("" if not rec.get("cfg") else ":" + ("container" if rec["cfg"]["definitionContainerKey"] else "bare"))

    def viol(clause, tag, detail, doc=None):
        out.append({"signature": f"{clause}|{rec['mode']}|{tag}", "clause": clause, "detail": f"{detail}\n  type: {rec['type']}\n  mode: {mode}",
                    "replay": {"kind": "schema-case", "record": {k: rec[k] for k in rec if k != 'docs'}, "doc": doc}, "count": 1})

    if rec.get("threw") or rec.get("expectThrow"):
        n += 1
        if rec.get("expectThrow") and not rec.get("threw"):
            viol("unprintable-type-printed", rec["shape"].split("(")[0], "schema printing returned a schema for a type JSON Schema cannot express")
        elif rec.get("threw") and not rec.get("expectThrow"):
            viol("schema-printing-threw", re.sub(r"[0-9]+", "N", rec["threw"])[:50], rec["threw"])
        return n, out
    root = rec["root"]
    n += 1
    try:
        Draft202012Validator.check_schema(root)
    except SchemaError as e:
        viol("schema-not-well-formed", kw_path(e), str(e.message)[:200])
        return n, out
    if rec.get("unresolved"):
        viol("ref-does-not-resolve", "unresolved", f"{rec['unresolved'][:3]} not found in the exported definitions")
        return n, out
    if rec.get("leftover"):
        viol("definition-left-in-progress", "leftover", f"{rec['leftover'][:3]}")
    try:
        v = Draft202012Validator(root)
    except Exception as e:  # noqa
        viol("schema-not-usable", "ctor", str(e)[:200])
        return n, out
    has_pattern = '"pattern"' in json.dumps(root)
    for doc in rec["docs"]:
        d = doc["d"]
        # python's re lets `$` match before a trailing newline, ECMAScript does not: not judged
        if has_pattern and '\\n"' in json.dumps(d):
            continue
        try:
            errs = list(v.iter_errors(d))
        except RecursionError:
            continue
        except Exception as e:  # noqa  (e.g. a pattern python's re cannot compile)
            if "pattern" in str(type(e)).lower() or "re." in str(type(e)).lower() or "error" in str(type(e)).lower():
                continue
            raise
        sv = not errs
        n += 1
        if doc["ref"] == "U" and has_proto_named_key(d):
            continue  # a key that plain objects inherit (constructor, toString, ..): left to C03's finding
        if sv and not doc.get("vvLoose", doc["vv"]):
            viol("schema-accepts-what-validator-rejects", doc.get("why") or "?", f"document {json.dumps(d)[:300]} is valid against the schema but validate() is false", d)
        # (only where the validator itself, in strict mode, refuses the document: a strict verdict on which
        # validator and reference differ is C11's subject - e.g. after `typeof Enum`, C01's finding)
        elif sv and doc["vv"] and not doc.get("xs", False) and doc["refStrict"] == "N" and doc["ref"] == "Y":
            viol("schema-accepts-undeclared-key", "extra-key", f"document {json.dumps(d)[:300]} is valid against the schema but carries a key the type does not declare", d)
        elif (not sv) and doc["refStrict"] == "Y" and doc["nullFree"] and doc["vv"] and doc.get("xs", True):
            # (an exact member that the validator itself rejects in strict mode is C01's / C11's finding)
            b = best_match(errs)
            viol("schema-rejects-exact-member", cause_tag(errs), f"document {json.dumps(d)[:300]} is an exact, null-free member but the schema rejects it: {b.message[:160]}", d)
    return n, out


PROTO_NAMES = {"constructor", "toString", "valueOf", "hasOwnProperty", "isPrototypeOf", "propertyIsEnumerable", "toLocaleString", "__proto__", "__defineGetter__", "__defineSetter__", "__lookupGetter__", "__lookupSetter__"}


def has_proto_named_key(d, depth=0):
    if depth > 60:
        return False
    if isinstance(d, dict):
        return any(k in PROTO_NAMES or has_proto_named_key(v, depth + 1) for k, v in d.items())
    if isinstance(d, list):
        return any(has_proto_named_key(x, depth + 1) for x in d)
    return False


def judge_file(path):
    n = 0
    out = []
    with open(path) as f:
        for line in f:
            if not line.strip():
                continue
            k, vs = judge_record(json.loads(line))
            n += k
            out.extend(vs)
    # dedupe by signature, keep counts
    merged = {}
    for v in out:
        e = merged.get(v["signature"])
        if e:
            e["count"] += 1
        else:
            merged[v["signature"]] = v
    return n, list(merged.values())


def main():
    if sys.argv[1] == "--replay":
        c = json.load(open(sys.argv[2]))
        rec = dict(c["record"])
        rec["docs"] = []
        if c.get("doc") is not None:
            print("replay needs the validator verdicts; re-run the check to regenerate them")
        n, vs = judge_record(rec)
        print(json.dumps({"violated": bool(vs), "found": [v["signature"] for v in vs]}))
        sys.exit(1 if vs else 0)
    tmp, outp = sys.argv[1], sys.argv[2]
    files = sorted(glob.glob(os.path.join(tmp, "*.records.jsonl")))
    with Pool(min(16, max(1, len(files)))) as pool:
        results = pool.map(judge_file, files)
    total = sum(r[0] for r in results)
    merged = {}
    for _, vs in results:
        for v in vs:
            e = merged.get(v["signature"])
            if e:
                e["count"] += v["count"]
            else:
                merged[v["signature"]] = v
    json.dump({"judged": total, "violations": list(merged.values())}, open(outp, "w"))


if __name__ == "__main__":
    main()

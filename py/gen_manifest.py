#!/usr/bin/env python3
"""Writes /verif/MANIFEST.json from the table below (run after claiming / unclaiming a property)."""
import json, os, sys
sys.path.insert(0, os.path.dirname(os.path.abspath(__file__)))
import props as PROPS

ROOT = os.path.dirname(os.path.dirname(os.path.abspath(__file__)))
ALL = [f"C{n:02d}" for n in range(1, 17)]
CLAIMS = PROPS.CLAIMS

checks = []
for pid in ALL:
    if pid not in CLAIMS:
        continue
    c = CLAIMS[pid]
    checks.append({
        "property_id": pid,
        "quick_cmd": f"./check {pid} --tier quick",
        "thorough_cmd": f"./check {pid} --tier thorough",
        "evidence_file": f"/verif/evidence/{pid}.json",
        "replay_cmd_template": f"./check {pid} --replay {{path}}",
        "engine": c.get("engine", "bvh"),
        "level_claimed": {"category": "exploration", "text": c["text"], "design_ref": f"DESIGN.md section 5, {pid}"},
        "level_note": c["note"],
        "technique": c["technique"],
    })
na = [{"property_id": pid, "reason": PROPS.NOT_CLAIMED.get(pid, "monitor not built yet in this session; no claim is made")} for pid in ALL if pid not in CLAIMS]
manifest = {
    "version": 1,
    "setup_cmd": "cd /verif/harness && CARGO_NET_OFFLINE=true cargo build --release --offline && /root/.nvm/versions/node/v22.22.2/bin/node /verif/js/prep-runtime.mjs",
    "hooks": {
        "guard": "cargo feature beff_verif (crate beff_wasm)",
        "enable": "the harness crate /verif/harness depends on /repo/packages/beff-wasm with features=[\"beff_verif\"]; every ./check run rebuilds it from /repo's working tree (cargo build --release --offline)",
        "baseline_off_cmd": "cd /repo && cargo test --workspace --no-fail-fast --offline",
        "source_commits": PROPS.HOOK_COMMITS,
        "add_only": True,
    },
    "engines": [
        {"name": "bvh", "path": "/verif/check", "serves_properties": sorted(CLAIMS.keys()),
         "kind_free_text": "runtime monitors over the real compiler (native build of beff-core/beff-wasm, harness/) and the real client runtime (type-stripped, run in Node 22, js/): reference-model, metamorphic and history monitors; python driver shards work over 16 processes"},
    ],
    "checks": checks,
    "not_applicable": na,
    "notes": "Runtime monitoring only. Exit 0 = held on everything observed (KNOWN-FINDING lines for recorded defects), 1 = VIOLATION with replay file, 2 = harness error / too little observed. Known findings: /verif/known_findings.jsonl.",
}
json.dump(manifest, open(os.path.join(ROOT, "MANIFEST.json"), "w"), indent=1)
print("claimed:", sorted(CLAIMS.keys()), "not claimed:", [x["property_id"] for x in na])

#!/bin/bash
# Applies every seeded change of /verif/seeded to /repo's working tree (one at a time), runs the quick
# check of its property and records whether it alarmed; always restores the tree afterwards.
# Not part of MANIFEST.json: it modifies /repo's working tree while it runs.
#   ./selftest.sh [id ...]        (default: all)
#   SHADOW=1 ./selftest.sh [id ...]  works on copies instead (a scratch worktree of /repo's HEAD and a
#   copy of /verif under /var/tmp/shadow), so that it can run while other checks use /repo; the
#   copies are kept between calls (their build output is reused) until `SHADOW=clean ./selftest.sh`.
cd /verif
REPO=/repo; V=/verif
if [ "$SHADOW" = clean ]; then git -C /repo worktree remove --force /var/tmp/shadow/repo 2>/dev/null; rm -rf /var/tmp/shadow; git -C /repo worktree prune; exit 0; fi
if [ -n "$SHADOW" ]; then
  SH=/var/tmp/shadow; mkdir -p $SH
  [ -d $SH/repo ] || git -C /repo worktree add --detach $SH/repo HEAD >/dev/null 2>&1
  git -C $SH/repo checkout -q --detach $(git -C /repo rev-parse HEAD) && git -C $SH/repo checkout -- . && git -C $SH/repo clean -fdq packages
  rsync -a --delete --exclude target --exclude .build --exclude replay --exclude .git --exclude seeded/RESULTS.md /verif/ $SH/verif/
  sed -i "s#/repo/packages#$SH/repo/packages#" $SH/verif/harness/Cargo.toml
  export BEFF_REPO=$SH/repo BVH_BUILD=$SH/verif/.build BVH_BEFFC=$SH/verif/harness/target/release/beffc
  REPO=$SH/repo; V=$SH/verif
fi
if [ -n "$(git -C $REPO status --porcelain)" ]; then echo "$REPO working tree is not clean"; exit 2; fi
ids=("$@"); if [ ${#ids[@]} -eq 0 ]; then ids=($(ls seeded | grep -v '\.md$')); fi
out=seeded/RESULTS.md
echo "| seeded | patch | check exit | new signatures (first 3) |" > $out.tmp
echo "|---|---|---|---|" >> $out.tmp
rc=0
for id in "${ids[@]}"; do
  prop=${id%%-*}
  patch=seeded/$id/patch.adapted.diff; [ -f $patch ] || patch=seeded/$id/patch.diff
  if ! git -C $REPO apply --check /verif/$patch 2>/dev/null; then echo "| $id | $(basename $patch) | does not apply | |" >> $out.tmp; rc=1; continue; fi
  git -C $REPO apply /verif/$patch
  log=$(mktemp /var/tmp/selftest.XXXXXX)
  (cd $V && ./check $prop --tier quick --seed ${VERIF_SEED:-1}) > $log 2>&1; ex=$?
  git -C $REPO checkout -- . ; git -C $REPO clean -fdq packages 2>/dev/null
  sigs=$(grep -v "^KNOWN" $log | grep "signature:" | head -3 | sed 's/.*signature: //' | cut -c1-110 | tr '\n' ';' | sed 's/|/\\|/g')
  echo "| $id | $(basename $patch) | $ex | $sigs |" >> $out.tmp
  [ $ex -eq 1 ] || rc=1
  rm -f $log
done
# merge with the rows of earlier runs (a partial run updates its own rows only)
python3 - "$out" "$out.tmp" <<'PY'
import sys, re, os
out, tmp = sys.argv[1], sys.argv[2]
rows = {}
for path in (out, tmp):
    if not os.path.exists(path):
        continue
    for line in open(path, errors="replace"):
        m = re.match(r"\| (C\d\d-[a-z0-9]+) \|", line)
        if m:
            rows[m.group(1)] = line
with open(out, "w") as f:
    f.write("| seeded | patch | check exit | new signatures (first 3) |\n|---|---|---|---|\n")
    for k in sorted(rows):
        f.write(rows[k])
os.remove(tmp)
PY
cat $out
# leave the harness built from the restored tree
[ -n "$SHADOW" ] || (cd harness && cargo build --release --offline --quiet 2>/dev/null)
exit $rc

// Structural comparison of two runtime validator trees (the objects the emitted code builds),
// looking through named references. Used to NAME a hash256 difference by its root cause:
//   "members-permuted"       same union / intersection members, different order
//   "identical-modulo-refs"  no structural difference at all once references are followed
//   anything else            a real structural difference (class, keys, constants, ...)
import { rt } from "./loader.mjs";

const digestOf = (r) => {
  try {
    return rt.buildParserFromRuntype(r, "m", false).hash256();
  } catch {
    return "threw";
  }
};

function deref(x, depth = 0) {
  while (x && typeof x.refName === "string" && typeof x.getNamedRuntypes === "function" && depth++ < 50) x = x.getNamedRuntypes()[x.refName];
  return x;
}

export function diffRuntypes(a, b, seen = new Map(), depth = 0) {
  a = deref(a);
  b = deref(b);
  if (a == null || b == null) return a == b ? null : "missing";
  if (depth > 60) return null;
  // visited PAIRS (a shared, hoisted node may be compared with several different counterparts)
  let bs = seen.get(a);
  if (!bs) seen.set(a, (bs = new Set()));
  if (bs.has(b)) return null;
  bs.add(b);
  const ca = a.constructor.name,
    cb = b.constructor.name;
  if (ca !== cb) return `class:${[ca, cb].sort().join("/")}`;
  const kids = (xs, ys, what) => {
    if (xs.length !== ys.length) return `${what}-count`;
    for (let i = 0; i < xs.length; i++) {
      const d = diffRuntypes(xs[i], ys[i], seen, depth + 1);
      if (d) return d;
    }
    return null;
  };
  switch (ca) {
    case "AnyOfRuntype":
    case "AllOfRuntype":
    case "AnyOfDiscriminatedRuntype": {
      if (a.schemas.length !== b.schemas.length) return "members-count";
      const da = a.schemas.map(digestOf),
        db = b.schemas.map(digestOf);
      if (da.join() !== db.join()) {
        if (da.slice().sort().join() === db.slice().sort().join()) return "members-permuted";
        // members differ: find a deeper cause by pairing them in order
      }
      // pair off members with equal digests, compare the rest by class
      const restA = [],
        restB = db.slice();
      const leftB = b.schemas.slice();
      a.schemas.forEach((m, i) => {
        const j = restB.indexOf(da[i]);
        if (j >= 0) {
          restB.splice(j, 1);
          leftB.splice(j, 1);
        } else restA.push(m);
      });
      const rank = (m, d = 0) => {
        const r = deref(m);
        if (!r) return "?";
        const inner = r.properties ? Object.keys(r.properties).sort().join(",") : Array.isArray(r.schemas) && d < 2 ? "[" + r.schemas.map((x) => rank(x, d + 1)).sort().join(";") + "]" : "";
        return r.constructor.name + ":" + inner;
      };
      restA.sort((x, y) => rank(x).localeCompare(rank(y)));
      leftB.sort((x, y) => rank(x).localeCompare(rank(y)));
      const d = kids(restA, leftB, "members");
      if (d) return d;
      if (ca === "AnyOfDiscriminatedRuntype") {
        if (a.discriminator !== b.discriminator) return "discriminator-key";
        const ka = Object.keys(a.mapping).sort(),
          kb = Object.keys(b.mapping).sort();
        if (ka.join("\0") !== kb.join("\0")) return "discriminator-mapping-keys";
        for (const k of ka) {
          const x = diffRuntypes(a.mapping[k], b.mapping[k], seen, depth + 1);
          if (x) return x === "members-permuted" ? x : "mapping:" + x;
        }
      }
      return null;
    }
    case "ObjectRuntype": {
      const ka = Object.keys(a.properties).sort(),
        kb = Object.keys(b.properties).sort();
      if (ka.join("\0") !== kb.join("\0")) return "property-keys";
      for (const k of ka) {
        const d = diffRuntypes(a.properties[k], b.properties[k], seen, depth + 1);
        if (d) return d;
      }
      if (a.indexedPropertiesParser.length !== b.indexedPropertiesParser.length) return "index-signatures";
      for (let i = 0; i < a.indexedPropertiesParser.length; i++) {
        const d = diffRuntypes(a.indexedPropertiesParser[i].key, b.indexedPropertiesParser[i].key, seen, depth + 1) || diffRuntypes(a.indexedPropertiesParser[i].value, b.indexedPropertiesParser[i].value, seen, depth + 1);
        if (d) return d;
      }
      return null;
    }
    case "OptionalFieldRuntype":
      return diffRuntypes(a.t, b.t, seen, depth + 1);
    case "ArrayRuntype":
    case "SetRuntype":
      return diffRuntypes(a.itemParser, b.itemParser, seen, depth + 1);
    case "MapRuntype":
      return diffRuntypes(a.keyParser, b.keyParser, seen, depth + 1) || diffRuntypes(a.valueParser, b.valueParser, seen, depth + 1);
    case "TupleRuntype":
      return kids(a.prefix, b.prefix, "tuple-prefix") || ((a.rest == null) !== (b.rest == null) ? "tuple-rest" : a.rest ? diffRuntypes(a.rest, b.rest, seen, depth + 1) : null);
    case "ConstRuntype":
      return Object.is(a.value, b.value) ? null : "const-value";
    case "AnyOfConstsRuntype": {
      const sa = a.values.map((v) => typeof v + String(v)).sort().join("\0"),
        sb = b.values.map((v) => typeof v + String(v)).sort().join("\0");
      return sa === sb ? null : "const-set";
    }
    case "RegexRuntype":
      return a.description === b.description && String(a.regex) === String(b.regex) ? null : "regex";
    case "TypeofRuntype":
      return a.typeName === b.typeName ? null : "typeof";
    case "NullishRuntype":
      return null;
    case "StringWithFormatRuntype":
    case "NumberWithFormatRuntype":
      return a.formats.join("\0") === b.formats.join("\0") ? null : "formats";
    case "TypedArrayRuntype":
      return a.ctorName === b.ctorName ? null : "typed-array";
    default:
      return null;
  }
}

export function nameHashDifference(p1, p2) {
  const d = diffRuntypes(p1._runtype, p2._runtype);
  return d == null ? "identical-modulo-refs" : d;
}

// does the validator reach one of its named types again from inside it? Read off describe() so that it
// does not depend on the reference being able to normalise the source type.
export function isRecursiveParser(parser) {
  let text;
  try {
    text = parser.describe();
  } catch (e) {
    return e instanceof RangeError;
  }
  const decls = [...text.matchAll(/^type\s+([A-Za-z_$][\w$]*)\s*=([\s\S]*?)(?=^type\s|\s*$(?![\s\S]))/gm)].map((m) => [m[1], m[2]]);
  const names = decls.map((d) => d[0]);
  const edges = new Map(decls.map(([n, body]) => [n, names.filter((m) => new RegExp(`(?<![\\w$"])${m.replace(/\$/g, "\\$")}(?![\\w$"])`).test(body))]));
  const state = new Map();
  const visit = (n) => {
    if (state.get(n) === 1) return true;
    if (state.get(n) === 2) return false;
    state.set(n, 1);
    for (const m of edges.get(n) || []) if (visit(m)) return true;
    state.set(n, 2);
    return false;
  };
  return names.some((n) => visit(n));
}

// JSON helpers for the schema monitors (C02, C16): JSON-only filtering of values, a schema-directed
// document generator (so that documents valid for the SCHEMA but foreign to the type are actually
// produced) and $ref resolution by JSON-pointer walk.

export function isJsonValue(v, depth = 0) {
  if (depth > 40) return false;
  if (v === null) return true;
  switch (typeof v) {
    case "string":
    case "boolean":
      return true;
    case "number":
      return Number.isFinite(v) && !Object.is(v, -0);
    case "object":
      if (Array.isArray(v)) {
        for (let i = 0; i < v.length; i++) if (!(i in v) || !isJsonValue(v[i], depth + 1)) return false;
        return true;
      }
      if (Object.getPrototypeOf(v) !== Object.prototype) return false;
      for (const k of Object.keys(v)) if (k === "__proto__" || !isJsonValue(v[k], depth + 1)) return false;
      return Object.getOwnPropertySymbols(v).length === 0;
  }
  return false;
}

export function nullFree(v) {
  if (v === null) return false;
  if (Array.isArray(v)) return v.every(nullFree);
  if (typeof v === "object") return Object.values(v).every(nullFree);
  return true;
}

export function resolvePointer(root, ref) {
  if (typeof ref !== "string" || !ref.startsWith("#")) return undefined;
  let cur = root;
  const frag = ref.slice(1);
  if (frag === "") return cur;
  if (!frag.startsWith("/")) return undefined;
  for (const raw of frag.slice(1).split("/")) {
    const seg = decodeURIComponent(raw).replace(/~1/g, "/").replace(/~0/g, "~");
    if (cur === null || typeof cur !== "object" || !Object.prototype.hasOwnProperty.call(cur, seg)) return undefined;
    cur = cur[seg];
  }
  return cur;
}

export function allRefs(schema, out = [], depth = 0) {
  if (schema === null || typeof schema !== "object" || depth > 80) return out;
  if (Array.isArray(schema)) {
    for (const x of schema) allRefs(x, out, depth + 1);
    return out;
  }
  for (const [k, v] of Object.entries(schema)) {
    if (k === "$ref" && typeof v === "string") out.push(v);
    else if (k === "enum" || k === "const") continue;
    else allRefs(v, out, depth + 1);
  }
  return out;
}

// documents derived from the schema text alone
export function schemaDirectedDocs(rng, schema, root, n) {
  const pool = { string: ["", "a", "b", "x-y", "0", "toString"], number: [0, 1, -1, 1.5, 42], integer: [0, 1], boolean: [true, false] };
  const gen = (s, depth) => {
    if (s === true || s === undefined) return rng.pick([1, "s", null, {}, []]);
    if (s === false) return undefined;
    if (depth > 8) return null;
    if (s.$ref) {
      const t = resolvePointer(root, s.$ref);
      return t === undefined ? null : gen(t, depth + 1);
    }
    if ("const" in s) return s.const;
    if (s.enum) return s.enum.length ? rng.pick(s.enum) : undefined;
    for (const key of ["anyOf", "oneOf"]) if (Array.isArray(s[key])) return s[key].length ? gen(rng.pick(s[key]), depth + 1) : undefined;
    if (Array.isArray(s.allOf)) {
      const parts = s.allOf.map((x) => gen(x, depth + 1));
      if (parts.every((p) => p !== null && typeof p === "object" && !Array.isArray(p))) return Object.assign({}, ...parts);
      return parts[0];
    }
    const type = Array.isArray(s.type) ? rng.pick(s.type) : s.type;
    switch (type) {
      case "null":
        return null;
      case "string":
      case "number":
      case "integer":
      case "boolean":
        return rng.pick(pool[type]);
      case "array": {
        const out = [];
        for (const p of s.prefixItems || []) out.push(gen(p, depth + 1));
        if (s.items !== false && s.items !== undefined) {
          const k = rng.below(3);
          for (let i = 0; i < k; i++) out.push(gen(s.items, depth + 1));
        } else if (s.items === undefined && !s.prefixItems && rng.chance(0.5)) out.push(1);
        // sometimes shorter / longer than the prefix
        if (rng.chance(0.25) && out.length) out.pop();
        if (rng.chance(0.1)) out.push("extra");
        return out.map((x) => (x === undefined ? null : x));
      }
      case "object": {
        const o = {};
        const req = new Set(s.required || []);
        for (const [k, ps] of Object.entries(s.properties || {})) {
          if (k === "__proto__") continue;
          if (req.has(k) ? !rng.chance(0.08) : rng.chance(0.5)) {
            const v = gen(ps, depth + 1);
            if (v !== undefined) o[k] = v;
          }
        }
        if (s.additionalProperties !== false) {
          if (rng.chance(0.5)) {
            const k = s.propertyNames ? gen(s.propertyNames, depth + 1) : rng.pick(["extra", "zz", "k_1"]);
            if (typeof k === "string" && k !== "__proto__") o[k] = s.additionalProperties && s.additionalProperties !== true ? gen(s.additionalProperties, depth + 1) : rng.pick([1, "s", null]);
          }
        } else if (rng.chance(0.1)) o.extra_key = 1;
        for (const k of Object.keys(o)) if (o[k] === undefined) delete o[k];
        return o;
      }
    }
    return rng.pick([null, 1, "s", {}, []]);
  };
  const out = [];
  for (let i = 0; i < n; i++) {
    const d = gen(schema, 0);
    if (d !== undefined && isJsonValue(d)) out.push(d);
  }
  return out;
}

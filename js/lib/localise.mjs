// Localiser: descends through (type, value) in lock-step to the smallest sub-type / sub-value pair
// on which implementation and reference still disagree. Every candidate sub-type is rendered as a
// standalone program, compiled by the real compiler and run — re-execution, not inference.
import * as A from "../gen/ast.mjs";
import { renderDecl, renderType } from "../gen/ast.mjs";
import { valueClass } from "./ejson.mjs";
import { loadModule, buildAll, ALL_SETTINGS } from "./loader.mjs";

// core type -> source AST (+ alias declarations for the definitions it refers to)
export function coreToSource(env, core) {
  const names = new Map(); // def key -> alias name
  const order = [];
  const conv = (t) => {
    switch (t.c) {
      case "any":
        return A.kw("any");
      case "never":
        return A.kw("never");
      case "fn":
        return { k: "raw", text: "(() => void)" };
      case "prim":
        return A.kw(t.p);
      case "nullish":
        return A.kw("null");
      case "lit":
        return A.lit(t.v);
      case "anyobj":
        return A.kw("object");
      case "date":
        return { k: "builtin", name: "Date" };
      case "typed":
        return { k: "builtin", name: t.name };
      case "fmt":
        return { k: "fmt", base: t.base, chain: t.chain };
      case "tpl": {
        const part = (p) => (p.s != null ? A.lit(p.s) : p.h ? A.kw(p.h) : A.union(p.alts.map(part)));
        return { k: "tpl", parts: t.parts.map((p) => (p.s != null ? p.s : part(p))) };
      }
      case "arr":
        return A.arr(conv(t.el));
      case "tuple":
        return A.tuple(t.items.map(conv), t.rest ? conv(t.rest) : null);
      case "obj":
        return A.obj(
          t.props.map((p) => A.prop(p.name, conv(p.t), p.opt)),
          t.index ? { key: conv(t.index.key), val: t.index.opt ? A.union([conv(t.index.val), A.kw("undefined")]) : conv(t.index.val), pname: "k" } : null,
        );
      case "union":
        return A.union(t.ts.map(conv));
      case "inter":
        return A.inter(t.ts.map(conv));
      case "map":
        return { k: "map", key: conv(t.key), val: conv(t.val) };
      case "set":
        return { k: "set", el: conv(t.el) };
      case "ref": {
        if (!names.has(t.key)) {
          const n = `Def${names.size}`;
          names.set(t.key, n);
          order.push(t.key);
        }
        return A.ref(names.get(t.key));
      }
    }
    throw new Error("coreToSource: " + t.c);
  };
  const root = conv(core);
  const decls = [];
  for (let i = 0; i < order.length; i++) {
    const def = env.defs.get(order[i]);
    decls.push({ d: "alias", name: names.get(order[i]), params: [], t: conv(def) });
  }
  return { decls, root };
}

export function coreProgramText(env, core) {
  const { decls, root } = coreToSource(env, core);
  // an optional index signature value has no source spelling except through a mapped type; it is
  // rendered as `| undefined`, which denotes the same values under beff's conventions
  return decls.map(renderDecl).join("\n") + `\nexport const Parsers = parse.buildParsers<{ X: ${renderType(root)} }>();\n`;
}

export function shallow(env, t, depth = 1) {
  try {
    t = env.resolve(t);
  } catch {
    return "ref?";
  }
  const k = (x) => (depth > 0 ? shallow(env, x, depth - 1) : "_");
  switch (t.c) {
    case "prim":
      return t.p;
    case "lit": {
      if (typeof t.v !== "number") return "lit:" + typeof t.v;
      // beff stores numeric literals as i64 integral + 1e-9 fixed-point fraction (ast/json.rs)
      const tr = Math.trunc(t.v);
      if (Math.abs(t.v) >= 2 ** 63) return "lit:number:beyond-i64";
      if (tr + Math.trunc((t.v - tr) * 1e9) / 1e9 !== t.v) return "lit:number:fraction-not-fixed-point";
      return "lit:number";
    }
    case "fmt":
      return "fmt:" + t.base;
    case "typed":
      return "typed";
    case "tpl": {
      const pk = (p) => (p.s != null ? "s" : p.h ? p.h[0].toUpperCase() : `alts(${[...new Set(p.alts.map(pk))].sort().join("")}${p.alts.some((a) => a.s === "") ? ",empty" : ""})`);
      return `tpl(${t.parts.map(pk).join(",")})`;
    }
    case "arr":
      return `arr(${k(t.el)})`;
    case "tuple":
      return `tuple(${t.items.length}${t.rest ? ",rest" : ""})`;
    case "obj":
      return `obj(${t.props.length ? "props" : "noprops"}${t.props.some((p) => p.opt) ? ",opt" : ""}${t.index ? ",index:" + k(t.index.key) : ""})`;
    case "union":
      return `union(${[...new Set(t.ts.map((x) => shallow(env, x, 0)))].sort().join("|")})`;
    case "inter":
      return `inter(${[...new Set(t.ts.map((x) => shallow(env, x, 0)))].sort().join("&")})`;
    case "map":
      return "map";
    case "set":
      return "set";
    default:
      return t.c;
  }
}

function children(env, t, v) {
  let r;
  try {
    r = env.resolve(t);
  } catch {
    return [];
  }
  if (t.c === "ref") return [[r, v]];
  const out = [];
  const hasOwn = (o, k) => Object.prototype.hasOwnProperty.call(o, k);
  switch (r.c) {
    case "union":
    case "inter":
      for (const m of r.ts) out.push([m, v]);
      break;
    case "arr":
      if (Array.isArray(v)) for (let i = 0; i < Math.min(v.length, 6); i++) out.push([r.el, v[i]]);
      break;
    case "tuple":
      if (Array.isArray(v))
        for (let i = 0; i < Math.min(v.length, 8); i++) {
          const it = i < r.items.length ? r.items[i] : r.rest;
          if (it) out.push([it, v[i]]);
        }
      break;
    case "obj":
      if (v !== null && typeof v === "object") {
        for (const p of r.props) if (hasOwn(v, p.name)) out.push([p.t, v[p.name]]);
        if (r.index) {
          const declared = new Set(r.props.map((p) => p.name));
          for (const k of Object.keys(v).filter((k) => !declared.has(k)).slice(0, 6)) out.push([r.index.val, v[k]]);
        }
        // the object with one property at a time (isolates which member is at fault)
        if (r.props.length > 1 || (r.index && r.props.length > 0)) {
          for (const p of r.props) out.push([{ c: "obj", props: [p], index: null }, v]);
          if (r.index) out.push([{ c: "obj", props: [], index: r.index }, v]);
        }
      }
      break;
    case "map":
      if (v instanceof Map)
        for (const [k, x] of [...v].slice(0, 4)) {
          out.push([r.key, k]);
          out.push([r.val, x]);
        }
      break;
    case "set":
      if (v instanceof Set) for (const x of [...v].slice(0, 4)) out.push([r.el, x]);
      break;
  }
  return out;
}

// judge(core, value) -> Promise<{impl, ref}> ; both in {'Y','N','U'} or 'T:<msg>' for impl throws
export async function localise(env, core, v, judge, want /* {impl, ref} at the root */) {
  let cur = [core, v];
  let curJ = want;
  const path = [];
  for (let depth = 0; depth < 400; depth++) {
    let next = null;
    for (const [t2, v2] of children(env, cur[0], cur[1])) {
      let j;
      try {
        j = await judge(t2, v2);
      } catch (e) {
        continue;
      }
      if (j == null || j.ref === "U" || j.impl === j.ref) continue;
      // prefer a child that disagrees in the same direction
      if (j.impl === curJ.impl && j.ref === curJ.ref) {
        next = [[t2, v2], j];
        break;
      }
      if (!next) next = [[t2, v2], j];
    }
    if (!next) break;
    cur = next[0];
    curJ = next[1];
    path.push(shallow(env, cur[0], 0));
  }
  return {
    core: cur[0],
    value: cur[1],
    impl: curJ.impl,
    ref: curJ.ref,
    signature: `${String(curJ.impl).startsWith("T:") ? "throws" : curJ.impl}/${curJ.ref}|${shallow(env, cur[0])}|${valueClass(cur[1])}`,
    depth: path.length,
  };
}

// standard judge for validate(): compiles the sub-type on its own
export function makeValidateJudge(env, compiler, refModel, options) {
  const cache = new Map();
  return async (core, v) => {
    const text = coreProgramText(env, core);
    let parser = cache.get(text);
    if (parser === undefined) {
      const res = await compiler.compile({ files: { "entry.ts": text }, settings: ALL_SETTINGS });
      if (res.outcome !== "code") parser = null;
      else {
        try {
          parser = buildAll(loadModule(res.code, ALL_SETTINGS)).X;
        } catch {
          parser = null;
        }
      }
      cache.set(text, parser);
    }
    if (parser == null) return null;
    let impl;
    try {
      impl = parser.validate(v, options) ? "Y" : "N";
    } catch (e) {
      impl = "T:" + String(e && e.message).slice(0, 60);
    }
    const ref = options && options.disallowExtraProperties ? refModel.strictMember(core, v) : refModel.member(core, v);
    return { impl, ref };
  };
}

// ---------------------------------------------------------------------------------------------
// Source-level stage: when the operator-free core type, compiled on its own, agrees with the
// reference but the original spelling does not, the fault lies in how a type operator (keyof,
// T[K], mapped, conditional, utility, typeof, enum, generic instantiation, interface extends) was
// evaluated. Find the innermost operator expression that, compiled in isolation with the program's
// declarations, disagrees with the reference on some value.
import { renderProgram, mapType } from "../gen/ast.mjs";
import { ValGen, hostilePool } from "../gen/valgen.mjs";
import { Rng } from "./rng.mjs";
import { isCyclic } from "./deep.mjs";

const OP_KINDS = new Set(["index", "keyof", "mapped", "cond", "util", "typeof", "enumMember"]);

function operatorNodes(prog, rootT, env) {
  // innermost-first list of closed operator expressions reachable from rootT
  const out = [];
  const seenDecl = new Set();
  const visit = (t, closed) => {
    mapType(t, (x) => {
      if (x.k === "ref") {
        const d = prog.decls.find((d) => d.name === x.name);
        if (d && !seenDecl.has(d.name)) {
          seenDecl.add(d.name);
          const generic = d.params && d.params.length > 0;
          if (d.d === "alias") visit(d.t, !generic);
          if (d.d === "iface") {
            for (const p of d.props) visit(p.t, !generic);
            for (const e of d.ext || []) visit(e, !generic);
          }
        }
        if (closed && d && (x.args.length > 0 || d.d === "enum" || (d.d === "iface" && d.ext && d.ext.length))) out.push(x);
      } else if (closed && x.k === "inter") {
        // an intersection around operator results: the compiler merges intersected object literals only
        // when it can compare their members, which operator results may prevent (candidate after its operators)
        let inner = false;
        for (const m of x.ts)
          mapType(m, (y) => {
            if (OP_KINDS.has(y.k) || (y.k === "ref" && y.args.length > 0)) inner = true;
            return y;
          });
        if (inner) out.push(x);
      } else if (closed && OP_KINDS.has(x.k)) {
        if (x.k === "mapped" && env) {
          // operator expressions under the mapped parameter: test them instantiated at a few keys
          try {
            const ks = env.keyList(env.norm(x.constraint)).lits.slice(0, 3);
            for (const key of ks) {
              const inst = mapType(x.val, (y) => (y.k === "ref" && y.name === x.param && y.args.length === 0 ? { k: "lit", v: key } : y));
              mapType(inst, (y) => {
                if (OP_KINDS.has(y.k)) out.push(y);
                return y;
              });
            }
          } catch {}
        }
        out.push(x);
      }
      return x;
    });
  };
  visit(rootT, true);
  return out;
}

function describeOp(env, S) {
  const sub = (t) => {
    try {
      return shallow(env, env.norm(t), 0);
    } catch {
      return "?";
    }
  };
  switch (S.k) {
    case "inter":
      return `inter-around-operators(${sub(S)})`;
    case "util":
      return `util:${S.name}(${S.args.map(sub).join(",")})`;
    case "index":
      return `index(${sub(S.obj)},${sub(S.idx)})`;
    case "keyof":
      return `keyof(${sub(S.t)})`;
    case "mapped":
      // (a mapped type whose member type is an indexed access names the indexed object as well)
      return `mapped(${sub(S.constraint)}${S.opt ? ",opt" : ""}${S.val && S.val.k === "index" ? ",val=index(" + sub(S.val.obj) + ")" : ""})`;
    case "cond":
      return `cond(${sub(S.check)},${sub(S.ext)})`;
    case "typeof":
      return `typeof(${S.ofEnum ? "enum" : S.path.length ? "path" : "whole"})`;
    case "enumMember":
      return "enumMember";
    case "ref":
      return S.args.length ? `generic(${S.args.map(sub).join(",")})` : "named";
  }
  return S.k;
}

export async function localiseSource(ctx, item, rootT, v, want, options) {
  const { prog } = item;
  const env = prog.env;
  const strict = options && options.disallowExtraProperties;
  const implOf = (parser, x) => {
    try {
      return parser.validate(x, options) ? "Y" : "N";
    } catch (e) {
      return "T:" + String(e && e.message).slice(0, 60);
    }
  };
  const subValues = [];
  const collect = (x, d) => {
    if (d > 6 || subValues.length > 60) return;
    subValues.push(x);
    if (Array.isArray(x)) x.forEach((y) => collect(y, d + 1));
    else if (x !== null && typeof x === "object" && Object.getPrototypeOf(x) === Object.prototype) for (const k of Object.keys(x)) collect(x[k], d + 1);
  };
  collect(v, 0);
  const ops = operatorNodes(prog, rootT, env);
  const tried = new Set();
  for (const S of ops) {
    let core;
    try {
      core = env.norm(S);
    } catch {
      continue;
    }
    const text = renderProgram({ decls: prog.decls, parsers: [{ name: "X", t: S }] });
    if (tried.has(text)) continue;
    tried.add(text);
    const res = await ctx.compiler.compile({ files: { "entry.ts": text }, settings: ALL_SETTINGS });
    if (res.outcome !== "code") continue;
    let parser;
    try {
      parser = buildAll(loadModule(res.code, ALL_SETTINGS)).X;
    } catch {
      continue;
    }
    const vg = new ValGen(new Rng(ctx.seed, "srcloc|" + text.length), env);
    const ms = vg.members(core, 10);
    const cands = [...subValues, ...ms, ...ms.flatMap((m) => vg.mutants(m, 2)), ...hostilePool()].filter((x) => !isCyclic(x)); // (cyclic inputs are C03 / C12's subject)
    if (strict) {
      // an operator that already disagrees with the reference in DEFAULT mode on some candidate is
      // C01's finding; whatever it does in strict mode follows from that
      let defaultModeDisagrees = false;
      for (const x of cands) {
        const rd = item.ref.member(core, x);
        if (rd === "U") continue;
        let id;
        try {
          id = parser.validate(x) ? "Y" : "N";
        } catch (e) {
          id = "T";
        }
        if (id !== rd) {
          defaultModeDisagrees = true;
          break;
        }
      }
      if (defaultModeDisagrees) return { skip: true };
    }
    for (const x of cands) {
      const r = strict ? item.ref.strictMember(core, x) : item.ref.member(core, x);
      if (r === "U") continue;
      const impl = implOf(parser, x);
      if (impl !== r) {
        if (strict) {
          // a pair that already disagrees in default mode is C01's finding, not the strict monitor's
          const rd = item.ref.member(core, x);
          let id;
          try {
            id = parser.validate(x) ? "Y" : "N";
          } catch (e) {
            id = "T";
          }
          if (rd !== "U" && id !== rd) return { skip: true };
        }
        // not the operator's doing if its operator-free result, compiled on its own, disagrees the same way
        // (a literal or a leaf inside it): hand that over to the structural localiser
        const judge = makeValidateJudge(env, ctx.compiler, item.ref, options);
        const j = await judge(core, x);
        if (j && j.impl === impl && j.ref === r) {
          const loc = await localise(env, core, x, judge, { impl, ref: r });
          return { signature: loc.signature, text: coreProgramText(env, loc.core), value: loc.value, impl, ref: r, op: `result of ${describeOp(env, S)}` };
        }
        // attribution by re-execution: an operand that has no values because of a `never` inside it (a
        // tuple slot, a required property) is `never` for the semantic engine, not for TypeScript; does
        // the operator agree with the reference once every `never` is spelled `null`?
        let cause = "";
        let mentionsNever = false;
        mapType(S, (y) => {
          if (y.k === "kw" && y.name === "never") mentionsNever = true;
          return y;
        });
        if (mentionsNever && !strict) {
          try {
            const S2 = mapType(S, (y) => (y.k === "kw" && y.name === "never" ? { k: "kw", name: "null" } : y));
            const core2 = env.norm(S2);
            const text2 = renderProgram({ decls: prog.decls, parsers: [{ name: "X", t: S2 }] });
            const res2 = await ctx.compiler.compile({ files: { "entry.ts": text2 }, settings: ALL_SETTINGS });
            if (res2.outcome === "code") {
              const parser2 = buildAll(loadModule(res2.code, ALL_SETTINGS)).X;
              const vg2 = new ValGen(new Rng(ctx.seed, "srcloc2|" + text2.length), env);
              const ms2 = vg2.members(core2, 10);
              const cands2 = [...subValues, ...ms2, ...ms2.flatMap((m) => vg2.mutants(m, 2)), ...hostilePool()].filter((y) => !isCyclic(y));
              const agrees = cands2.every((y) => {
                const r2 = item.ref.member(core2, y);
                return r2 === "U" || implOf(parser2, y) === r2;
              });
              if (agrees) cause = "|cause:never-spelled-as-null-agrees";
            }
          } catch {}
        }
        return {
          signature: `${impl.startsWith("T:") ? "throws" : impl}/${r}|src:${describeOp(env, S)}${cause}`,
          text,
          value: x,
          impl,
          ref: r,
          op: describeOp(env, S),
        };
      }
    }
  }
  const kinds = [...new Set(ops.map((S) => (S.k === "util" ? "util:" + S.name : S.k === "ref" ? (S.args.length ? "generic" : "named") : S.k)))].sort();
  return { signature: `${want.impl.startsWith("T:") ? "throws" : want.impl}/${want.ref}|src:context(${kinds.join(",")})|${valueClass(v)}`, text: null, value: v, impl: want.impl, ref: want.ref, op: "context" };
}

// Client of the `beffc --serve` compile server (one child process per Compiler instance).
import { spawn, spawnSync } from "node:child_process";
import fs from "node:fs";
import path from "node:path";

export const BEFFC = process.env.BVH_BEFFC || "/verif/harness/target/release/beffc";

export class Compiler {
  constructor() {
    this.child = null;
    this.pending = null;
    this.buf = "";
    this.restarts = 0;
    this.nextId = 1;
  }
  _start() {
    this.child = spawn(BEFFC, ["--serve"], { stdio: ["pipe", "pipe", "ignore"] });
    this.buf = "";
    this.child.stdout.setEncoding("utf8");
    this.child.stdout.on("data", (d) => {
      this.buf += d;
      let i;
      while ((i = this.buf.indexOf("\n")) >= 0) {
        const line = this.buf.slice(0, i);
        this.buf = this.buf.slice(i + 1);
        if (this.pending) {
          const p = this.pending;
          this.pending = null;
          let v;
          try {
            v = JSON.parse(line);
          } catch (e) {
            v = { outcome: "bad_response", line };
          }
          p.resolve(v);
        }
      }
    });
    const child = this.child;
    child.on("exit", (code, signal) => {
      if (this.child === child) this.child = null;
      if (this.pending) {
        const p = this.pending;
        this.pending = null;
        p.resolve({ outcome: "died", code, signal });
      }
    });
    child.stdin.on("error", () => {});
  }
  // resolves to the server's answer; {outcome:"died"} when the server process was killed by the request
  compile(req) {
    if (!this.child) {
      this._start();
      this.restarts++;
    }
    const id = this.nextId++;
    return new Promise((resolve) => {
      this.pending = { resolve };
      this.child.stdin.write(JSON.stringify({ id, ...req }) + "\n");
    });
  }
  close() {
    if (this.child) {
      try {
        this.child.stdin.end();
      } catch {}
      this.child.kill();
      this.child = null;
    }
  }
}

// one request in its own OS process (fresh hash seeds); returns parsed answer
export function compileOnce(req, { timeoutMs = 120000 } = {}) {
  const r = spawnSync(BEFFC, ["--once", "-"], {
    input: JSON.stringify({ id: 0, ...req }),
    encoding: "utf8",
    timeout: timeoutMs,
    maxBuffer: 1 << 28,
  });
  if (r.status === null) return { outcome: r.signal === "SIGTERM" && r.error ? "timeout" : "died", signal: r.signal };
  const line = (r.stdout || "").trim().split("\n").pop();
  try {
    return JSON.parse(line);
  } catch {
    return { outcome: "died", code: r.status, signal: r.signal, stderr: (r.stderr || "").slice(-2000) };
  }
}

// stack signature of a crashing / hanging request, via gdb in batch mode (only used to name a violation)
export function gdbSignature(req, mode /* "crash" | "hang" */) {
  const dir = fs.mkdtempSync("/var/tmp/bvh-gdb-");
  const f = path.join(dir, "req.json");
  fs.writeFileSync(f, JSON.stringify({ id: 0, cpu_budget_ms: 3600000, ...req }));
  let out = "";
  try {
    if (mode === "crash") {
      const r = spawnSync("gdb", ["-batch", "-ex", "run", "-ex", "bt 80", "--args", BEFFC, "--once", f], {
        encoding: "utf8",
        timeout: 120000,
        maxBuffer: 1 << 26,
      });
      out = (r.stdout || "") + (r.stderr || "");
    } else {
      const child = spawn(BEFFC, ["--once", f], { stdio: "ignore" });
      spawnSync("sleep", ["2"]);
      const r = spawnSync("gdb", ["-p", String(child.pid), "-batch", "-ex", "thread apply all bt 60"], {
        encoding: "utf8",
        timeout: 60000,
        maxBuffer: 1 << 26,
      });
      out = (r.stdout || "") + (r.stderr || "");
      child.kill("SIGKILL");
    }
  } finally {
    fs.rmSync(dir, { recursive: true, force: true });
  }
  const fns = new Set();
  for (const m of out.matchAll(/\b(beff_core::[A-Za-z0-9_:<>{}]+)/g)) {
    let name = m[1].replace(/::\{closure[^}]*\}/g, "").replace(/<[^>]*>/g, "");
    name = name.split("::").slice(0, 5).join("::");
    if (/::(clone|drop|fmt|eq|cmp|hash)$/.test(name)) continue;
    fns.add(name);
  }
  return [...fns].sort().slice(0, 12);
}

// Client of the `beffc --serve` compile server (one child process per Compiler instance).
import { spawn, spawnSync } from "node:child_process";
import fs from "node:fs";
import path from "node:path";

export const BEFFC = process.env.BVH_BEFFC || "/verif/harness/target/release/beffc";

export class Compiler {
  constructor() {
    this.child = null;
    this.pending = null;
    this.buf = "";
    this.restarts = 0;
    this.nextId = 1;
  }
  _start() {
    this.child = spawn(BEFFC, ["--serve"], { stdio: ["pipe", "pipe", "ignore"] });
    this.buf = "";
    this.child.stdout.setEncoding("utf8");
    this.child.stdout.on("data", (d) => {
      this.buf += d;
      let i;
      while ((i = this.buf.indexOf("\n")) >= 0) {
        const line = this.buf.slice(0, i);
        this.buf = this.buf.slice(i + 1);
        if (this.pending) {
          const p = this.pending;
          this.pending = null;
          let v;
          try {
            v = JSON.parse(line);
          } catch (e) {
            v = { outcome: "bad_response", line };
          }
          p.resolve(v);
        }
      }
    });
    const child = this.child;
    child.on("exit", (code, signal) => {
      if (this.child === child) this.child = null;
      if (this.pending) {
        const p = this.pending;
        this.pending = null;
        p.resolve({ outcome: "died", code, signal });
      }
    });
    child.stdin.on("error", () => {});
  }
  // resolves to the server's answer; {outcome:"died"} when the server process was killed by the request
  compile(req) {
    if (!this.child) {
      this._start();
      this.restarts++;
    }
    const id = this.nextId++;
    return new Promise((resolve) => {
      this.pending = { resolve };
      this.child.stdin.write(JSON.stringify({ id, ...req }) + "\n");
    });
  }
  close() {
    if (this.child) {
      try {
        this.child.stdin.end();
      } catch {}
      this.child.kill();
      this.child = null;
    }
  }
}

// one request in its own OS process (fresh hash seeds); returns parsed answer
export function compileOnce(req, { timeoutMs = 120000 } = {}) {
  const r = spawnSync(BEFFC, ["--once", "-"], {
    input: JSON.stringify({ id: 0, ...req }),
    encoding: "utf8",
    timeout: timeoutMs,
    maxBuffer: 1 << 28,
  });
  if (r.status === null) return { outcome: r.signal === "SIGTERM" && r.error ? "timeout" : "died", signal: r.signal };
  const line = (r.stdout || "").trim().split("\n").pop();
  try {
    return JSON.parse(line);
  } catch {
    return { outcome: "died", code: r.status, signal: r.signal, stderr: (r.stderr || "").slice(-2000) };
  }
}

// stack signature of a crashing / hanging request, via gdb in batch mode (only used to name a violation)
export function gdbSignature(req, mode /* "crash" | "hang" */) {
  // on a loaded machine gdb may not get through loading the symbols in time: try again before giving up
  for (let attempt = 0; attempt < 3; attempt++) {
    const fns = gdbSignatureOnce(req, mode, 300000 * (attempt + 1));
    if (fns.length) return fns;
  }
  return [];
}
function gdbSignatureOnce(req, mode, timeoutMs) {
  const dir = fs.mkdtempSync("/var/tmp/bvh-gdb-");
  const f = path.join(dir, "req.json");
  fs.writeFileSync(f, JSON.stringify({ id: 0, cpu_budget_ms: 3600000, ...req }));
  let out = "";
  try {
    if (mode === "crash") {
      const r = spawnSync("gdb", ["-batch", "-ex", "run", "-ex", "bt 400", "--args", BEFFC, "--once", f], {
        encoding: "utf8",
        timeout: timeoutMs,
        maxBuffer: 1 << 26,
      });
      out = (r.stdout || "") + (r.stderr || "");
    } else {
      const child = spawn(BEFFC, ["--once", f], { stdio: "ignore" });
      spawnSync("sleep", ["2"]);
      const r = spawnSync("gdb", ["-p", String(child.pid), "-batch", "-ex", "thread apply all bt 400"], {
        encoding: "utf8",
        timeout: timeoutMs,
        maxBuffer: 1 << 26,
      });
      out = (r.stdout || "") + (r.stderr || "");
      child.kill("SIGKILL");
    }
  } finally {
    fs.rmSync(dir, { recursive: true, force: true });
  }
  const fns = new Set();
  const counts = new Map();
  let frames = 0;
  for (const line of out.split("\n")) {
    // "#3  0x... in extract_type_query<bvh::VFileManager> () at /repo/packages/beff-core/src/frontend/mod.rs:2699"
    const m = /^#\d+\s+(?:0x[0-9a-f]+ in )?([A-Za-z_][\w:]*)(?:<.*>)? \(.*\) at .*packages\/(beff-[a-z]+)\/src\/([\w\/]+)\.rs:\d+/.exec(line);
    if (!m) continue;
    if (++frames > 400) break;
    const fn = m[1].split("::").pop();
    if (/^(clone|drop|fmt|eq|cmp|partial_cmp|hash|drop_in_place|call_once|from_iter|next|fold|map|collect)$/.test(fn)) continue;
    counts.set(`${m[3]}:${fn}`, (counts.get(`${m[3]}:${fn}`) || 0) + 1);
  }
  // the recursion cycle: functions that recur; fall back to the top frames for a non-recursive stack
  for (const [k, n] of counts) if (n >= 3) fns.add(k);
  if (fns.size === 0) for (const k of [...counts.keys()].slice(0, 6)) fns.add(k);
  return [...fns].sort();
}

// Structural helpers for the relational monitors: snapshots (mutation detection), deep equality,
// projection ("data consists only of parts of the input"), deep freeze.
import { types as utypes } from "node:util";

const isPlainish = (v) => v !== null && typeof v === "object" && !Array.isArray(v) && !(v instanceof Date) && !(v instanceof Map) && !(v instanceof Set) && !ArrayBuffer.isView(v);

// snapshot of everything reachable through own properties / entries (identity of containers kept)
export function snapshot(v, seen = new Map(), depth = 0) {
  if (v === null || (typeof v !== "object" && typeof v !== "function")) return { leaf: v };
  if (seen.has(v)) return { back: seen.get(v) };
  if (utypes.isProxy(v)) return { ref: v, opaque: true };
  const node = { ref: v };
  seen.set(v, node);
  if (depth > 260) return node;
  node.proto = Object.getPrototypeOf(v);
  node.extensible = Object.isExtensible(v);
  if (v instanceof Date) node.time = v.getTime();
  if (ArrayBuffer.isView(v)) {
    node.bytes = Buffer.from(v.buffer, v.byteOffset, v.byteLength).toString("hex");
    return node;
  }
  if (v instanceof Map) node.entries = [...v].map(([k, x]) => [snapshot(k, seen, depth + 1), snapshot(x, seen, depth + 1)]);
  if (v instanceof Set) node.items = [...v].map((x) => snapshot(x, seen, depth + 1));
  node.keys = Reflect.ownKeys(v);
  node.props = node.keys.map((k) => {
    const d = Object.getOwnPropertyDescriptor(v, k);
    return { k, enumerable: d.enumerable, writable: d.writable, configurable: d.configurable, get: d.get, set: d.set, value: "value" in d ? snapshot(d.value, seen, depth + 1) : null };
  });
  return node;
}

// null when unchanged, otherwise a description of the first difference
export function snapshotDiff(node, v, path = "$") {
  if ("leaf" in node) return Object.is(node.leaf, v) ? null : `${path}: leaf changed`;
  if (node.back) return node.back.ref === v ? null : `${path}: identity changed`;
  if (node.ref !== v) return `${path}: identity changed`;
  if (node.opaque || !("proto" in node)) return null;
  if (Object.getPrototypeOf(v) !== node.proto) return `${path}: prototype changed`;
  if (Object.isExtensible(v) !== node.extensible) return `${path}: extensibility changed`;
  if (v instanceof Date && !Object.is(v.getTime(), node.time)) return `${path}: date changed`;
  if (node.bytes != null) return Buffer.from(v.buffer, v.byteOffset, v.byteLength).toString("hex") === node.bytes ? null : `${path}: bytes changed`;
  if (node.entries) {
    const now = [...v];
    if (now.length !== node.entries.length) return `${path}: map size changed`;
    for (let i = 0; i < now.length; i++) {
      const d = snapshotDiff(node.entries[i][0], now[i][0], `${path}.key#${i}`) || snapshotDiff(node.entries[i][1], now[i][1], `${path}.value#${i}`);
      if (d) return d;
    }
  }
  if (node.items) {
    const now = [...v];
    if (now.length !== node.items.length) return `${path}: set size changed`;
    for (let i = 0; i < now.length; i++) {
      const d = snapshotDiff(node.items[i], now[i], `${path}.item#${i}`);
      if (d) return d;
    }
  }
  const keys = Reflect.ownKeys(v);
  if (keys.length !== node.keys.length || keys.some((k, i) => k !== node.keys[i])) return `${path}: own keys changed (${node.keys.map(String)} -> ${keys.map(String)})`;
  for (const p of node.props) {
    const d = Object.getOwnPropertyDescriptor(v, p.k);
    if (!d || d.enumerable !== p.enumerable || d.writable !== p.writable || d.configurable !== p.configurable || d.get !== p.get || d.set !== p.set) return `${path}.${String(p.k)}: descriptor changed`;
    if (p.value) {
      const x = snapshotDiff(p.value, d.value, `${path}.${String(p.k)}`);
      if (x) return x;
    }
  }
  return null;
}

export function deepFreeze(v, seen = new Set(), depth = 0) {
  if (v === null || (typeof v !== "object" && typeof v !== "function") || seen.has(v) || utypes.isProxy(v) || depth > 260) return v;
  seen.add(v);
  if (ArrayBuffer.isView(v)) return v;
  for (const k of Reflect.ownKeys(v)) {
    const d = Object.getOwnPropertyDescriptor(v, k);
    if (d && "value" in d) deepFreeze(d.value, seen, depth + 1);
  }
  if (v instanceof Map) for (const [k, x] of v) (deepFreeze(k, seen, depth + 1), deepFreeze(x, seen, depth + 1));
  if (v instanceof Set) for (const x of v) deepFreeze(x, seen, depth + 1);
  try {
    Object.freeze(v);
  } catch {}
  return v;
}

// deep equality: Object.is leaves, same container kinds, same own enumerable string keys
// (ordered when `ordered`), Map/Set by content, typed arrays by kind + bytes
export function deepEqual(a, b, ordered = true, depth = 0) {
  if (Object.is(a, b)) return true;
  if (a === null || b === null || typeof a !== "object" || typeof b !== "object") return false;
  if (depth > 260) return true;
  if (Array.isArray(a) !== Array.isArray(b)) return false;
  if (Array.isArray(a)) {
    if (a.length !== b.length) return false;
    for (let i = 0; i < a.length; i++) if (!deepEqual(a[i], b[i], ordered, depth + 1)) return false;
    return true;
  }
  if (a instanceof Date || b instanceof Date) return a instanceof Date && b instanceof Date && Object.is(a.getTime(), b.getTime());
  if (ArrayBuffer.isView(a) || ArrayBuffer.isView(b)) {
    if (!(ArrayBuffer.isView(a) && ArrayBuffer.isView(b)) || a.constructor !== b.constructor || a.length !== b.length) return false;
    for (let i = 0; i < a.length; i++) if (!Object.is(a[i], b[i])) return false;
    return true;
  }
  if (a instanceof Map || b instanceof Map) {
    if (!(a instanceof Map && b instanceof Map) || a.size !== b.size) return false;
    const ea = [...a],
      eb = [...b];
    for (let i = 0; i < ea.length; i++) if (!deepEqual(ea[i][0], eb[i][0], ordered, depth + 1) || !deepEqual(ea[i][1], eb[i][1], ordered, depth + 1)) return false;
    return true;
  }
  if (a instanceof Set || b instanceof Set) {
    if (!(a instanceof Set && b instanceof Set) || a.size !== b.size) return false;
    const ea = [...a],
      eb = [...b];
    for (let i = 0; i < ea.length; i++) if (!deepEqual(ea[i], eb[i], ordered, depth + 1)) return false;
    return true;
  }
  const ka = Object.keys(a),
    kb = Object.keys(b);
  if (ka.length !== kb.length) return false;
  if (ordered) {
    for (let i = 0; i < ka.length; i++) if (ka[i] !== kb[i]) return false;
  } else {
    const sb = new Set(kb);
    for (const k of ka) if (!sb.has(k)) return false;
  }
  for (const k of ka) if (!deepEqual(a[k], b[k], ordered, depth + 1)) return false;
  return true;
}

// data must consist of parts of the input: same container kinds, leaves Object.is-equal to what
// the input has at the same path, no path that the input lacks. null when it is a projection,
// otherwise a description of the first offending path.
export function projectionFault(data, input, path = "$", depth = 0) {
  if (depth > 260) return null;
  if (data === input) return null; // handed through unchanged (any / unknown / leaves)
  if (data === null || typeof data !== "object") {
    if (Object.is(data, input)) return null;
    return `${path}: leaf ${fmt(data)} is not what the input has there (${fmt(input)})`;
  }
  if (input === null || typeof input !== "object") return `${path}: output has a container where the input has ${fmt(input)}`;
  if (Array.isArray(data)) {
    if (!Array.isArray(input)) return `${path}: array in output, ${kind(input)} in input`;
    // (a too-short tuple is accepted when its missing slots accept undefined; the data must not grow
    // elements for them: they are not parts of the input)
    if (data.length > input.length) return `${path}: output array longer than input`;
    for (let i = 0; i < data.length; i++) {
      const f = projectionFault(data[i], input[i], `${path}[${i}]`, depth + 1);
      if (f) return f;
    }
    return null;
  }
  if (Array.isArray(input)) return `${path}: ${kind(data)} in output, array in input`;
  if (data instanceof Date || ArrayBuffer.isView(data)) {
    if (data === input) return null;
    return deepEqual(data, input) && kind(data) === kind(input) ? null : `${path}: ${kind(data)} leaf differs from input`;
  }
  if (data instanceof Map) {
    if (!(input instanceof Map)) return `${path}: Map in output, ${kind(input)} in input`;
    if (data.size > input.size) return `${path}: output Map larger than input`;
    const ei = [...input];
    let i = 0;
    for (const [k, x] of data) {
      // keys / values are rebuilt in input order
      while (i < ei.length && projectionFault(k, ei[i][0], path, depth + 1) !== null) i++;
      if (i >= ei.length) return `${path}: Map key ${fmt(k)} not in input`;
      const f = projectionFault(x, ei[i][1], `${path}.value(${fmt(k)})`, depth + 1);
      if (f) return f;
      i++;
    }
    return null;
  }
  if (data instanceof Set) {
    if (!(input instanceof Set)) return `${path}: Set in output, ${kind(input)} in input`;
    const ei = [...input];
    for (const x of data) if (!ei.some((y) => projectionFault(x, y, path, depth + 1) === null)) return `${path}: Set item ${fmt(x)} not in input`;
    return null;
  }
  if (Object.getPrototypeOf(data) !== Object.prototype) return `${path}: parsed object has a prototype other than Object.prototype`;
  // an object TYPE applied to a Date / Map / class instance projects its declared own properties into
  // a plain object: that is a projection, only LEAF positions must keep their kind
  for (const k of Object.keys(data)) {
    if (!Object.prototype.hasOwnProperty.call(input, k)) {
      // a declared property whose value is undefined may be materialised; anything else is invented
      if (data[k] === undefined && !(k in input)) continue;
      return `${path}.${k}: key not an own property of the input`;
    }
    const f = projectionFault(data[k], input[k], `${path}.${k}`, depth + 1);
    if (f) return f;
  }
  return null;
}

export function kind(v) {
  if (v === null) return "null";
  if (Array.isArray(v)) return "array";
  if (v instanceof Date) return "Date";
  if (v instanceof Map) return "Map";
  if (v instanceof Set) return "Set";
  if (ArrayBuffer.isView(v)) return v.constructor.name;
  return typeof v;
}
function fmt(v) {
  if (typeof v === "bigint") return v + "n";
  if (typeof v === "symbol" || typeof v === "function") return String(typeof v);
  try {
    return JSON.stringify(v) ?? String(v);
  } catch {
    try {
      return String(v);
    } catch {
      return Object.prototype.toString.call(v);
    }
  }
}
export { isPlainish };

export function isCyclic(v, stack = new Set(), depth = 0) {
  if (v === null || typeof v !== "object" || depth > 300) return false;
  if (stack.has(v)) return true;
  stack.add(v);
  let r = false;
  if (v instanceof Map) for (const [k, x] of v) r = r || isCyclic(k, stack, depth + 1) || isCyclic(x, stack, depth + 1);
  else if (v instanceof Set) for (const x of v) r = r || isCyclic(x, stack, depth + 1);
  else if (!ArrayBuffer.isView(v)) for (const k of Object.keys(v)) r = r || isCyclic(v[k], stack, depth + 1);
  stack.delete(v);
  return r;
}

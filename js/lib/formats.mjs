// Deterministic predicates of the custom formats used by the generators; shared by the
// implementation under test (registered through buildParsers) and by the reference model.
export const STRING_FORMATS = {
  even: (s) => s.length % 2 === 0,
  lower: (s) => s === s.toLowerCase(),
  nonempty: (s) => s.length > 0,
  ascii: (s) => /^[\x00-\x7f]*$/.test(s),
};
export const NUMBER_FORMATS = {
  int: (n) => Number.isInteger(n),
  pos: (n) => n > 0,
  finite: (n) => Number.isFinite(n),
  small: (n) => Math.abs(n) < 100,
};
export const ALL_SETTINGS = {
  string_formats: Object.keys(STRING_FORMATS),
  number_formats: Object.keys(NUMBER_FORMATS),
};

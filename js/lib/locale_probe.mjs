// prints digests of a few ad-hoc validators; run by C13 under several LC_ALL values (the digest of a
// validator must not depend on the locale of the process)
import path from "node:path";
const rt = process.argv[2];
const client = await import(path.join(rt, "index.js"));
const out = {};
const codegen = await import(path.join(rt, "codegen-v2.js"));
const P = (runtype) => codegen.buildParserFromRuntype(runtype, "p", false);
const consts = (vs) => new codegen.AnyOfConstsRuntype(undefined, vs);
out.mixed = P(consts(["ä", "z", "a", "Z", "å", "ö", "é", "E"])).hash256();
out.ascii = P(consts(["b", "B", "a", "A", "_", "-"])).hash256();
out.numbers = P(consts([10, 9, "10", "9", true])).hash256();
out.object = P(new codegen.ObjectRuntype(undefined, { ä: consts(["z", "ä"]), z: consts([1]), Z: consts([2]) }, [])).hash256();
try {
  out.schema = JSON.stringify(P(consts(["ä", "z", "a", "Z"])).schema());
} catch (e) {
  out.schema = "threw";
}
console.log(JSON.stringify(out));

// Localisation for the relational monitors (C03, C12): descend through (type, value) while the
// same clause still fails on the sub-type compiled on its own (re-execution, not inference).
import { coreProgramText } from "./localise.mjs";
import { compileText } from "./util.mjs";

export function children(env, t, v) {
  let r;
  try {
    r = env.resolve(t);
  } catch {
    return [];
  }
  if (t.c === "ref") return [[r, v]];
  const out = [];
  const hasOwn = (o, k) => Object.prototype.hasOwnProperty.call(o, k);
  if (r.c === "union" || r.c === "inter") for (const m of r.ts) out.push([m, v]);
  if (r.c === "arr" && Array.isArray(v)) for (const x of v.slice(0, 5)) out.push([r.el, x]);
  if (r.c === "tuple" && Array.isArray(v)) v.slice(0, 6).forEach((x, i) => (i < r.items.length ? out.push([r.items[i], x]) : r.rest && out.push([r.rest, x])));
  if (r.c === "obj" && v !== null && typeof v === "object") {
    for (const p of r.props) if (hasOwn(v, p.name)) out.push([p.t, v[p.name]]);
    if (r.index) for (const k of Object.keys(v).slice(0, 5)) out.push([r.index.val, v[k]]);
  }
  if (r.c === "map" && v instanceof Map) for (const [k, x] of [...v].slice(0, 3)) (out.push([r.key, k]), out.push([r.val, x]));
  if (r.c === "set" && v instanceof Set) for (const x of [...v].slice(0, 3)) out.push([r.el, x]);
  if (r.c === "union" && r.ts.length > 2) for (let i = 0; i < r.ts.length; i++) out.push([{ c: "union", ts: r.ts.filter((_, j) => j !== i) }, v]);
  return out;
}

export async function localiseClause(ctx, env, ref, core, v, o, clause, checkTriple) {
  const cache = new Map();
  const test = async (t, x) => {
    const text = coreProgramText(env, t);
    let parser = cache.get(text);
    if (parser === undefined) {
      const r = await compileText(ctx, text);
      parser = r.parsers ? r.parsers.X : null;
      cache.set(text, parser);
    }
    if (!parser) return null;
    const f = checkTriple(parser, "X", x, o, t, ref);
    return f && f.clause === clause ? f : null;
  };
  let cur = [core, v];
  let curF = await test(core, v);
  if (!curF) return { core, value: v, standalone: false, detail: null };
  for (let d = 0; d < 20; d++) {
    let next = null;
    for (const [t2, v2] of children(env, cur[0], cur[1])) {
      const f = await test(t2, v2);
      if (f) {
        next = [[t2, v2], f];
        break;
      }
    }
    if (!next) break;
    cur = next[0];
    curF = next[1];
  }
  return { core: cur[0], value: cur[1], standalone: true, detail: curF.detail };
}


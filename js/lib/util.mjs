import { loadModule, buildAll, ALL_SETTINGS } from "./loader.mjs";
import { renderProgram } from "../gen/ast.mjs";
import { Env } from "../ref/normalize.mjs";

// compile a raw program text and load its parsers (null when it does not compile / load)
export async function compileText(ctx, text, extraFiles = {}) {
  const req = { files: { "entry.ts": text, ...extraFiles }, settings: ALL_SETTINGS };
  const res = await ctx.compiler.compile(req);
  if (res.outcome !== "code") return { res, req, parsers: null };
  try {
    const mod = loadModule(res.code, ALL_SETTINGS);
    return { res, req, parsers: buildAll(mod), mod };
  } catch (e) {
    return { res: { ...res, outcome: "load_error", message: String(e && e.message) }, req, parsers: null };
  }
}

// compile an AST program {decls, parsers}; also evaluates it in the reference
export async function compileProgram(ctx, prog) {
  const text = renderProgram(prog);
  const r = await compileText(ctx, text);
  const env = new Env(prog.decls);
  const cores = new Map();
  for (const p of prog.parsers) cores.set(p.name, env.norm(p.t));
  return { ...r, text, env, cores };
}

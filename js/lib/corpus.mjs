// Shared workload: generated programs compiled by the real compiler and loaded against the real
// client runtime, with the reference model attached. Used by C01/C02/C03/C08/C11/C12/C13/C15/C16.
import { createHash } from "node:crypto";
import { Rng } from "./rng.mjs";
import { loadModule, buildAll, ALL_SETTINGS } from "./loader.mjs";
import { TypeGen, coreKinds } from "../gen/typegen.mjs";
import { ValGen, hostilePool } from "../gen/valgen.mjs";
import { renderProgram } from "../gen/ast.mjs";
import { Ref } from "../ref/member.mjs";
import { canon } from "../ref/normalize.mjs";

export const h8 = (s) => createHash("sha256").update(s).digest("hex").slice(0, 10);

export function typeKey(env, core) {
  // structural key of a core type with its definitions unfolded once
  const seen = new Set();
  const defs = [];
  const walk = (t) => {
    if (t && typeof t === "object") {
      if (t.c === "ref" && !seen.has(t.key)) {
        seen.add(t.key);
        const d = env.defs.get(t.key);
        defs.push(t.key + "=" + canon(d));
        walk(d);
      } else for (const k of Object.keys(t)) walk(t[k]);
    }
  };
  walk(core);
  return h8(canon(core) + "\n" + defs.join("\n"));
}

// yields compiled + loaded programs; compile failures are reported through onCompileFailure
export async function* corpus(ctx, { label, count, features, nDecls, nParsers, onCompileFailure }) {
  for (let i = 0; i < count; i++) {
    const rng = new Rng(ctx.seed, `${label}|${ctx.shard}|${i}`);
    const g = new TypeGen(rng.fork("types"), features);
    const prog = g.program({ nDecls, nParsers });
    const text = renderProgram(prog);
    const req = { files: { "entry.ts": text }, settings: ALL_SETTINGS };
    const res = await ctx.compiler.compile(req);
    ctx.count("programs_generated");
    for (const [k, n] of Object.entries(g.stats)) if (k.startsWith("decl:")) ctx.count(k, n);
    if (res.outcome !== "code") {
      ctx.count("programs_not_compiled");
      if (onCompileFailure) await onCompileFailure({ prog, text, req, res, index: i });
      continue;
    }
    let parsers;
    try {
      parsers = buildAll(loadModule(res.code, ALL_SETTINGS));
    } catch (e) {
      ctx.count("programs_not_loaded");
      if (onCompileFailure) await onCompileFailure({ prog, text, req, res: { outcome: "load_error", message: String(e && e.message) }, index: i });
      continue;
    }
    ctx.count("programs_compiled");
    yield { index: i, prog, text, req, res, parsers, ref: new Ref(prog.env), rng, valgen: new ValGen(rng.fork("values"), prog.env) };
  }
}

// items for hand-built AST programs ({decls, parsers}); same shape as the corpus yields
export async function* programItems(ctx, programs, label) {
  const { Env } = await import("../ref/normalize.mjs");
  let i = 0;
  for (const p of programs) {
    i++;
    const rng = new Rng(ctx.seed, `${label}|${i}`);
    const env = new Env(p.decls);
    const cores = new Map();
    for (const ps of p.parsers) cores.set(ps.name, env.norm(ps.t));
    const prog = { ...p, env, cores };
    const text = renderProgram(prog);
    const req = { files: { "entry.ts": text }, settings: ALL_SETTINGS };
    const res = await ctx.compiler.compile(req);
    if (res.outcome !== "code") throw new Error(`${label}: program ${i} does not compile: ${JSON.stringify(res.diagnostics?.[0]?.message ?? res.outcome)}\n${text}`);
    const parsers = buildAll(loadModule(res.code, ALL_SETTINGS));
    yield { index: i, prog, text, req, res, parsers, ref: new Ref(env), rng, valgen: new ValGen(rng.fork("values"), env) };
  }
}

// values for one parser: members by construction, one-edit mutants, hostile pool
export function valuesFor(item, core, { members = 10, mutantsPer = 2, hostile = true } = {}) {
  const vg = item.valgen;
  const ms = vg.members(core, members);
  const out = ms.map((v) => ({ v, origin: "member" }));
  for (const m of ms) for (const x of vg.mutants(m, mutantsPer)) out.push({ v: x, origin: "mutant" });
  if (hostile) for (const x of hostilePool()) out.push({ v: x, origin: "hostile" });
  return out;
}

export function kindsHistogram(ctx, env, core) {
  for (const k of coreKinds(env, core)) ctx.count("kind:" + k);
}

// Counter-mode deterministic PRNG: xoshiro128** seeded from sha256(seed|label).
import { createHash } from "node:crypto";

export class Rng {
  constructor(seed, label = "") {
    const d = createHash("sha256").update(`${seed}|${label}`).digest();
    this.s = [d.readUInt32LE(0) | 1, d.readUInt32LE(4), d.readUInt32LE(8), d.readUInt32LE(12)];
  }
  u32() {
    const s = this.s;
    const r = Math.imul(((Math.imul(s[1], 5) << 7) | (Math.imul(s[1], 5) >>> 25)), 9) >>> 0;
    const t = s[1] << 9;
    s[2] ^= s[0];
    s[3] ^= s[1];
    s[1] ^= s[2];
    s[0] ^= s[3];
    s[2] ^= t;
    s[3] = (s[3] << 11) | (s[3] >>> 21);
    return r;
  }
  below(n) {
    return n <= 0 ? 0 : this.u32() % n;
  }
  chance(p) {
    return this.u32() / 4294967296 < p;
  }
  pick(xs) {
    return xs[this.below(xs.length)];
  }
  // weighted pick: [[weight, value], ...]
  wpick(pairs) {
    let tot = 0;
    for (const [w] of pairs) tot += w;
    let r = (this.u32() / 4294967296) * tot;
    for (const [w, v] of pairs) {
      if (r < w) return v;
      r -= w;
    }
    return pairs[pairs.length - 1][1];
  }
  shuffle(xs) {
    const a = xs.slice();
    for (let i = a.length - 1; i > 0; i--) {
      const j = this.below(i + 1);
      [a[i], a[j]] = [a[j], a[i]];
    }
    return a;
  }
  fork(label) {
    return new Rng(this.u32(), label);
  }
}

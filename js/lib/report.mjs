// Shared reporting path of the membership monitors (C01 default mode, C11 strict mode):
// localise the disagreement by re-execution, derive the signature, register the violation.
import { typeKey, h8 } from "./corpus.mjs";
import { localise, localiseSource, makeValidateJudge, coreProgramText } from "./localise.mjs";
import { toEjson, valueClass, show } from "./ejson.mjs";
import { renderType } from "../gen/ast.mjs";
import { Ref } from "../ref/member.mjs";

// beff stores numeric literal types as i64 + 1e-9 fixed point (recorded: C01-lit-fixed-point)
export function lossyNumber(x) {
  if (typeof x !== "number" || !Number.isFinite(x)) return false;
  const tr = Math.trunc(x);
  return Math.abs(x) >= 2 ** 63 || tr + Math.trunc((x - tr) * 1e9) / 1e9 !== x;
}

// As-if attribution by re-execution: the same (type, value) pair with every numeric literal that the
// fixed-point storage cannot hold re-spelled as a small integer (in the type, in the definitions it
// refers to, and in the value). Returns null when the pair has no such literal.
export function respellLossyLiterals(env, core, v) {
  const map = new Map();
  const safe = (x) => {
    if (!map.has(x)) map.set(x, 990001 + map.size);
    return map.get(x);
  };
  const mc = (t) => {
    if (t == null || typeof t !== "object") return t;
    if (Array.isArray(t)) return t.map(mc);
    const pr = Object.getPrototypeOf(t);
    if (pr !== Object.prototype && pr !== null) return t;
    if (t.c === "lit" && lossyNumber(t.v)) return { ...t, v: safe(t.v) };
    const o = {};
    for (const k of Object.keys(t)) o[k] = mc(t[k]);
    return o;
  };
  const core2 = mc(core);
  const env2 = Object.create(env);
  env2.defs = new Map([...env.defs].map(([k, d]) => [k, mc(d)]));
  if (map.size === 0) return null;
  const seen = new Map();
  const mv = (x) => {
    if (typeof x === "number") return map.has(x) ? map.get(x) : x;
    if (x == null || typeof x !== "object") return x;
    if (seen.has(x)) return seen.get(x);
    if (Array.isArray(x)) {
      const a = [];
      seen.set(x, a);
      for (let i = 0; i < x.length; i++) if (i in x) a[i] = mv(x[i]);
      return a;
    }
    if (x instanceof Map) {
      const m = new Map();
      seen.set(x, m);
      for (const [k, w] of x) m.set(mv(k), mv(w));
      return m;
    }
    if (x instanceof Set) {
      const m = new Set();
      seen.set(x, m);
      for (const w of x) m.add(mv(w));
      return m;
    }
    const pr = Object.getPrototypeOf(x);
    if (pr !== Object.prototype && pr !== null) return x;
    const o = pr === null ? Object.create(null) : {};
    seen.set(x, o);
    for (const k of Object.keys(x)) Object.defineProperty(o, k, { value: mv(x[k]), enumerable: true, writable: true, configurable: true });
    return o;
  };
  return { env: env2, core: core2, value: mv(v), literals: [...map.keys()] };
}

export function implOf(parser, v, options) {
  try {
    return parser.validate(v, options) ? "Y" : "N";
  } catch (e) {
    return "T:" + String(e && e.message).slice(0, 60);
  }
}

export async function report(ctx, item, parserName, core, v, impl, ref, origin, locCache, srcT, options) {
  const env = item.prog.env;
  const ck = `${typeKey(env, core)}|${impl}|${ref}|${valueClass(v)}|${srcT ? h8(renderType(srcT)) : ""}`;
  let hit = locCache.get(ck);
  if (!hit) {
    const judge = makeValidateJudge(env, ctx.compiler, item.ref, options);
    // stage 0: does the operator-free core type, compiled on its own, show the same disagreement?
    const j0 = await judge(core, v);
    ctx.count("localisations");
    if (j0 == null || j0.impl === impl || !srcT) {
      const loc = await localise(env, core, v, judge, { impl, ref });
      if (options && options.disallowExtraProperties) {
        // strict-mode monitor: a localised pair that already disagrees in default mode is C01's finding
        const jd = await makeValidateJudge(env, ctx.compiler, item.ref, undefined)(loc.core, loc.value);
        if (jd && jd.ref !== "U" && jd.impl !== jd.ref) {
          locCache.set(ck, { skip: true });
          ctx.inconclusive("default-mode-disagreement-left-to-C01");
          return;
        }
        // a numeric literal the fixed-point storage cannot hold (C01-lit-fixed-point) may show under strict
        // mode only - when another union member covers the value structurally in default mode. Decided by
        // re-execution: the same pair with those literals re-spelled as small integers.
        const rs = respellLossyLiterals(env, loc.core, loc.value);
        if (rs) {
          const j2 = await makeValidateJudge(rs.env, ctx.compiler, new Ref(rs.env), options)(rs.core, rs.value);
          if (j2 && j2.ref !== "U" && j2.impl === j2.ref) loc.signature = `${impl[0]}/${ref}|cause:number-literal-not-representable-in-fixed-point|agrees-when-respelled`;
        }
      }
      hit = { signature: loc.signature, text: coreProgramText(env, loc.core), value: loc.value, detail: `localised to ${coreProgramText(env, loc.core).trim().split("\n").pop()} on ${show(loc.value)}` };
    } else {
      const loc = await localiseSource(ctx, item, srcT, v, { impl, ref }, options);
      if (loc.skip) hit = { skip: true };
      else hit = { signature: loc.signature, text: loc.text ?? item.text, value: loc.value, parser: loc.text ? "X" : parserName, detail: `operator ${loc.op}: ${(loc.text ?? item.text).trim().split("\n").slice(-3).join(" ")} on ${show(loc.value)} (impl ${loc.impl}, reference ${loc.ref})`, expect: loc.ref, observed: loc.impl };
    }
    locCache.set(ck, hit);
  }
  if (hit.skip) {
    ctx.inconclusive("default-mode-disagreement-left-to-C01");
    return;
  }
  ctx.violation({
    signature: hit.signature,
    clause: impl.startsWith("T:") ? "validate-threw" : impl === "Y" ? "accepts-non-member" : "rejects-member",
    detail: hit.detail,
    replay: {
      kind: "pair",
      text: hit.text,
      parser: hit.parser ?? "X",
      value: toEjson(hit.value),
      expect: hit.expect ?? ref,
      observed: hit.observed ?? impl,
      options: options ?? null,
      original: { text: item.text, parser: parserName, value: toEjson(v), origin },
    },
  });
}


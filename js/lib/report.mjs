// Shared reporting path of the membership monitors (C01 default mode, C11 strict mode):
// localise the disagreement by re-execution, derive the signature, register the violation.
import { typeKey, h8 } from "./corpus.mjs";
import { localise, localiseSource, makeValidateJudge, coreProgramText } from "./localise.mjs";
import { toEjson, valueClass, show } from "./ejson.mjs";
import { renderType } from "../gen/ast.mjs";

export function implOf(parser, v, options) {
  try {
    return parser.validate(v, options) ? "Y" : "N";
  } catch (e) {
    return "T:" + String(e && e.message).slice(0, 60);
  }
}

export async function report(ctx, item, parserName, core, v, impl, ref, origin, locCache, srcT, options) {
  const env = item.prog.env;
  const ck = `${typeKey(env, core)}|${impl}|${ref}|${valueClass(v)}|${srcT ? h8(renderType(srcT)) : ""}`;
  let hit = locCache.get(ck);
  if (!hit) {
    const judge = makeValidateJudge(env, ctx.compiler, item.ref, options);
    // stage 0: does the operator-free core type, compiled on its own, show the same disagreement?
    const j0 = await judge(core, v);
    ctx.count("localisations");
    if (j0 == null || j0.impl === impl || !srcT) {
      const loc = await localise(env, core, v, judge, { impl, ref });
      if (options && options.disallowExtraProperties) {
        // strict-mode monitor: a localised pair that already disagrees in default mode is C01's finding
        const jd = await makeValidateJudge(env, ctx.compiler, item.ref, undefined)(loc.core, loc.value);
        if (jd && jd.ref !== "U" && jd.impl !== jd.ref) {
          locCache.set(ck, { skip: true });
          ctx.inconclusive("default-mode-disagreement-left-to-C01");
          return;
        }
      }
      hit = { signature: loc.signature, text: coreProgramText(env, loc.core), value: loc.value, detail: `localised to ${coreProgramText(env, loc.core).trim().split("\n").pop()} on ${show(loc.value)}` };
    } else {
      const loc = await localiseSource(ctx, item, srcT, v, { impl, ref }, options);
      if (loc.skip) hit = { skip: true };
      else hit = { signature: loc.signature, text: loc.text ?? item.text, value: loc.value, parser: loc.text ? "X" : parserName, detail: `operator ${loc.op}: ${(loc.text ?? item.text).trim().split("\n").slice(-3).join(" ")} on ${show(loc.value)} (impl ${loc.impl}, reference ${loc.ref})`, expect: loc.ref, observed: loc.impl };
    }
    locCache.set(ck, hit);
  }
  if (hit.skip) {
    ctx.inconclusive("default-mode-disagreement-left-to-C01");
    return;
  }
  ctx.violation({
    signature: hit.signature,
    clause: impl.startsWith("T:") ? "validate-threw" : impl === "Y" ? "accepts-non-member" : "rejects-member",
    detail: hit.detail,
    replay: {
      kind: "pair",
      text: hit.text,
      parser: hit.parser ?? "X",
      value: toEjson(hit.value),
      expect: hit.expect ?? ref,
      observed: hit.observed ?? impl,
      options: options ?? null,
      original: { text: item.text, parser: parserName, value: toEjson(v), origin },
    },
  });
}


// Loads an emitted module against the type-stripped client runtime, assembled the way
// ts-node/bundle-to-disk.ts::finalizeParserV2File does for module:"cjs".
import fs from "node:fs";
import path from "node:path";
import { buildRuntime } from "../prep-runtime.mjs";

export const RT_DIR = buildRuntime();
export const rt = await import(path.join(RT_DIR, "codegen-v2.js"));
export const client = await import(path.join(RT_DIR, "index.js"));
export const hashmod = await import(path.join(RT_DIR, "hash.js"));
const glueBody = fs.readFileSync(path.join(RT_DIR, "glue-body.js"), "utf8");

export function assembleFunctionBody(code) {
  return `"use strict";\n${glueBody}\n${code}\nreturn { buildParsers, namedRuntypes, buildParsersInput };`;
}

// returns { buildParsers, namedRuntypes, buildParsersInput }; throws what the module throws at load
export function loadModule(code, settings = {}) {
  const fn = new Function("__rt", "RequiredStringFormats", "RequiredNumberFormats", assembleFunctionBody(code));
  return fn(rt, settings.string_formats ?? [], settings.number_formats ?? []);
}

// real ESM load of the file exactly as written to disk for module:"esm" (import path rewritten)
export async function loadAsEsm(code, settings = {}) {
  const glue = fs.readFileSync(path.join(RT_DIR, "glue-esm.js"), "utf8").replace(
    '"@beff/client/codegen-v2"',
    JSON.stringify("file://" + path.join(RT_DIR, "codegen-v2.js")),
  );
  const text = [
    "//@ts-nocheck",
    "",
    glue,
    `const RequiredStringFormats = ${JSON.stringify(settings.string_formats ?? [])};`,
    `const RequiredNumberFormats = ${JSON.stringify(settings.number_formats ?? [])};`,
    code,
    "export default { buildParsers };",
  ].join("\n");
  const m = await import("data:text/javascript;base64," + Buffer.from(text).toString("base64"));
  return m.default;
}

import { STRING_FORMATS, NUMBER_FORMATS, ALL_SETTINGS } from "./formats.mjs";
export { STRING_FORMATS, NUMBER_FORMATS, ALL_SETTINGS };
export function buildAll(mod) {
  return mod.buildParsers({ stringFormats: STRING_FORMATS, numberFormats: NUMBER_FORMATS });
}

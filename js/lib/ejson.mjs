// value <-> extended JSON, so that replay files and evidence samples can carry non-JSON inputs.
import { types as utypes } from "node:util";

export class Point {
  constructor(fields) {
    Object.assign(this, fields);
  }
  method() {
    return 1;
  }
}

export function toEjson(v, depth = 0) {
  if (depth > 250) return { $deep: true };
  if (v === undefined) return { $undefined: true };
  if (v === null) return null;
  switch (typeof v) {
    case "boolean":
    case "string":
      return v;
    case "number":
      if (Number.isNaN(v)) return { $number: "NaN" };
      if (!Number.isFinite(v)) return { $number: v > 0 ? "Infinity" : "-Infinity" };
      if (Object.is(v, -0)) return { $number: "-0" };
      return v;
    case "bigint":
      return { $bigint: v.toString() };
    case "symbol":
      return { $symbol: v.description ?? "" };
    case "function":
      return { $function: v.name || "anon" };
  }
  if (utypes.isProxy(v)) return { $proxy: true };
  if (Array.isArray(v)) {
    const out = [];
    let sparse = false;
    for (let i = 0; i < v.length; i++) {
      if (!(i in v)) {
        sparse = true;
        out.push({ $hole: true });
      } else out.push(toEjson(v[i], depth + 1));
    }
    return sparse ? { $sparse: out } : out;
  }
  if (v instanceof Date) return { $date: Number.isNaN(v.getTime()) ? "NaN" : v.getTime() };
  if (v instanceof Map) return { $map: [...v].map(([k, x]) => [toEjson(k, depth + 1), toEjson(x, depth + 1)]) };
  if (v instanceof Set) return { $set: [...v].map((x) => toEjson(x, depth + 1)) };
  if (ArrayBuffer.isView(v)) return { $typed: v.constructor.name, data: [...v].map((x) => (typeof x === "bigint" ? x.toString() : x)) };
  if (v instanceof String) return { $boxed: "String", v: v.valueOf() };
  if (v instanceof Number) return { $boxed: "Number", v: toEjson(v.valueOf()) };
  if (v instanceof Boolean) return { $boxed: "Boolean", v: v.valueOf() };
  const proto = Object.getPrototypeOf(v);
  const fields = [];
  for (const k of Object.getOwnPropertyNames(v)) {
    const d = Object.getOwnPropertyDescriptor(v, k);
    fields.push([k, toEjson(d.value, depth + 1), d.enumerable ? 1 : 0]);
  }
  const kind = proto === null ? "null" : proto === Object.prototype ? "plain" : v instanceof Point ? "Point" : "other";
  return { $obj: kind, fields };
}

export function fromEjson(j) {
  if (j === null || typeof j !== "object") return j;
  if (Array.isArray(j)) return j.map(fromEjson);
  if (j.$undefined) return undefined;
  if (j.$number) return j.$number === "NaN" ? NaN : j.$number === "-0" ? -0 : j.$number === "Infinity" ? Infinity : -Infinity;
  if (j.$bigint != null) return BigInt(j.$bigint);
  if (j.$symbol != null) return Symbol(j.$symbol);
  if (j.$function != null) return function replayed() {};
  if (j.$proxy) return new Proxy({}, {});
  if (j.$deep) return null;
  if (j.$sparse) {
    const a = new Array(j.$sparse.length);
    j.$sparse.forEach((x, i) => {
      if (!(x && x.$hole)) a[i] = fromEjson(x);
    });
    return a;
  }
  if (j.$date != null) return new Date(j.$date === "NaN" ? NaN : j.$date);
  if (j.$map) return new Map(j.$map.map(([k, x]) => [fromEjson(k), fromEjson(x)]));
  if (j.$set) return new Set(j.$set.map(fromEjson));
  if (j.$typed) {
    const ctor = globalThis[j.$typed];
    const big = j.$typed.startsWith("Big");
    return new ctor(j.data.map((x) => (big ? BigInt(x) : x)));
  }
  if (j.$boxed) return j.$boxed === "String" ? new String(j.v) : j.$boxed === "Number" ? new Number(fromEjson(j.v)) : new Boolean(j.v);
  if (j.$obj) {
    const o = j.$obj === "null" ? Object.create(null) : j.$obj === "Point" ? new Point({}) : {};
    for (const [k, x, en] of j.fields) Object.defineProperty(o, k, { value: fromEjson(x), enumerable: !!en, writable: true, configurable: true });
    return o;
  }
  return j;
}

// short human-readable rendering for evidence samples / logs
export function show(v, max = 160) {
  let s;
  try {
    s = JSON.stringify(toEjson(v));
  } catch {
    try {
      s = String(v);
    } catch {
      s = Object.prototype.toString.call(v);
    }
  }
  return s.length > max ? s.slice(0, max) + "…" : s;
}

// coarse class of a value (for counting distinct cases)
export function valueClass(v, depth = 0) {
  if (v === null) return "null";
  if (v === undefined) return "undefined";
  const t = typeof v;
  if (t === "number") return Number.isNaN(v) ? "NaN" : !Number.isFinite(v) ? "inf" : Object.is(v, -0) ? "-0" : Number.isInteger(v) ? "int" : "float";
  if (t === "string" && /-\d/.test(v) && depth === 0) return "str:negnum";
  if (t === "string") return v === "" ? "str:empty" : /^-?\d+(\.\d+)?$/.test(v) ? "str:num" : /\n/.test(v) ? "str:nl" : v.length > 8 ? "str:long" : "str";
  if (t !== "object") return t;
  if (utypes.isProxy(v)) return "proxy";
  if (Array.isArray(v)) return depth > 1 ? "array" : `array(${v.length > 3 ? "n" : v.length})[${v.slice(0, 3).map((x) => valueClass(x, depth + 1)).join(",")}]`;
  if (v instanceof Date) return "Date";
  if (v instanceof Map) return "Map";
  if (v instanceof Set) return "Set";
  if (ArrayBuffer.isView(v)) return v.constructor.name;
  const proto = Object.getPrototypeOf(v);
  const p = proto === null ? "nullproto" : proto === Object.prototype ? "obj" : "instance";
  if (depth > 1) return p;
  const kc = (k) => (k === "__proto__" ? "__proto__" : /^(constructor|toString|hasOwnProperty|valueOf)$/.test(k) ? "protoname" : /^-?\d+(\.\d+)?$/.test(k) ? "numkey" : "key");
  return `${p}{${[...new Set(Object.keys(v).map((k) => kc(k) + ":" + valueClass(v[k], depth + 1)))].sort().slice(0, 6).join(",")}}`;
}

// C10 — compilation output is a deterministic function of the sources.
// Events: sha256 of the emit_code() bytes and of the serialised diagnostics per
// (project, OS process #, file registration order). Oracle: all equal.
import { createHash } from "node:crypto";
import { corpus, h8 } from "../lib/corpus.mjs";
import { Rng } from "../lib/rng.mjs";
import { compileOnce } from "../lib/compiler.mjs";
import { wildProgram, mutateCorpus, multiFileProject, randomSettings, corpusPrograms } from "../gen/wild.mjs";
import { TypeGen } from "../gen/typegen.mjs";
import { renderProgram } from "../gen/ast.mjs";
import { ALL_SETTINGS } from "../lib/formats.mjs";

const sha = (s) => createHash("sha256").update(s).digest("hex").slice(0, 16);

function fingerprint(res) {
  if (res.outcome === "code") return { kind: "code", text: res.code };
  if (res.outcome === "diagnostics")
    return { kind: "diagnostics", text: res.diagnostics.map((d) => `${d.kind}|${d.file}|${d.line_lo ?? ""}:${d.col_lo ?? ""}-${d.line_hi ?? ""}:${d.col_hi ?? ""}|${d.message}`).join("\n") };
  return { kind: res.outcome, text: JSON.stringify(res.panic ?? res.message ?? "") };
}

function describeDiff(a, b) {
  if (a.kind !== b.kind) return `outcome:${[a.kind, b.kind].sort().join("/")}`;
  const la = a.text.split("\n"),
    lb = b.text.split("\n");
  let i = 0;
  while (i < la.length && i < lb.length && la[i] === lb[i]) i++;
  if (a.kind === "code") {
    const cls = (l) => ((l || "").match(/new (\w+)/) || [])[1] || ((l || "").match(/^\s*"[^"]*":/) ? "table-entry" : "other");
    return `code:${[cls(la[i]), cls(lb[i])].sort().join("/")}`;
  }
  const sa = new Set(la),
    sb = new Set(lb);
  const sameSet = la.length === lb.length && la.every((x) => sb.has(x)) && lb.every((x) => sa.has(x));
  const variant = (l) => (l || "").split("|").pop().replace(/'[^']*'/g, "'…'").slice(0, 40);
  return sameSet ? "diagnostics:order-only" : `diagnostics:${[variant(la[i]), variant(lb[i])].sort().join("/")}`;
}

// typeof of a namespace import whose module has several exports, some of which cannot be converted
function typeofNamespaceProject(rng) {
  const bad = ["foo()", "class {}", "new Date()", "/re/", "x ? 1 : 2", "[...y]", "{ [k]: 1 }", "`t${z}`", "await q"];
  const good = ["1", '"s"', "{ a: 1 } as const", "[1, 2] as const", "true", "null", "{ n: { m: 2 } }"];
  const n = 3 + rng.below(5);
  const lines = [];
  for (let i = 0; i < n; i++) lines.push(`export const v${i} = ${rng.chance(0.45) ? rng.pick(bad) : rng.pick(good)};`);
  if (rng.chance(0.5)) lines.push(`export type T${n} = { p: typeof v0 };`);
  const files = {
    "a.ts": lines.join("\n") + "\n",
    "entry.ts": `import * as ns from "./a";\n${rng.chance(0.5) ? 'export * from "./a";\n' : ""}export const P = parse.buildParsers<{ A: typeof ns; B: ${rng.pick(["typeof ns.v0", "typeof ns.v1", "string"])} }>();\n`,
  };
  return { files, label: "typeof-namespace" };
}

// failing projects whose unresolved names have several equally near candidates among the names a
// module exports / declares (a diagnostic that enumerates or ranks candidates must not follow the
// iteration order of a hash table)
function nearMissProject(rng) {
  const stems = rng.pick([
    ["CreateUserInput", "UpdateUserInput", "DeleteUserInput", "RemoveUserInput", "ReplaceUserInput"],
    ["ItemA", "ItemB", "ItemC", "ItemD", "ItemE", "ItemF"],
    ["alpha1", "alpha2", "alpha3", "alphb1", "alpba1"],
    ["Shape", "Shaqe", "Shade", "Share", "Shame", "Shapes"],
    ["userId", "userid", "user_id", "usersId", "userIds"],
  ]);
  const names = rng.shuffle(stems);
  const missing = names[0];
  const present = names.slice(1, 3 + rng.below(names.length - 2));
  const valueNames = /^[a-z]/.test(missing);
  const decl = (n, i) => {
    const k = rng.below(valueNames ? 3 : 5);
    if (valueNames) return k === 0 ? `export const ${n} = { k: ${i} } as const;` : k === 1 ? `export const ${n} = ${i};` : `export declare const ${n}: { v: ${i} };`;
    return k === 0 ? `export type ${n} = { k: ${i} };` : k === 1 ? `export interface ${n} { k: ${i} }` : k === 2 ? `export enum ${n} { M = ${i} }` : k === 3 ? `type ${n}_ = ${i};\nexport type { ${n}_ as ${n} };` : `export type ${n}<T = ${i}> = T[];`;
  };
  const m = rng.shuffle(present.map(decl)).join("\n") + "\n";
  const viaStar = rng.chance(0.3);
  const files = viaStar ? { "inner.ts": m, "m.ts": 'export * from "./inner";\n' } : { "m.ts": m };
  const use = rng.below(valueNames ? 3 : 5);
  let entry;
  if (valueNames) {
    entry = use === 0 ? `import { ${missing} } from "./m";\nexport const P = parse.buildParsers<{ X: typeof ${missing} }>();\n`
      : use === 1 ? `import * as ns from "./m";\nexport const P = parse.buildParsers<{ X: typeof ns.${missing} }>();\n`
      : `export const P = parse.buildParsers<{ X: typeof import("./m").${missing} }>();\n`;
  } else {
    entry = use === 0 ? `import { ${missing} } from "./m";\nexport const P = parse.buildParsers<{ X: ${missing} }>();\n`
      : use === 1 ? `import * as ns from "./m";\nexport const P = parse.buildParsers<{ X: ns.${missing}; Y: ns.${present[0]} }>();\n`
      : use === 2 ? `export const P = parse.buildParsers<{ X: import("./m").${missing} }>();\n`
      : use === 3 ? `import type { ${missing} as Local } from "./m";\nexport const P = parse.buildParsers<{ X: Local[] }>();\n`
      : `${present.map((n, i) => `type ${n} = ${i};`).join("\n")}\nexport const P = parse.buildParsers<{ X: ${missing} }>();\n`;
  }
  files["entry.ts"] = entry;
  // sometimes: a missing key / member among similar ones
  if (rng.chance(0.3)) {
    const keys = present.map((n) => n.toLowerCase());
    files["entry.ts"] = `type O = { ${keys.map((k, i) => `${k}: ${i}`).join("; ")} };\nenum E { ${present.map((n, i) => `${n} = ${i}`).join(", ")} }\nexport const P = parse.buildParsers<{ X: ${rng.pick([`O["${missing.toLowerCase()}"]`, `Pick<O, "${missing.toLowerCase()}">`, `E.${missing}`, `typeof E.${missing}`, `Omit<O, "${missing.toLowerCase()}">`])} }>();\n`;
  }
  return { files, label: "near-miss" };
}

// names that reach the entry through two or three `export *` hops (also with a named re-export in
// between), to be built with every PARTIAL pre-registration of the files: what is registered before
// the build, and in which order, must not decide what the lookups find
function starChainProject(rng) {
  const hops = 2 + rng.below(2);
  const files = {};
  const names = ["a", "b", "c", "d"].slice(0, hops + 1);
  for (let i = 0; i < hops; i++) {
    const next = names[i + 1];
    const own = rng.chance(0.5) ? `export type Own${i} = { at: ${i} };\n` : "";
    const link = rng.wpick([[5, `export * from "./${next}";\n`], [1, `export * from "./${next}";\nexport * from "./${next}";\n`], [1, `export { X, Y } from "./${next}";\n`]]);
    files[`${names[i]}.ts`] = rng.chance(0.5) ? own + link : link + own;
  }
  files[`${names[hops]}.ts`] = `export type X = { x: ${rng.pick(["string", "number", '"lit"'])} };\nexport interface Y { y: X[] }\nexport const v = { k: 1 } as const;\n`;
  files["entry.ts"] = rng.pick([
    `import { X, Y } from "./a";\nexport const P = parse.buildParsers<{ X: X; Y: Y }>();\n`,
    `import * as ns from "./a";\nexport const P = parse.buildParsers<{ X: ns.X; V: typeof ns.v }>();\n`,
    `import type { Y } from "./a";\nimport { Own0 } from "./a";\nexport const P = parse.buildParsers<{ Y: Y; O: Own0 }>();\n`,
    `export const P = parse.buildParsers<{ X: import("./a").X; M: import("./a").Missing }>();\n`,
  ]);
  return { files, label: "star-chain" };
}

// a barrel whose `export *` targets export ONE name with different meanings (legal TypeScript: the name is
// ambiguous and simply not re-exported; beff lets the earlier line win) - with a target listed twice, reached
// under two spellings ("./t0" and "./t0/index"-like duplicates are out of reach of the virtual resolver, a
// repeated line is not), or reached again through a second barrel. Which declaration wins must not vary.
function starConflictProject(rng) {
  const n = 2 + rng.below(3);
  const files = {};
  const targets = [];
  for (let i = 0; i < n; i++) {
    targets.push(`t${i}`);
    files[`t${i}.ts`] = `export type Shared = { from: ${i} };\nexport const shared = { from: ${i} } as const;\nexport type Only${i} = "only${i}";\n`;
  }
  let lines = targets.map((t) => `export * from "./${t}";\n`);
  const dup = rng.below(4);
  if (dup === 0) lines.splice(rng.below(lines.length + 1), 0, `export * from "./${rng.pick(targets)}";\n`);
  else if (dup === 1) lines.push(lines[0]);
  else if (dup === 2) {
    files["inner.ts"] = rng.shuffle(targets).map((t) => `export * from "./${t}";\n`).join("");
    lines.splice(rng.below(lines.length + 1), 0, 'export * from "./inner";\n');
  }
  if (rng.chance(0.5)) lines = rng.shuffle(lines);
  files["barrel.ts"] = lines.join("");
  files["entry.ts"] = rng.pick([
    'import { Shared } from "./barrel";\nexport const P = parse.buildParsers<{ S: Shared }>();\n',
    'import * as b from "./barrel";\nexport const P = parse.buildParsers<{ S: b.Shared; V: typeof b.shared }>();\n',
    'import * as b from "./barrel";\nexport const P = parse.buildParsers<{ N: typeof b }>();\n',
    'import { shared, Only0 } from "./barrel";\nexport const P = parse.buildParsers<{ V: typeof shared; O: Only0 }>();\n',
    'export const P = parse.buildParsers<{ S: import("./barrel").Shared }>();\n',
  ]);
  return { files, label: "star-conflict" };
}

// one package name that means different files for importers in different directories (nested
// node_modules); compiled through beff_wasm's own resolver as well, with partial registrations
function nestedPackagesProject(rng) {
  const pkg = rng.pick(["cfg", "@scope/cfg", "shared-types"]);
  const files = {
    [`a/node_modules/${pkg}/index.ts`]: 'export type Cfg = { level: string };\nexport const tag = "a" as const;\n',
    [`b/node_modules/${pkg}/index.ts`]: 'export type Cfg = { level: number; strict: boolean };\nexport const tag = "b" as const;\n',
    "a/x.ts": `import { Cfg } from "${pkg}";\nexport type A = { cfg: Cfg };\n`,
    "b/y.ts": rng.pick([`import { Cfg } from "${pkg}";\nexport type B = { cfg: Cfg };\n`, `import * as p from "${pkg}";\nexport type B = { cfg: p.Cfg; t: typeof p.tag };\n`, `export type B = { cfg: import("${pkg}").Cfg };\n`]),
    "entry.ts": rng.pick(['import { A } from "./a/x";\nimport { B } from "./b/y";\n', 'import { B } from "./b/y";\nimport { A } from "./a/x";\n']) + "export const P = parse.buildParsers<{ A: A; B: B }>();\n",
  };
  if (rng.chance(0.5)) files[`node_modules/${pkg}/index.ts`] = "export type Cfg = { level: null };\n";
  return { files, label: "nested-packages", viaWasm: true };
}

function manyDeclsProgram(rng) {
  // many same-shaped declarations (hoist numbering, named-ref substitution) and two-key discriminated unions
  const g = new TypeGen(rng.fork("t"), { maxDepth: 3 });
  const p = g.program({ nDecls: 8 + rng.below(8), nParsers: 5 + rng.below(6) });
  return { files: { "entry.ts": renderProgram(p) }, label: "supported", settings: ALL_SETTINGS };
}

export async function run(ctx) {
  const nProjects = ctx.share(9600, 160000);
  const procs = ctx.quick ? 6 : 12;
  let sampled = 0;
  for (let i = 0; i < nProjects; i++) {
    const rng = new Rng(ctx.seed, `C10|${ctx.shard}|${i}`);
    const kind = rng.wpick([
      [5, "supported"],
      [3, "typeof-namespace"],
      [3, "multifile"],
      [2, "wild"],
      [2, "corpus"],
      [2, "near-miss"],
      [2, "star-chain"],
      [2, "star-conflict"],
      [1.5, "nested-packages"],
    ]);
    const p = kind === "supported" ? manyDeclsProgram(rng) : kind === "typeof-namespace" ? typeofNamespaceProject(rng) : kind === "multifile" ? multiFileProject(rng) : kind === "wild" ? wildProgram(rng) : kind === "near-miss" ? nearMissProject(rng) : kind === "star-chain" ? starChainProject(rng) : kind === "star-conflict" ? starConflictProject(rng) : kind === "nested-packages" ? nestedPackagesProject(rng) : mutateCorpus(rng);
    const base = { files: p.files, settings: p.settings ?? randomSettings(rng) };
    const names = Object.keys(p.files);
    // registration orders: lazy only, everything in three orders, and PARTIAL sets (one file, a random
    // subset) registered before the build while the rest is fetched lazily
    const orders = [null, names.slice().sort(), names.slice().sort().reverse(), rng.shuffle(names)];
    if (names.length > 1) {
      orders.push([rng.pick(names.filter((n) => n !== "entry.ts"))]);
      orders.push(rng.shuffle(names).slice(0, 1 + rng.below(names.length - 1)));
      if (kind === "star-chain" || kind === "nested-packages") for (const n of names) if (n !== "entry.ts") orders.push([n]);
      if (kind === "nested-packages") orders.push(["a/x.ts", "b/y.ts"], ["b/y.ts", "a/x.ts"]);
    }
    const runs = [];
    // (1) fresh OS processes (fresh std RandomState), different registration orders
    for (let k = 0; k < Math.max(procs, orders.length); k++) {
      const order = orders[k % orders.length];
      const res = compileOnce({ ...base, order: order ?? undefined, cpu_budget_ms: 10000 }, { timeoutMs: 60000 });
      runs.push({ how: `process#${k}`, order, fp: fingerprint(res), outcome: res.outcome });
    }
    // the same through beff_wasm's own session, file manager and resolver (a registration = an
    // update_file_content before the build), for the projects that ask for it and a sample of the rest
    if (p.viaWasm || rng.chance(0.1)) {
      for (let k = 0; k < orders.length; k++) {
        const res = compileOnce({ ...base, via: "wasm", order: orders[k] ?? undefined, cpu_budget_ms: 10000 }, { timeoutMs: 60000 });
        runs.push({ how: `wasm-session#${k}`, order: orders[k], fp: fingerprint(res), outcome: res.outcome });
      }
      ctx.count("projects_also_through_the_wasm_layer");
    }
    // (2) the long-lived server process, after unrelated compilations (fresh thread per request)
    for (let k = 0; k < 2; k++) {
      const res = await ctx.compiler.compile({ ...base, cpu_budget_ms: 10000 });
      runs.push({ how: `server#${k}`, order: null, fp: fingerprint(res), outcome: res.outcome });
    }
    // (3) the same worker thread, after other revisions of the same files (doc comments edited, added,
    // removed, declarations shifted) and an unrelated project: thread-local / per-process state must
    // not leak from an earlier compilation into this one
    {
      const rev = (text, salt) => {
        let t = text.replace(/\/\*\*([^*]|\*(?!\/))*\*\//g, (m) => (rng.chance(0.4) ? "" : `/** ${salt} ${m.slice(3, -2).trim()} */`));
        t = t.replace(/^(export )?(type|interface) /gm, (m) => (rng.chance(0.3) ? `/** ${salt} added */ ${m}` : m));
        return (rng.chance(0.5) ? `// ${salt}\n` : "") + t;
      };
      const rev1 = Object.fromEntries(Object.entries(p.files).map(([k, v]) => [k, rev(v, "rev1")]));
      const rev2 = Object.fromEntries(Object.entries(p.files).map(([k, v]) => [k, rev(v, "rev2")]));
      const other = { "entry.ts": "/** unrelated */ type U = { /** u */ a: string };\nexport const P = parse.buildParsers<{ U: U }>();\n" };
      const res = await ctx.compiler.compile({ ...base, warmup: [rev1, other, rev2], cpu_budget_ms: 20000 });
      runs.push({ how: "same-thread-after-other-revisions", order: null, fp: fingerprint(res), outcome: res.outcome });
      // and the edited revision itself, fresh vs after the original
      const r2fresh = await ctx.compiler.compile({ ...base, files: rev1, cpu_budget_ms: 10000 });
      const r2after = await ctx.compiler.compile({ ...base, files: rev1, warmup: [p.files], cpu_budget_ms: 20000 });
      const fa = fingerprint(r2fresh),
        fb = fingerprint(r2after);
      ctx.judged();
      ctx.count("same_thread_histories", 2);
      if (!["died", "hang", "timeout", "worker_lost"].includes(r2fresh.outcome) && sha(fa.kind + "\n" + fa.text) !== sha(fb.kind + "\n" + fb.text)) {
        ctx.violation({
          signature: `depends-on-earlier-compilation|${describeDiff(fa, fb)}|${kind}`,
          clause: "outputs-differ",
          detail: `the edited revision compiled on a fresh thread and on a thread that compiled the original first give different results\n--- fresh ---\n${fa.text.slice(0, 600)}\n--- after the original ---\n${fb.text.slice(0, 600)}`,
          replay: { kind: "history", req: { ...base, files: rev1 }, warmup: [p.files] },
        });
      }
    }
    ctx.count("stream:" + kind);
    ctx.count("outcome:" + runs[0].outcome);
    if (["died", "hang", "timeout", "worker_lost"].includes(runs[0].outcome)) {
      ctx.inconclusive("project-does-not-terminate-normally(C04)");
      continue;
    }
    // a run that did not finish (wall-clock limit of the child process on a loaded machine, CPU budget,
    // a worker that died) has no output to compare: termination is C04's subject, and a wall-clock
    // limit is never a verdict
    const unfinished = runs.filter((r) => ["died", "hang", "timeout", "worker_lost"].includes(r.outcome));
    if (unfinished.length) {
      ctx.inconclusive("run-did-not-finish(" + [...new Set(unfinished.map((r) => r.outcome))].sort().join("+") + ")", unfinished.length);
      runs.splice(0, runs.length, ...runs.filter((r) => !unfinished.includes(r)));
      if (runs.length < 2) continue;
    }
    ctx.judged(runs.length);
    const digests = new Map();
    for (const r of runs) {
      const d = sha(r.fp.kind + "\n" + r.fp.text);
      if (!digests.has(d)) digests.set(d, r);
    }
    ctx.distinct(h8(kind + runs[0].outcome + names.length + sha(runs[0].fp.text).slice(0, 3)));
    if (digests.size > 1) {
      const [a, b] = [...digests.values()];
      // a lazily vs eagerly registered file set may legitimately differ only if ... never: report
      ctx.violation({
        signature: `nondeterministic|${describeDiff(a.fp, b.fp)}|${kind}`,
        clause: "outputs-differ",
        detail: `${digests.size} distinct outputs over ${runs.length} runs (${a.how} order=${JSON.stringify(a.order)} vs ${b.how} order=${JSON.stringify(b.order)})\n--- A ---\n${a.fp.text.slice(0, 600)}\n--- B ---\n${b.fp.text.slice(0, 600)}`,
        replay: { kind: "determinism", req: base, orders, procs: 24 },
      });
    } else if (ctx.shard === 0 && sampled < 4) {
      sampled++;
      ctx.sample({ stream: kind, files: Object.fromEntries(Object.entries(p.files).map(([k, v]) => [k, v.slice(0, 200)])), runs: runs.length, outcome: runs[0].outcome, digest: [...digests.keys()][0] });
    }
  }
}

export async function replay(ctx, c) {
  if (c.kind === "history") {
    const a = fingerprint(await ctx.compiler.compile({ ...c.req }));
    const b = fingerprint(await ctx.compiler.compile({ ...c.req, warmup: c.warmup }));
    return { violated: sha(a.kind + "\n" + a.text) !== sha(b.kind + "\n" + b.text), diff: describeDiff(a, b) };
  }
  const digests = new Map();
  for (let k = 0; k < (c.procs || 24); k++) {
    const order = c.orders[k % c.orders.length];
    const res = compileOnce({ ...c.req, order: order ?? undefined }, { timeoutMs: 60000 });
    const fp = fingerprint(res);
    const d = sha(fp.kind + "\n" + fp.text);
    digests.set(d, (digests.get(d) || 0) + 1);
  }
  return { violated: digests.size > 1, digests: Object.fromEntries(digests) };
}

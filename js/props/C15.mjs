// C15 — describe() prints TypeScript that compiles back to the same validator.
// Events: text = P.describe(); outcome of compiling text + buildParsers<{X: CodecP}>; verdict
// vectors and hash256 of both generations; the multiset of `type N =` declarations.
import { corpus, valuesFor, kindsHistogram, h8 } from "../lib/corpus.mjs";
import { shallow } from "../lib/localise.mjs";
import { show, valueClass, toEjson, fromEjson } from "../lib/ejson.mjs";
import { renderType } from "../gen/ast.mjs";
import { nameHashDifference } from "../lib/rtdiff.mjs";
import { compileText } from "../lib/util.mjs";
import { isCyclic } from "../lib/deep.mjs";
import { coreKinds } from "../gen/typegen.mjs";

export const FEATURES = {};

function verdicts(parser, vals) {
  return vals.map((v) => {
    try {
      return parser.validate(v) ? "Y" : "N";
    } catch {
      return "T";
    }
  });
}

// Known finding C15-template-union-hole: inside a template literal a hole holding a literal union
// is printed as ("a" | "b") instead of ${"a" | "b"}. To keep every OTHER defect of the same text
// visible, the monitor repairs exactly that spelling and judges the repaired text as well.
export function repairTemplateHoles(text) {
  // a scanner rather than one regular expression: string literals are tokens (a backtick inside
  // "back`tick" does not delimit a template), and inside a template a parenthesised group of
  // literals may itself contain backticks
  const STR = /"(?:[^"\\]|\\.)*"/y;
  const ALT = '(?:"(?:[^"\\\\]|\\\\.)*"|true|false|\\$\\{string\\}|\\$\\{number\\}|\\$\\{boolean\\})';
  const GROUP = new RegExp(`\\((${ALT}(?: \\| ${ALT})+)\\)`, "y");
  let out = "";
  let i = 0;
  let inTpl = false;
  while (i < text.length) {
    const c = text[i];
    if (!inTpl) {
      if (c === '"') {
        STR.lastIndex = i;
        const m = STR.exec(text);
        if (m) {
          out += m[0];
          i += m[0].length;
          continue;
        }
      }
      if (c === "`") inTpl = true;
      out += c;
      i++;
      continue;
    }
    if (c === "\\" && i + 1 < text.length) {
      out += text.slice(i, i + 2);
      i += 2;
      continue;
    }
    if (c === "(") {
      GROUP.lastIndex = i;
      const m = GROUP.exec(text);
      if (m) {
        out += "${" + m[1].replace(/\$\{(string|number|boolean)\}/g, "$1") + "}";
        i += m[0].length;
        continue;
      }
    }
    if (c === "`") inTpl = false;
    out += c;
    i++;
  }
  return out;
}

export function textIsRecursive(text) {
  const decls = [...text.matchAll(/^type\s+([A-Za-z_$][\w$]*)\s*=([\s\S]*?)(?=^type\s|\s*$(?![\s\S]))/gm)].map((m) => [m[1], m[2]]);
  const names = decls.map((d) => d[0]);
  const edges = new Map(decls.map(([n, body]) => [n, names.filter((m) => new RegExp(`(?<![\\w$"])${m.replace(/\$/g, "\\$")}(?![\\w$"])`).test(body))]));
  const state = new Map();
  const visit = (n) => {
    if (state.get(n) === 1) return true;
    if (state.get(n) === 2) return false;
    state.set(n, 1);
    for (const m of edges.get(n) || []) if (visit(m)) return true;
    state.set(n, 2);
    return false;
  };
  return names.some((n) => visit(n));
}

// returns null or {clause, cause, detail, text2}
export async function roundTrip(ctx, parser, name, vals, repaired = false) {
  let text;
  try {
    text = parser.describe();
    if (repaired) text = repairTemplateHoles(text);
  } catch (e) {
    return { clause: e instanceof RangeError ? "describe-does-not-terminate" : "describe-threw", cause: String(e && e.message).replace(/[0-9]+/g, "N").slice(0, 40), detail: String(e && e.stack).slice(0, 300) };
  }
  if (typeof text !== "string") return { clause: "describe-not-a-string", cause: typeof text, detail: "" };
  // every alias is declared exactly once
  const names = [...text.matchAll(/^type\s+([A-Za-z_$][\w$]*)\s*=/gm)].map((m) => m[1]);
  const dup = names.find((n, i) => names.indexOf(n) !== i);
  if (dup) return { clause: "alias-declared-twice", cause: "duplicate", detail: `${dup} in\n${text}`, text };
  const root = `Codec${name}`;
  if (!names.includes(root)) return { clause: "root-alias-missing", cause: "no-root", detail: text, text };
  const program = `${text}\nexport const Q = parse.buildParsers<{ X: ${root} }>();\n`;
  const r = await compileText(ctx, program);
  if (!r.parsers) {
    const d = r.res.diagnostics?.[0];
    const cause = d ? (d.variant === "CannotNotFindFile" ? "does-not-parse" : d.variant) : r.res.outcome;
    return { clause: "described-text-does-not-compile", cause, detail: `${d ? d.message + ` @${d.line_lo}:${d.col_lo}` : JSON.stringify(r.res.panic ?? r.res.message ?? r.res.outcome)}\n${text}`, text };
  }
  const p2 = r.parsers.X;
  const v1 = verdicts(parser, vals),
    v2 = verdicts(p2, vals);
  const i = v1.findIndex((x, k) => x !== v2[k]);
  if (i >= 0) return { clause: "second-generation-validates-differently", cause: nameHashDifference(parser, p2), value: vals[i], detail: `original ${v1[i]} re-compiled ${v2[i]} on ${show(vals[i])}\n${text}`, text };
  let h1, h2;
  try {
    h1 = parser.hash256();
    h2 = p2.hash256();
  } catch (e) {
    return null;
  }
  if (h1 !== h2) return { clause: "second-generation-hash256-differs", cause: nameHashDifference(parser, p2), detail: `${h1.slice(0, 16)} vs ${h2.slice(0, 16)}\n${text}`, text };
  return null;
}

// one program per repaired defect of describe()
const TEXT_PROBES = [
  { id: "empty-union", text: "type X = { type?: Array<never | never> };", values: [{}, { type: [] }, { type: [1] }] },
  { id: "template-text-needing-escapes", text: "type X = `C:\\\\dir${string}` | `tick\\`${number}` | `dollar\\${x${string}`;", values: ["C:\\dirx", "tick`1", "dollar${xq", "other"] },
  { id: "one-part-template-with-quotes", text: 'type X = { k: `say "hi"\\\\n` };', values: [{ k: 'say "hi"\\n' }, { k: "x" }] },
  { id: "exclude-from-any", text: "type A = { a: 1 };\ntype B = { b: 2 };\ntype X = { v: Exclude<any, A | B> };", values: [{ v: "s" }, {}, { v: { a: 1 } }] },
  { id: "carriage-return-in-template-text", text: "type X = { k: `a\\r${string}` };", values: [{ k: "a\rzz" }, { k: "a\nzz" }] },
  { id: "function-typed-member", text: "type X = { name: string; cb: () => void };", values: [{ name: "n", cb: () => 1 }, { name: "n", cb: 1 }] },
  { id: "quoted-keys-and-index-signatures", text: 'type X = { "a-b": 1; "with space"?: string; [k: string]: string | number };', values: [{ "a-b": 1 }, { "a-b": 1, z: "s" }, { "a-b": 2 }] },
  { id: "bigint-and-tuple-rest", text: "type R = [string, ...R[]];\ntype X = { b: bigint; r: R };", values: [{ b: 1n, r: ["a", ["b"]] }, { b: 1, r: ["a"] }] },
  { id: "string-literals-needing-escapes", text: 'type X = "C:\\\\dir\\\\\\"my file\\"" | "line\\nbreak" | { k: "it\'s" };', values: ['C:\\dir\\"my file"', "line\nbreak", { k: "it's" }, "x"] },
];

// recursion that passes through a pure alias (type Tree = TreeNode; TreeNode = { children: Tree[] }): how the cycle
// leads back x alias chain length x which name the described parser meets first x how often each is mentioned
function aliasRouteGrid() {
  const out = [];
  const backs = [
    ["array", (n) => `{ v: number; children: ${n}[] }`, [{ v: 1, children: [] }, { v: 1, children: [{ v: 2, children: [] }] }, { v: 1, children: [{ v: "x", children: [] }] }, { v: 1 }]],
    ["optional", (n) => `{ v: number; next?: ${n} }`, [{ v: 1 }, { v: 1, next: { v: 2 } }, { v: 1, next: { v: "x" } }, { next: 1 }]],
    ["union", (n) => `{ v: number; next: ${n} | null }`, [{ v: 1, next: null }, { v: 1, next: { v: 2, next: null } }, { v: 1, next: { v: 2 } }, {}]],
    ["tuple", (n) => `[number, ...${n}[]]`, [[1], [1, [2], [3, [4]]], [1, ["x"]], []]],
  ];
  const holders = [
    ["alias-first", (a, r) => `{ a: ${a}; b: ${r} }`, (v) => ({ a: v, b: v })],
    ["real-first", (a, r) => `{ a: ${r}; b: ${a} }`, (v) => ({ a: v, b: v })],
    ["alias-twice", (a, r) => `{ a: ${a}; b: ${a}[]; c: ${r} }`, (v) => ({ a: v, b: [v], c: v })],
    ["alias-only", (a) => `{ a: ${a}; b: ${a} }`, (v) => ({ a: v, b: v })],
    ["real-only", (a, r) => `{ a: ${r}; b: ${r} }`, (v) => ({ a: v, b: v })],
    ["in-union", (a, r) => `${a} | { other: ${r} } | ${r}[]`, (v) => v],
  ];
  for (const [bk, body, vals] of backs)
    for (const chain of [1, 2])
      for (const [hk, holder, wrap] of holders) {
        const aliases = chain === 1 ? "type Tree = TreeNode;" : "type Tree = Mid;\ntype Mid = TreeNode;";
        const text = `${aliases}\ntype TreeNode = ${body("Tree")};\ntype X = ${holder("Tree", "TreeNode")};`;
        out.push({ id: `alias-route:${bk}/${chain}/${hk}`, text, values: vals.map(wrap) });
      }
  return out;
}

export async function run(ctx) {
  if (ctx.shard === 1 % ctx.of) {
    for (const p of aliasRouteGrid()) {
      const text = `${p.text}\nexport const Parsers = parse.buildParsers<{ X: X }>();\n`;
      const r = await compileText(ctx, text);
      if (!r.parsers) throw new Error(`C15 grid program ${p.id} does not compile: ${JSON.stringify(r.res.diagnostics?.[0]?.message ?? r.res.outcome)}`);
      const f = await roundTrip(ctx, r.parsers.X, "X", p.values);
      ctx.judged();
      ctx.count("alias_route_grid");
      if (f) ctx.violation({ signature: `${f.clause}|${f.cause}|grid:${p.id.replace(/\/[^/]*$/, "")}`, clause: f.clause, detail: `${p.text}\n${f.detail}`.slice(0, 2000), replay: { kind: "describe", text, parser: "X", value: null, hasValue: false } });
    }
  }
  if (ctx.shard === 0) {
    for (const p of TEXT_PROBES) {
      const text = `${p.text}\nexport const Parsers = parse.buildParsers<{ X: X }>();\n`;
      const r = await compileText(ctx, text);
      if (!r.parsers) throw new Error(`C15 probe ${p.id} does not compile: ${JSON.stringify(r.res.diagnostics?.[0]?.message ?? r.res.outcome)}`);
      const f = await roundTrip(ctx, r.parsers.X, "X", p.values);
      ctx.judged();
      ctx.count("probes");
      if (f) ctx.violation({ signature: `${f.clause}|${f.cause}|probe:${p.id}`, clause: f.clause, detail: `${p.text}\n${f.detail}`.slice(0, 2000), replay: { kind: "describe", text, parser: "X", value: null, hasValue: false } });
    }
  }
  const nProgs = ctx.share(8000, 40000);
  let sampled = 0;
  for await (const item of corpus(ctx, { label: "C15", count: nProgs, features: FEATURES })) {
    const { prog, parsers } = item;
    for (const ps of prog.parsers) {
      const core = prog.cores.get(ps.name);
      const parser = parsers[ps.name];
      if (!parser) continue;
      kindsHistogram(ctx, prog.env, core);
      const vals = valuesFor(item, core, { members: 8, mutantsPer: 2, hostile: true }).map((x) => x.v).filter((v) => !isCyclic(v));
      let f = await roundTrip(ctx, parser, ps.name, vals);
      ctx.judged();
      if (f && f.text && repairTemplateHoles(f.text) !== f.text) {
        const g = await roundTrip(ctx, parser, ps.name, vals, true);
        ctx.count("template_union_hole_repaired");
        if (!g) f = { ...f, cause: "template-union-hole" };
        else f = { ...g, cause: g.cause + "+after-template-repair" };
      }
      const shape = shallow(prog.env, core);
      ctx.distinct(h8(shape + [...coreKinds(prog.env, core)].sort().join(",")));
      if (f) {
        // (the reference may not be able to normalise the type - conditional types outside its fragment -,
        // so recursion is also read off the described text: an alias that reaches itself)
        const rec = coreKinds(prog.env, core).has("recursive") || textIsRecursive(f.text || "");
        ctx.violation({
          signature: `${f.clause}|${f.cause.replace(/^identical-modulo-refs(?=$|\+)/, rec ? "identical-modulo-refs:recursive" : "identical-modulo-refs")}`,
          clause: f.clause,
          detail: `${renderType(ps.t).slice(0, 300)}\n${f.detail}`.slice(0, 2500),
          replay: { kind: "describe", text: item.text, parser: ps.name, value: "value" in f ? toEjson(f.value) : null, hasValue: "value" in f },
        });
      } else if (ctx.shard === 0 && sampled < 4) {
        sampled++;
        ctx.sample({ type: renderType(ps.t).slice(0, 200), described: parser.describe().slice(0, 400), round_trip: "same verdicts on " + vals.length + " values, same hash256" });
      }
    }
  }
}

export async function replay(ctx, c) {
  const r = await compileText(ctx, c.text);
  if (!r.parsers) return { violated: true, note: "original does not compile" };
  const vals = c.hasValue ? [fromEjson(c.value)] : [];
  const f = await roundTrip(ctx, r.parsers[c.parser], c.parser, vals);
  return { violated: !!f, fault: f ? { clause: f.clause, cause: f.cause, detail: String(f.detail).slice(0, 800) } : null, described: r.parsers[c.parser].describe().slice(0, 1500) };
}

// C08 — meaning-preserving rewrites of the source do not change validators.
// Events: for program P and rewritten rho(P): per parser the verdict vector on a shared value pool
// and hash256(). Oracle (metamorphic, no reference model): vectors equal, digests equal.
import { corpus, valuesFor, typeKey, kindsHistogram, h8 } from "../lib/corpus.mjs";
import { shallow } from "../lib/localise.mjs";
import { toEjson, fromEjson, valueClass, show } from "../lib/ejson.mjs";
import { renderProgram, renderType, mapType } from "../gen/ast.mjs";
import { ALL_REWRITES, HASH_PRESERVING, applySteps } from "../gen/rewrite.mjs";
import { Rng } from "../lib/rng.mjs";
import { isCyclic } from "../lib/deep.mjs";
import { coreKinds } from "../gen/typegen.mjs";
import { nameHashDifference, isRecursiveParser } from "../lib/rtdiff.mjs";
import { compileText } from "../lib/util.mjs";

// spellings that trigger the printer's optimisations: discriminated unions, literal unions, repeated sub-types
export const FEATURES = { maxDepth: 4 };

function verdicts(parser, vals) {
  return vals.map((v) => {
    try {
      return parser.validate(v) ? "Y" : "N";
    } catch (e) {
      return "T";
    }
  });
}
function digest(parser) {
  try {
    return { h256: parser.hash256(), h32: parser.hash() };
  } catch (e) {
    return { h256: "threw:" + String(e && e.message).slice(0, 40), h32: "threw" };
  }
}

// does some union / intersection reachable from the parser have a member that is a named reference?
function hasNamedMember(prog, t, seen = new Set()) {
  let hit = false;
  const strip = (x) => (x.k === "paren" ? strip(x.t) : x);
  const visit = (u) =>
    mapType(u, (x) => {
      if ((x.k === "union" || x.k === "inter") && x.ts.some((m) => strip(m).k === "ref")) hit = true;
      if (x.k === "ref" && !seen.has(x.name)) {
        seen.add(x.name);
        const d = prog.decls.find((d) => d.name === x.name);
        if (d && d.d === "alias") visit(d.t);
        if (d && d.d === "iface") {
          d.props.forEach((p) => visit(p.t));
          if ((d.ext || []).length) hit = hit || false;
        }
      }
      return x;
    });
  visit(t);
  return hit;
}

function usesIndexedAccess(prog, t, seen = new Set()) {
  let hit = false;
  const visit = (u) =>
    mapType(u, (x) => {
      if (x.k === "index" || (x.k === "mapped")) hit = true;
      if (x.k === "ref" && !seen.has(x.name)) {
        seen.add(x.name);
        const d = prog.decls.find((d) => d.name === x.name);
        if (d && d.d === "alias") visit(d.t);
        if (d && d.d === "iface") {
          d.props.forEach((p) => visit(p.t));
          (d.ext || []).forEach((e) => visit(e)); // inherited members
        }
      }
      return x;
    });
  visit(t);
  return hit;
}

export async function compare(ctx, prog, steps, pools /* Map parserName -> values */, baseParsers) {
  const { prog: prog2, applied } = applySteps(prog, steps, Rng);
  if (!applied.length) return { applied, faults: [] };
  const text2 = renderProgram(prog2);
  const r2 = await compileText(ctx, text2);
  if (!r2.parsers) return { applied, text2, faults: [{ clause: "rewritten-program-rejected", parser: null, variant: r2.res.diagnostics?.[0] ? r2.res.diagnostics[0].variant + ":" + String(r2.res.diagnostics[0].message).replace(/['"`][^'"`]*['"`]/g, "").replace(/[:A-Z][A-Za-z0-9_]*$/, "").trim().split(/\s+/).slice(0, 5).join("-") : (r2.res.panic ? `panic@${r2.res.panic.file}:${r2.res.panic.line}` : r2.res.outcome), detail: `${r2.res.outcome}: ${JSON.stringify(r2.res.diagnostics?.[0]?.message ?? r2.res.panic ?? r2.res.message ?? "")}` }] };
  const faults = [];
  const hashComparable = applied.every((a) => HASH_PRESERVING.includes(a));
  for (const ps of prog.parsers) {
    const p1 = baseParsers[ps.name];
    const p2 = r2.parsers[ps.name];
    if (!p2) {
      faults.push({ clause: "parser-lost", parser: ps.name, detail: "" });
      continue;
    }
    const vals = pools.get(ps.name);
    const v1 = verdicts(p1, vals),
      v2 = verdicts(p2, vals);
    const i = v1.findIndex((x, k) => x !== v2[k]);
    if (i >= 0) faults.push({ clause: "verdicts-differ", parser: ps.name, value: vals[i], detail: `original ${v1[i]} rewritten ${v2[i]} on ${show(vals[i])}` });
    const d1 = digest(p1),
      d2 = digest(p2);
    if (hashComparable && d1.h256 !== d2.h256) faults.push({ clause: "hash256-differs", parser: ps.name, cause: ((c) => (c === "identical-modulo-refs" && (coreKinds(prog.env, prog.cores.get(ps.name)).has("recursive") || isRecursiveParser(p1)) ? c + ":recursive" : c))(nameHashDifference(p1, p2)), detail: `${d1.h256.slice(0, 16)} vs ${d2.h256.slice(0, 16)}` });
  }
  return { applied, text2, faults, prog2 };
}

export async function run(ctx) {
  const nProgs = ctx.share(24000, 120000);
  let sampled = 0;
  for await (const item of corpus(ctx, { label: "C08", count: nProgs, features: FEATURES })) {
    const { prog, parsers } = item;
    const pools = new Map();
    for (const ps of prog.parsers) {
      const core = prog.cores.get(ps.name);
      kindsHistogram(ctx, prog.env, core);
      pools.set(ps.name, valuesFor(item, core, { members: 8, mutantsPer: 2, hostile: true }).map((x) => x.v).filter((v) => !isCyclic(v)));
    }
    for (let round = 0; round < 3; round++) {
      const rng = item.rng.fork("rewrite" + round);
      const nSteps = 1 + rng.below(5);
      const steps = [];
      for (let i = 0; i < nSteps; i++) steps.push([rng.pick(ALL_REWRITES), rng.u32()]);
      let res = await compare(ctx, prog, steps, pools, parsers);
      if (!res.applied.length) continue;
      ctx.judged(prog.parsers.length);
      for (const a of res.applied) ctx.count("rewrite:" + a);
      ctx.distinct(h8(res.applied.slice().sort().join("+") + [...new Set(prog.parsers.map((ps) => shallow(prog.env, prog.cores.get(ps.name), 0)))].sort().join(",")));
      if (res.faults.length) {
        // minimise the rewrite sequence: drop every step whose removal keeps the same fault clause
        let cur = steps.slice();
        const clause = res.faults[0].clause;
        for (let i = cur.length - 1; i >= 0 && cur.length > 1; i--) {
          const trial = cur.filter((_, j) => j !== i);
          const r = await compare(ctx, prog, trial, pools, parsers);
          if (r.faults.some((f) => f.clause === clause)) {
            cur = trial;
            res = r;
          }
        }
        for (const f of res.faults.filter((f) => f.clause === clause).slice(0, 2)) {
          const ps = prog.parsers.find((p) => p.name === f.parser);
          const named = ps && (hasNamedMember(prog, ps.t) || (res.prog2 && hasNamedMember(res.prog2, res.prog2.parsers.find((p) => p.name === ps.name).t)));
          const shape = ps ? shallow(prog.env, prog.cores.get(ps.name)) : "-";
          const viaIndex = ps && usesIndexedAccess(prog, ps.t);
          const recursive = ps && coreKinds(prog.env, prog.cores.get(ps.name)).has("recursive");
          ctx.violation({
            signature: `${f.clause}|${res.applied.slice().sort().join("+")}|${clause === "hash256-differs" ? f.cause : shape + (viaIndex ? "|via-indexed-access" : "")}${f.variant ? "|" + f.variant : ""}${"value" in f ? "|" + valueClass(f.value) : ""}`,
            clause: f.clause,
            detail: `${f.detail}\nrewrites: ${res.applied.join(", ")}\nparser ${f.parser}: ${ps ? renderType(ps.t).slice(0, 300) : ""}\n--- original ---\n${item.text.slice(0, 1200)}\n--- rewritten ---\n${(res.text2 || "").slice(0, 1200)}`,
            replay: { kind: "rewrite", original: item.text, rewritten: res.text2, parser: f.parser, value: "value" in f ? toEjson(f.value) : null, hasValue: "value" in f, clause: f.clause, applied: res.applied },
          });
        }
      } else if (ctx.shard === 0 && sampled < 4) {
        sampled++;
        ctx.sample({ rewrites: res.applied, parsers: prog.parsers.length, original: item.text.slice(0, 400), rewritten: res.text2.slice(0, 400), hash256_equal: true });
      }
    }
  }
}

export async function replay(ctx, c) {
  const a = await compileText(ctx, c.original);
  const b = await compileText(ctx, c.rewritten);
  if (!a.parsers || !b.parsers) return { violated: true, note: "one spelling does not compile", a: a.res.outcome, b: b.res.outcome };
  const out = { hash_a: a.parsers[c.parser].hash256(), hash_b: b.parsers[c.parser].hash256() };
  if (c.hasValue || (c.value !== null && c.value !== undefined)) {
    const v = fromEjson(c.value);
    out.verdict_a = verdicts(a.parsers[c.parser], [v])[0];
    out.verdict_b = verdicts(b.parsers[c.parser], [v])[0];
  }
  out.violated = c.clause === "hash256-differs" ? out.hash_a !== out.hash_b : out.verdict_a !== out.verdict_b;
  return out;
}

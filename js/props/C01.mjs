// C01 — generated validators accept exactly the values of the declared TypeScript type.
// Events: (program, parser, value, impl = Parsers.P.validate(v) | threw). Oracle: ref/member.
import { corpus, valuesFor, typeKey, kindsHistogram, h8 } from "../lib/corpus.mjs";
import { isCyclic } from "../lib/deep.mjs";
import { localise, localiseSource, makeValidateJudge, coreProgramText, shallow } from "../lib/localise.mjs";
import { toEjson, fromEjson, valueClass, show } from "../lib/ejson.mjs";
import { loadModule, buildAll, ALL_SETTINGS } from "../lib/loader.mjs";
import * as A from "../gen/ast.mjs";
import { renderType, renderProgram } from "../gen/ast.mjs";
import { Env } from "../ref/normalize.mjs";
import { Ref } from "../ref/member.mjs";
import { compileText, compileProgram } from "../lib/util.mjs";
import { report, implOf } from "../lib/report.mjs";

export const FEATURES = {};

// deterministic probes: known findings (must keep reproducing to be printed) and repaired
// defects (must stay repaired). Each is judged exactly like a random case.
const T = A;
const one = (t, decls = []) => ({ decls, parsers: [{ name: "X", t }] });
export const PROBES = [
  { id: "tpl-unanchored", prog: one({ k: "tpl", parts: ["a", T.kw("number")] }), value: "xa1y", expect: "N" },
  { id: "tpl-unanchored-nl", prog: one({ k: "tpl", parts: [T.kw("boolean")] }), value: "false\n", expect: "N" },
  { id: "tpl-string-spans-newline", prog: one({ k: "tpl", parts: ["a", T.kw("string")] }), value: "a\nb", expect: "Y" },
  { id: "tpl-empty-alt", prog: one({ k: "tpl", parts: [T.union([T.lit(""), T.lit("c")]), "-"] }), value: "-", expect: "Y" },
  { id: "tpl-negative-number", prog: one({ k: "tpl", parts: ["n", T.kw("number")] }), value: "n-1", expect: "Y" },
  { id: "allof-scalars", prog: one(T.inter([T.union([T.lit("a"), T.lit("b")]), T.union([T.lit("b"), T.lit("c")])])), value: "b", expect: "Y" },
  { id: "allof-scalars-2", prog: one(T.inter([T.kw("string"), T.union([T.lit("a"), T.lit("b")])])), value: "a", expect: "Y" },
  {
    id: "disc-tostring",
    prog: one(T.union([T.obj([T.prop("kind", T.lit("a")), T.prop("p", T.kw("string"))]), T.obj([T.prop("kind", T.lit("b")), T.prop("q", T.kw("number"))])])),
    value: { $obj: "plain", fields: [["kind", "toString", 1]] },
    expect: "N",
  },
  { id: "lit-imprecise-fraction", prog: one(T.lit(4.35)), value: 4.35, expect: "Y" },
  { id: "lit-huge", prog: one(T.lit(1e21)), value: 1e21, expect: "Y" },
  { id: "lit-huge-confused", prog: one(T.lit(1e21)), value: 9223372036854776000, expect: "N" },
  { id: "lit-tiny", prog: one(T.lit(1e-10)), value: 1e-10, expect: "Y" },
  { id: "proto-key", prog: one(T.obj([T.prop("__proto__", T.kw("string"))])), value: { $obj: "plain", fields: [["__proto__", 1, 1]] }, expect: "N" },
  {
    id: "index-on-named-intersection",
    prog: {
      decls: [{ d: "alias", name: "T2", params: [], t: T.obj([T.prop("b", T.kw("string"))]) }, { d: "alias", name: "T3", params: [], t: T.inter([T.obj([T.prop("a_n", T.kw("boolean"))]), T.ref("T2")]) }],
      parsers: [{ name: "X", t: { k: "index", obj: T.ref("T3"), idx: T.union([T.lit("b"), T.lit("a_n")]) } }],
    },
    value: "s",
    expect: "Y",
    src: true,
  },
  { id: "record-number-key", prog: one(T.util("Record", [T.kw("number"), T.kw("string")])), value: { $obj: "plain", fields: [["1", "x", 1]] }, expect: "Y" },
];

// Source-text probes: one program per repaired defect (and per documented refusal), with the values
// that told the two behaviours apart; `expect` is TypeScript's verdict, "diagnostic" a refusal.
const fn0 = () => 1;
export const TEXT_PROBES = [
  // indexed access into an open tuple: the position right after the prefix is the first rest position (seeded C07-i)
  { id: "open-tuple-indexed-at-the-first-rest-position", text: "type T = [string, ...number[]];\ntype X = { one: T[1]; both: T[0 | 1]; zero: T[0]; two: T[2] };", cases: [[{ one: 1, both: 2, zero: "s", two: 3 }, "Y"], [{ one: 1, both: "s", zero: "s", two: 3 }, "Y"], [{ one: "s", both: 2, zero: "s", two: 3 }, "N"], [{ one: 1, both: true, zero: "s", two: 3 }, "N"], [{ one: 1, both: 2, zero: 1, two: 3 }, "N"]] },
  { id: "open-tuple-with-two-prefix-items-indexed", text: "type T = [string, boolean, ...number[]];\ntype X = { two: T[2]; onetwo: T[1 | 2]; three: T[3] };", cases: [[{ two: 1, onetwo: true, three: 3 }, "Y"], [{ two: 1, onetwo: 5, three: 3 }, "Y"], [{ two: true, onetwo: 5, three: 3 }, "N"], [{ two: 1, onetwo: "s", three: 3 }, "N"]] },
  { id: "enum-member-initialised-with-an-earlier-member", text: 'enum E { A = "a", B = A, C = B, D = E.A, N = 1, M = N }\ntype X = { b: E.B; c: E.C; d: E.D; m: E.M };', cases: [[{ b: "a", c: "a", d: "a", m: 1 }, "Y"], [{ b: "b", c: "a", d: "a", m: 1 }, "N"], [{ b: "a", c: "a", d: "a", m: 2 }, "N"]] },
  { id: "typeof-const-primitive-is-its-literal", text: 'const x = "pre";\nconst n = 5;\ntype X = { a: typeof x; n: typeof n };', cases: [[{ a: "pre", n: 5 }, "Y"], [{ a: "other", n: 5 }, "N"], [{ a: "pre", n: 6 }, "N"]] },
  { id: "typeof-spread-later-wins", text: 'const defaults = { mode: "light", size: 1 } as const;\nconst overrides = { mode: "dark" } as const;\nconst cfg = { ...defaults, ...overrides } as const;\ntype X = typeof cfg;', cases: [[{ mode: "dark", size: 1 }, "Y"], [{ mode: "light", size: 1 }, "N"], [{ mode: "dark" }, "N"]] },
  { id: "typeof-spread-after-explicit", text: 'const o = { a: "x", b: 2 } as const;\nconst cfg = { a: 1, ...o } as const;\ntype X = typeof cfg;', cases: [[{ a: "x", b: 2 }, "Y"], [{ a: 1, b: 2 }, "N"]] },
  { id: "typeof-explicit-after-spread", text: 'const o = { a: "x", b: 2 } as const;\nconst cfg = { ...o, a: 1 } as const;\ntype X = typeof cfg;', cases: [[{ a: 1, b: 2 }, "Y"], [{ a: "x", b: 2 }, "N"]] },
  { id: "typeof-three-spreads", text: 'const p = { k: 1, l: "p" } as const;\nconst q = { k: 2 } as const;\nconst r = { l: "r", m: true } as const;\nconst cfg = { ...p, ...q, ...r } as const;\ntype X = typeof cfg;', cases: [[{ k: 2, l: "r", m: true }, "Y"], [{ k: 1, l: "r", m: true }, "N"], [{ k: 2, l: "p", m: true }, "N"]] },
  { id: "utility-over-intersection-with-optionality-flip", text: "type A = { b: string; c?: 1 };\ntype W = { b?: string; c?: 1; d?: 2 };\ntype X = Required<Pick<A & W, \"b\" | \"d\">>;", cases: [[{ b: "s", d: 2 }, "Y"], [{ b: "s" }, "N"], [{ d: 2 }, "N"]] },
  { id: "conditional-inside-a-distributing-conditional", text: 'type U = "a" | "b";\ntype Inner<T> = T extends "a" ? 1 : 2;\ntype Outer<T> = T extends string ? Inner<U> : never;\ntype X = Outer<U>;', cases: [[1, "Y"], [2, "Y"], [3, "N"]] },
  { id: "required-takes-undefined-out", text: "type U = string | undefined;\ntype X = Required<{ a?: string | undefined; b?: number | null; c?: U }>;", cases: [[{ a: "s", b: 1, c: "t" }, "Y"], [{ b: 1, c: "t" }, "N"], [{ a: "s", b: null, c: "t" }, "Y"], [{ a: "s", b: 1 }, "N"], [{ a: null, b: 1, c: "t" }, "N"]] },
  { id: "never-in-template-hole-union", text: 'type T = never | "A" | "b";\ntype X = `${number}$${T}-`;', cases: [["1$A-", "Y"], ["1$c-", "N"]] },
  { id: "same-member-twice-in-union", text: 'type T0 = { tag: "a"; k: 1 };\ntype T1 = T0 | T0;\ntype X = Omit<T1, "tag">;', cases: [[{ k: 1 }, "Y"], [{ k: 2 }, "N"]] },
  { id: "labelled-tuple-rest", text: "type X = [a: string, ...rest: number[]];", cases: [[["x", 1, 2], "Y"], [["x", [1]], "N"], [["x"], "Y"]] },
  { id: "labelled-tuple-optional", text: "type X = [a: string, b?: number];", expect: "diagnostic" },
  { id: "mapped-plus-optional", text: 'type X = { [K in "a" | "b"]+?: string };', cases: [[{}, "Y"], [{ a: "s" }, "Y"], [{ a: 1 }, "N"]] },
  { id: "generic-interface-extends-generic", text: "interface P<T> { p: T }\ninterface C<T> extends P<T[]> { c: T }\ntype X = C<string>;", cases: [[{ p: ["a"], c: "b" }, "Y"], [{ p: "a", c: "b" }, "N"]] },
  { id: "conditional-distributes-over-inline-union", text: 'type F<T> = T extends string ? "s" : "n";\ntype X = F<string | number>;', cases: [["s", "Y"], ["n", "Y"], ["x", "N"]] },
  { id: "conditional-distributes-through-parentheses", text: "type G<T> = (T) extends number ? T : never;\ntype X = G<string | number>;", cases: [[1, "Y"], ["a", "N"]] },
  { id: "conditional-distributes-over-named-union", text: 'type U = string | number;\ntype F<T> = T extends string ? "s" : "n";\ntype X = F<U>;', cases: [["s", "Y"], ["n", "Y"]] },
  { id: "conditional-distributes-over-boolean", text: 'type G<T> = T extends true ? "t" : "f";\ntype X = G<boolean>;', cases: [["t", "Y"], ["f", "Y"]] },
  { id: "conditional-over-an-alias-of-never", text: 'type Z = never;\ntype G<T> = T extends number ? T[] : "no";\ntype X = { v?: G<Z> };', cases: [[{}, "Y"], [{ v: [] }, "N"], [{ v: "no" }, "N"]] },
  { id: "conditional-over-never", text: 'type F<T> = T extends string ? "s" : "n";\ntype X = F<never>;', cases: [["s", "N"], ["n", "N"]] },
  { id: "interface-declarations-merge", text: "interface I { a: string }\ninterface I { b: number }\ntype X = I;", cases: [[{ a: "x", b: 1 }, "Y"], [{ b: 1 }, "N"], [{ a: "x" }, "N"]] },
  { id: "type-parameter-does-not-capture", text: "type ID = number;\ntype Item = { id: ID };\ntype Page<ID> = { items: Item[]; cursor: ID };\ntype X = Page<string>;", cases: [[{ items: [{ id: 1 }], cursor: "c" }, "Y"], [{ items: [{ id: "s" }], cursor: "c" }, "N"]] },
  { id: "template-text-is-cooked", text: "type X = `a\\nb${number}`;", cases: [["a\nb1", "Y"], ["a\\nb1", "N"]] },
  { id: "literal-key-on-index-signature", text: 'type X = Record<string, number>["x"];', cases: [[1, "Y"], ["s", "N"]] },
  { id: "literal-key-next-to-named-keys", text: 'type R = { a: string; [k: string]: string | number };\ntype X = R["b"];', cases: [[1, "Y"], ["s", "Y"], [true, "N"]] },
  { id: "unknown-inside-computed-type", text: "type Resp = { data: unknown; n: number };\ntype X = Exclude<Resp | null, null>;", cases: [[{ data: fn0, n: 1 }, "Y"], [{ n: 1 }, "Y"], [{ data: 1 }, "N"]] },
  { id: "exclude-over-a-recursive-member", text: 'type Tree = { v: string; kids: Tree[] };\ntype X = Exclude<{ x: Tree } | "b" | "c", "b">;', cases: [[{ x: { v: "a", kids: [] } }, "Y"], ["c", "Y"], ["b", "N"]] },
  { id: "declared-type-named-like-a-generated-helper", text: "type RecursiveGenerated1 = { mine: number };\ntype Tree = { children: Tree[]; v: string };\ntype T = Exclude<Tree | string, string>;\ntype X = { r: RecursiveGenerated1; t: T };", cases: [[{ r: { mine: 1 }, t: { children: [], v: "x" } }, "Y"], [{ r: { children: [], v: "x" }, t: { children: [], v: "x" } }, "N"]] },
  { id: "exclude-from-any", text: "type A = { a: 1 };\ntype B = { b: 2 };\ntype X = { v: Exclude<any, A | B> };", cases: [[{ v: "s" }, "Y"], [{ v: fn0 }, "Y"], [{}, "Y"]] },
  { id: "value-annotation-does-not-see-outer-type-parameters", text: "type T = number;\ndeclare const x: T[];\ntype W<T> = { b: typeof x; c: T };\ntype X = W<string>;", cases: [[{ b: [1], c: "s" }, "Y"], [{ b: ["s"], c: "s" }, "N"]] },
  { id: "declared-type-named-like-a-built-in", text: "type Date = { y: number };\ntype X = { d: Date };", cases: [[{ d: { y: 1 } }, "Y"], [{ d: new globalThis.Date(0) }, "N"]] },
  { id: "typeof-literal-spreading-a-record", text: "declare const extras: { [k: string]: number };\nconst o = { ...extras };\ntype X = typeof o;", expect: "diagnostic" },
  { id: "tuple-rest-in-the-middle", text: "type X = [string, ...number[], boolean];", expect: "diagnostic" },
  { id: "mapped-type-as-clause", text: 'type X = { [K in "a" | "b" as `x_${K}`]: string };', expect: "diagnostic" },
  { id: "optional-key-named-like-a-prototype-member", text: "type X = { toString?: string; a: number };", cases: [[{ a: 1 }, "Y"], [{ a: 1, toString: "s" }, "Y"], [{ a: 1, toString: 1 }, "N"]] },
];

export async function run(ctx) {
  const locCache = new Map();
  if (ctx.shard === 0) {
    for (const p of TEXT_PROBES) {
      const text = `${p.text}\nexport const Parsers = parse.buildParsers<{ X: X }>();\n`;
      const r = await compileText(ctx, text);
      ctx.count("text_probes");
      ctx.judged();
      if (p.expect === "diagnostic") {
        if (r.parsers || r.res.outcome !== "diagnostics") ctx.violation({ signature: `probe:${p.id}|accepted-instead-of-refused`, clause: "unsupported-spelling-silently-converted", detail: text, replay: { kind: "compile", text } });
        continue;
      }
      if (!r.parsers) {
        ctx.violation({ signature: `probe-not-compiled|${p.id}|${r.res.outcome}`, clause: "supported-program-rejected", detail: `${JSON.stringify(r.res.diagnostics?.[0]?.message ?? r.res.outcome)}\n${text}`, replay: { kind: "compile", text } });
        continue;
      }
      for (const [v, want] of p.cases) {
        const impl = implOf(r.parsers.X, v);
        ctx.judged();
        if (impl !== want) ctx.violation({ signature: `${impl}/${want}|probe:${p.id}`, clause: impl === "Y" ? "accepts-non-member" : "rejects-member", detail: `${text}\non ${show(v)}: validator ${impl}, TypeScript ${want}`, replay: { kind: "pair", text, parser: "X", value: toEjson(v), expect: want, observed: impl, options: null } });
      }
    }
  }
  // template holes whose alternatives are single characters: every 3-subset of a pool with regex
  // metacharacters, judged on every printable ASCII character (member iff it is one of the three) -
  // enumerated, because an accidental character class or range only shows for particular triples
  if (ctx.shard === 1 % ctx.of) {
    const pool = [" ", "-", "_", "+", "~", "^", "]", "[", "a", "z", "0", ",", "!", "."];
    for (let i = 0; i < pool.length; i++)
      for (let j = i + 1; j < pool.length; j++)
        for (let k = j + 1; k < pool.length; k++) {
          const trio = [pool[i], pool[j], pool[k]];
          const text = `type X = \`<\${${trio.map((c) => JSON.stringify(c)).join(" | ")}}>\`;\nexport const Parsers = parse.buildParsers<{ X: X }>();\n`;
          const r = await compileText(ctx, text);
          ctx.count("single_character_hole_grid");
          if (!r.parsers) {
            ctx.violation({ signature: `probe-not-compiled|single-character-hole|${r.res.outcome}`, clause: "supported-program-rejected", detail: text, replay: { kind: "compile", text } });
            continue;
          }
          for (let c = 32; c < 127; c++) {
            const ch = String.fromCharCode(c);
            const want = trio.includes(ch) ? "Y" : "N";
            const impl = implOf(r.parsers.X, `<${ch}>`);
            ctx.judged();
            if (impl !== want) {
              ctx.violation({ signature: `${impl}/${want}|tpl(single-character-alternatives)|str:one-char-${want === "N" ? "outside" : "inside"}-the-set`, clause: impl === "Y" ? "accepts-non-member" : "rejects-member", detail: `${text}on ${JSON.stringify(`<${ch}>`)}: validator ${impl}, TypeScript ${want}`, replay: { kind: "pair", text, parser: "X", value: `<${ch}>`, expect: want } });
              break;
            }
          }
        }
  }
  // probes (shard 0 only)
  if (ctx.shard === 0) {
    for (const p of PROBES) {
      const r = await compileProgram(ctx, p.prog);
      ctx.count("probes");
      if (!r.parsers) {
        ctx.violation({ signature: `probe-not-compiled|${p.id}|${r.res.outcome}`, clause: "supported-program-rejected", detail: r.text, replay: { kind: "compile", text: r.text } });
        continue;
      }
      const v = fromEjson(p.value);
      const core = r.cores.get("X");
      const refm = new Ref(r.env);
      const expected = refm.member(core, v);
      if (expected !== p.expect) throw new Error(`probe ${p.id}: reference says ${expected}, probe table says ${p.expect}`);
      const impl = implOf(r.parsers.X, v);
      ctx.judged();
      if (impl !== p.expect) await report(ctx, { prog: { env: r.env, decls: p.prog.decls }, ref: refm, text: r.text }, "X", core, v, impl, p.expect, "probe:" + p.id, locCache, p.prog.parsers[0].t);
    }
  }

  const nProgs = ctx.share(8000, 40000);
  const typeStats = new Map(); // typeKey -> {acc, rej, classes:Set}
  for await (const item of corpus(ctx, {
    label: "C01",
    count: nProgs,
    features: FEATURES,
    onCompileFailure: async ({ text, res, prog }) => {
      const first = res.diagnostics?.[0];
      // (an AnyhowError carries its reason in the message only)
      const why = first && first.variant === "AnyhowError" ? ":" + String(first.message).replace(/^Internal Error: /, "").replace(/[:'"`].*$/, "").trim().split(/\s+/).slice(0, 4).join("-") : "";
      // attribution by re-execution: re-spell one suspected ingredient and compile again; the cause is
      // named when the program then compiles, or at least no longer shows the diagnostic it showed
      let cause = "";
      const gone = (r2) => r2.parsers || (first && !(r2.res.diagnostics || []).some((d) => d.variant === first.variant));
      const respell = async (f) => {
        const prog2 = { decls: prog.decls.map((d) => A.mapDecl(d, f)), parsers: prog.parsers.map((q) => ({ ...q, t: A.mapType(q.t, f) })) };
        return gone(await compileText(ctx, renderProgram(prog2)));
      };
      if (prog && /typeof \(?E\d+/.test(text)) {
        // every `typeof Enum` as the object type of the enum's members (what TypeScript means by it)
        const spell = (x) => {
          if (x.k !== "typeof" || !x.ofEnum) return x;
          const en = prog.decls.find((d) => d.d === "enum" && d.name === x.name);
          if (!en) return x;
          let t = A.obj(en.members.map((m) => A.prop(m.name, A.lit(m.v))));
          for (const seg of x.path) t = t.props.find((q) => q.name === seg).t;
          return t;
        };
        if (await respell(spell)) cause = "|cause:typeof-enum-spelled-as-members-object-compiles";
      }
      if (!cause && prog && /\bnever\b/.test(text)) {
        // an object type with a required `never` property has no values: the semantic engine reduces it to
        // never, and an operator that needs an object (Omit, Pick, keyof, ...) over the result is refused
        if (await respell((x) => (x.k === "kw" && x.name === "never" ? A.kw("null") : x))) cause = "|cause:never-spelled-as-null-compiles";
      }
      const sig = `rejected|${res.outcome}|${first ? first.variant + why : res.panic ? res.panic.file + ":" + res.panic.line : res.message || ""}${cause}`;
      ctx.violation({ signature: sig, clause: "supported-program-rejected", detail: (first ? first.message : JSON.stringify(res.panic || res.message || res.outcome)) + " in\n" + text, replay: { kind: "compile", text } });
    },
  })) {
    const { prog, parsers, ref } = item;
    for (const ps of prog.parsers) {
      const core = prog.cores.get(ps.name);
      const parser = parsers[ps.name];
      if (!parser) {
        ctx.violation({ signature: "parser-missing", clause: "parser-missing", detail: ps.name, replay: { kind: "compile", text: item.text } });
        continue;
      }
      kindsHistogram(ctx, prog.env, core);
      const tk = typeKey(prog.env, core);
      let st = typeStats.get(tk);
      if (!st) typeStats.set(tk, (st = { acc: 0, rej: 0, classes: new Set() }));
      const vals = valuesFor(item, core, { members: ctx.quick ? 10 : 14, mutantsPer: 2 });
      for (const { v, origin } of vals) {
        let r;
        try {
          r = ref.member(core, v);
        } catch (e) {
          ctx.inconclusive("reference-error:" + String(e && e.message).slice(0, 40));
          continue;
        }
        if (r === "U") {
          ctx.inconclusive("reference-unspecified");
          continue;
        }
        // a cyclic input against a recursive type ends in RangeError: C03's recorded finding
        if (isCyclic(v)) {
          ctx.inconclusive("cyclic-input(C03)");
          continue;
        }
        const impl = implOf(parser, v);
        ctx.judged();
        ctx.count(impl === "Y" ? "accepted" : impl === "N" ? "rejected" : "threw");
        ctx.count("origin:" + origin);
        if (impl === "Y") st.acc++;
        else st.rej++;
        st.classes.add(valueClass(v));
        if (impl !== r) await report(ctx, item, ps.name, core, v, impl, r, origin, locCache, ps.t);
        else if (ctx.shard === 0 && origin === "mutant") ctx.sample({ type: renderType(ps.t).slice(0, 200), value: show(v, 120), reference: r, validate: impl });
      }
    }
  }
  for (const [tk, st] of typeStats) if (st.acc > 0 && st.rej > 0) for (const c of st.classes) ctx.distinct(h8(tk + c));
}

export async function replay(ctx, c) {
  const r = await compileText(ctx, c.text);
  if (c.kind === "compile") return { violated: !r.parsers, outcome: r.res.outcome, diagnostics: r.res.diagnostics, panic: r.res.panic };
  if (!r.parsers) return { violated: true, note: "does not compile", outcome: r.res.outcome };
  const v = fromEjson(c.value);
  const impl = implOf(r.parsers[c.parser], v);
  // (the reference verdict was recorded with the case: the replay needs the program text only)
  return { violated: impl !== c.expect, impl, expected: c.expect, value: show(v) };
}

// C03 — validate / safeParse / parse agree; parsed data is a faithful projection of the input.
// Relational monitor (no membership oracle): for every (parser, value, options) it records the
// results or thrown values of the three entry points, re-validates and re-parses the data, checks
// the projection relation, key-order invariance and that the input was not mutated (snapshot +
// a second run on the deeply frozen input).
import * as A from "../gen/ast.mjs";
import { programItems, corpus, valuesFor, typeKey, kindsHistogram, h8 } from "../lib/corpus.mjs";
import { coreProgramText, shallow } from "../lib/localise.mjs";
import { toEjson, fromEjson, valueClass, show } from "../lib/ejson.mjs";
import { snapshot, snapshotDiff, deepFreeze, deepEqual, projectionFault, isCyclic } from "../lib/deep.mjs";
import { loadModule, buildAll, ALL_SETTINGS, client } from "../lib/loader.mjs";
import { renderType } from "../gen/ast.mjs";
import { Ref } from "../ref/member.mjs";
import { compileText, compileProgram } from "../lib/util.mjs";
import { Rng } from "../lib/rng.mjs";
import { coreKinds } from "../gen/typegen.mjs";
import { localiseClause } from "../lib/relloc.mjs";

export const FEATURES = {};
const OPTION_SETS = [
  {},
  { disallowExtraProperties: true },
  { objectKeyOrder: "sorted" },
  { disallowExtraProperties: true, objectKeyOrder: "sorted" },
];
const optKey = (o) => `${o.disallowExtraProperties ? "strict" : "default"},${o.objectKeyOrder ?? "input"}`;

function call(f) {
  try {
    return { ok: true, v: f() };
  } catch (e) {
    return { ok: false, e };
  }
}

// does the output lack an own key of the input that is named like an Object.prototype member?
const PROTO_NAMES = new Set(["constructor", "prototype", "__proto__", "toString", "valueOf", "hasOwnProperty", "isPrototypeOf", "propertyIsEnumerable", "toLocaleString"]);
function droppedProtoName(data, input, depth = 0) {
  if (depth > 50 || data === null || input === null || typeof data !== "object" || typeof input !== "object") return false;
  if (Array.isArray(data) && Array.isArray(input)) return data.some((x, i) => droppedProtoName(x, input[i], depth + 1));
  // Map values (entries paired in insertion order) and Set elements
  if (data instanceof Map && input instanceof Map) {
    const a = [...data.values()],
      b = [...input.values()];
    return a.some((x, i) => droppedProtoName(x, b[i], depth + 1));
  }
  if (data instanceof Set && input instanceof Set) {
    const a = [...data],
      b = [...input];
    return a.some((x, i) => droppedProtoName(x, b[i], depth + 1));
  }
  if (Array.isArray(data) || Array.isArray(input) || data instanceof Map || data instanceof Set) return false;
  for (const k of Object.keys(input)) {
    const has = Object.prototype.hasOwnProperty.call(data, k);
    if (!has && PROTO_NAMES.has(k)) return true;
    if (has && droppedProtoName(data[k], input[k], depth + 1)) return true;
  }
  return false;
}

// somewhere the input has a Date / Map / typed array / class instance where the data has a rebuilt plain object
// Position-aware: the tag applies where the input carries a Date / Map / Set / typed array / class
// instance at a position whose DECLARED type is an object type (the data is then a rebuilt plain
// object); a Set that comes back as {} under a declared Set<..> is a different matter.
function typesAdmit(env, ts, kind, depth = 0) {
  if (depth > 30) return true;
  for (const t of ts) {
    let r;
    try {
      r = env.resolve(t);
    } catch {
      return true;
    }
    if (r.c === "any" || r.c === kind) return true;
    if ((r.c === "union" || r.c === "inter") && typesAdmit(env, r.ts, kind, depth + 1)) return true;
  }
  return false;
}
function childTypes(env, ts, key, isIndex, depth = 0) {
  const out = [];
  if (depth > 30) return out;
  for (const t of ts) {
    let r;
    try {
      r = env.resolve(t);
    } catch {
      continue;
    }
    if (r.c === "union" || r.c === "inter") out.push(...childTypes(env, r.ts, key, isIndex, depth + 1));
    else if (isIndex && r.c === "arr") out.push(r.el);
    else if (isIndex && r.c === "tuple") out.push(key < r.items.length ? r.items[key] : r.rest);
    else if (!isIndex && r.c === "obj") {
      const p = r.props.find((q) => q.name === key);
      if (p) out.push(p.t);
      else if (r.index) out.push(r.index.val);
    }
  }
  return out.filter(Boolean);
}
function exoticRebuilt(data, input, env, types, depth = 0) {
  // (without the declared type at hand - probes, bulk values - nothing is attributed to this finding)
  if (!env || !types) return false;
  if (depth > 50 || data === input || data === null || input === null || typeof data !== "object" || typeof input !== "object") return false;
  if (Array.isArray(input)) return Array.isArray(data) && data.some((x, i) => exoticRebuilt(x, input[i], env, env && types ? childTypes(env, types, i, true) : null, depth + 1));
  if (![Object.prototype, null].includes(Object.getPrototypeOf(input))) {
    const kind = input instanceof Map ? "map" : input instanceof Set ? "set" : input instanceof Date ? "date" : ArrayBuffer.isView(input) ? "typed" : "other";
    if (env && types && kind !== "other" && typesAdmit(env, types, kind)) return false;
    return Object.getPrototypeOf(data) === Object.prototype;
  }
  if (Array.isArray(data)) return false;
  return Object.keys(data).some((k) => Object.prototype.hasOwnProperty.call(input, k) && exoticRebuilt(data[k], input[k], env, env && types ? childTypes(env, types, k, false) : null, depth + 1));
}
function nullProtoCopy(v, depth = 0) {
  if (v === null || typeof v !== "object" || depth > 200) return v;
  if (Array.isArray(v)) return v.map((x) => nullProtoCopy(x, depth + 1));
  if (Object.getPrototypeOf(v) !== Object.prototype) return v;
  const o = Object.create(null);
  for (const k of Object.keys(v)) o[k] = nullProtoCopy(v[k], depth + 1);
  return o;
}

// returns null or {clause, detail}
// deep acyclic inputs: { next: { next: ... } }, [[[...]]], { payload: <deep> } under a union with unknown
export const DEEP_PROBES = [
  { id: "recursive-object", text: "type X = { v: number; next?: X };\nexport const Parsers = parse.buildParsers<{ X: X }>();\n", build: (d) => { let cur = { v: 0 }; for (let i = 1; i <= d; i++) cur = { v: i, next: cur }; return cur; } },
  { id: "recursive-array", text: "type X = X[];\nexport const Parsers = parse.buildParsers<{ X: X }>();\n", build: (d) => { let cur = []; for (let i = 0; i < d; i++) cur = [cur]; return cur; } },
  { id: "unknown-under-a-union", text: "type X = { kind: string; payload: unknown } | string;\nexport const Parsers = parse.buildParsers<{ X: X }>();\n", build: (d) => { let cur = { leaf: 1 }; for (let i = 0; i < d; i++) cur = { n: cur }; return { kind: "k", payload: cur }; } },
  { id: "recursive-object-rejected-at-the-bottom", text: "type X = { v: number; next?: X };\nexport const Parsers = parse.buildParsers<{ X: X }>();\n", build: (d) => { let cur = { v: "bad" }; for (let i = 1; i <= d; i++) cur = { v: i, next: cur }; return cur; } },
];
export function deepTriple(parser, dp, depth) {
  const v = dp.build(depth);
  const rs = [call(() => parser.validate(v)), call(() => parser.safeParse(v)), call(() => parser.parse(v))];
  const over = rs.find((r) => !r.ok && r.e instanceof RangeError && /call stack/.test(String(r.e.message)));
  if (over) return { clause: "threw:stack-overflow-on-deeply-nested-input", detail: "RangeError: Maximum call stack size exceeded" };
  if (!rs[0].ok) return { clause: "validate-threw", detail: String(rs[0].e && rs[0].e.message).slice(0, 120) };
  if (!rs[1].ok) return { clause: "safeParse-threw", detail: String(rs[1].e && rs[1].e.message).slice(0, 120) };
  if (rs[0].v !== rs[1].v.success) return { clause: "validate-vs-safeParse", detail: `validate=${rs[0].v} safeParse.success=${rs[1].v.success}` };
  if (rs[0].v !== rs[2].ok) return { clause: "validate-vs-parse", detail: `validate=${rs[0].v} parse ${rs[2].ok ? "returned" : "threw"}` };
  if (!rs[2].ok && !String(rs[2].e && rs[2].e.message).startsWith("Failed to parse X - ")) return { clause: "parse-threw-something-else", detail: String(rs[2].e && rs[2].e.message).slice(0, 120) };
  return null;
}

export function checkTriple(parser, name, v, o, core, ref) {
  const before = snapshot(v);
  const va = call(() => parser.validate(v, o));
  const sp = call(() => parser.safeParse(v, o));
  const pr = call(() => parser.parse(v, o));
  const mut = snapshotDiff(before, v);
  if (mut) return { clause: "input-mutated", detail: mut };
  const overflow = (r) => !r.ok && r.e instanceof RangeError && /call stack/.test(String(r.e.message)) && isCyclic(v);
  if (overflow(va) || overflow(sp) || overflow(pr)) return { clause: "threw:stack-overflow-on-cyclic-input", detail: "RangeError: Maximum call stack size exceeded" };
  if (!va.ok) return { clause: "validate-threw", detail: String(va.e && va.e.message).slice(0, 120) };
  if (!sp.ok) return { clause: "safeParse-threw", detail: String(sp.e && sp.e.message).slice(0, 120) };
  if (typeof va.v !== "boolean") return { clause: "validate-not-boolean", detail: typeof va.v };
  if (va.v !== sp.v.success) return { clause: "validate-vs-safeParse", detail: `validate=${va.v} safeParse.success=${sp.v.success}` };
  if (va.v !== pr.ok) {
    return { clause: "validate-vs-parse", detail: `validate=${va.v} parse ${pr.ok ? "returned" : "threw " + String(pr.e && pr.e.message).slice(0, 100)}` };
  }
  if (!pr.ok) {
    const e = pr.e;
    if (!(e instanceof Error) || typeof e.message !== "string" || !e.message.startsWith(`Failed to parse ${name} - `))
      return { clause: "parse-threw-undocumented", detail: String(e && e.message).slice(0, 120) };
    return null;
  }
  const data = sp.v.data;
  const tag = droppedProtoName(data, v) ? ":protoname-key-dropped" : exoticRebuilt(data, v, core && ref ? ref.env : null, core ? [core] : null) ? ":exotic-object-under-object-type" : "";
  if (!deepEqual(data, pr.v, true)) return { clause: "safeParse-vs-parse-data" + tag, detail: `${show(data)} vs ${show(pr.v)}` };
  const v2 = call(() => parser.validate(data, o));
  if ((!v2.ok || v2.v !== true) && call(() => parser.validate(nullProtoCopy(data), o)).v === true)
    return { clause: "data-not-accepted:inherited-member-read", detail: `data=${show(data)} is accepted as a null-prototype object only` };
  if (!v2.ok || v2.v !== true) return { clause: "data-not-accepted" + tag, detail: `validate(data)=${v2.ok ? v2.v : "threw " + String(v2.e && v2.e.message).slice(0, 80)} data=${show(data)}` };
  const p2 = call(() => parser.parse(data, o));
  if (!p2.ok) return { clause: "reparse-threw", detail: String(p2.e && p2.e.message).slice(0, 120) };
  // ("parsing it again returns an equal value": key order is not part of the value)
  // (the second parse may be the one that rebuilds an exotic object - a Map under an object type of another union branch)
  if (!deepEqual(p2.v, data, false))
    return { clause: "reparse-differs" + (tag || (droppedProtoName(p2.v, data) ? ":protoname-key-dropped" : exoticRebuilt(p2.v, data, core && ref ? ref.env : null, core ? [core] : null) ? ":exotic-object-under-object-type" : "")), detail: `${show(data)} -> ${show(p2.v)}` };
  const pf = projectionFault(data, v);
  if (pf) return { clause: "not-a-projection", detail: pf + ` data=${show(data)}` };
  if (core && ref) {
    const up = ref.undeclaredPath(core, data);
    if (up) return { clause: "undeclared-key-in-data", detail: up + ` data=${show(data)}` };
  }
  if (o.objectKeyOrder === "sorted") {
    const other = call(() => parser.parse(v, { ...o, objectKeyOrder: "input" }));
    if (!other.ok) return { clause: "key-order-changes-outcome", detail: "input-order parse threw" };
    if (!deepEqual(data, other.v, false)) return { clause: "key-order-changes-content" + tag, detail: `${show(data)} vs ${show(other.v)}` };
  }
  return null;
}

// second run on the deeply frozen input: same observable results, no write attempt
function frozenCheck(parser, v, o) {
  const first = [call(() => parser.validate(v, o)), call(() => parser.safeParse(v, o))];
  deepFreeze(v);
  const second = [call(() => parser.validate(v, o)), call(() => parser.safeParse(v, o)), call(() => parser.parse(v, o))];
  for (const r of second) {
    if (!r.ok && r.e instanceof TypeError && /read only|not extensible|Cannot (assign|add|define|delete)/.test(String(r.e.message)))
      return { clause: "writes-to-input", detail: String(r.e.message).slice(0, 120) };
  }
  if (first[0].ok && second[0].ok && first[0].v !== second[0].v) return { clause: "frozen-input-changes-verdict", detail: `${first[0].v} -> ${second[0].v}` };
  if (first[1].ok && second[1].ok && first[1].v.success && second[1].v.success && !deepEqual(first[1].v.data, second[1].v.data, true))
    return { clause: "frozen-input-changes-data", detail: "" };
  return null;
}

async function reportClause(ctx, item, parserName, core, v, o, f, locCache) {
  const env = item.prog.env;
  const ck = `${typeKey(env, core)}|${f.clause}|${optKey(o)}|${valueClass(v)}`;
  let hit = locCache.get(ck);
  if (!hit) {
    ctx.count("localisations");
    let vv = v;
    if (f.clause === "writes-to-input" || f.clause.startsWith("frozen")) {
      hit = { signature: `${f.clause}|${shallow(env, core)}|${valueClass(v)}`, text: item.text, parser: parserName, value: v, detail: f.detail };
    } else {
      const loc = await localiseClause(ctx, env, item.ref, core, vv, o, f.clause, checkTriple);
      hit = loc.standalone
        ? { signature: `${f.clause}|${shallow(env, loc.core)}|${valueClass(loc.value)}`, text: coreProgramText(env, loc.core), parser: "X", value: loc.value, detail: loc.detail }
        : { signature: `${f.clause}|src-only|${shallow(env, core)}|${valueClass(v)}`, text: item.text, parser: parserName, value: v, detail: f.detail };
    }
    locCache.set(ck, hit);
  }
  ctx.violation({
    signature: hit.signature + (o.disallowExtraProperties ? "|strict" : "") + (o.objectKeyOrder === "sorted" && /key-order|data|projection|reparse/.test(f.clause) ? "|sorted" : ""),
    clause: f.clause,
    detail: `${hit.detail} :: ${hit.text.trim().split("\n").slice(-2).join(" ")} on ${show(hit.value)} options=${optKey(o)}`,
    replay: { kind: "triple", text: hit.text, parser: hit.parser, value: toEjson(hit.value), options: o, clause: f.clause, original: { text: item.text, parser: parserName, value: toEjson(v) } },
  });
}

// ad-hoc validators built at run time with b.* / buntyped.Union
function adhocValidators(rng) {
  const { b, buntyped } = client;
  const out = [];
  const leafs = [
    [() => b.String(), { c: "prim", p: "string" }],
    [() => b.Number(), { c: "prim", p: "number" }],
    [() => b.Boolean(), { c: "prim", p: "boolean" }],
    [() => b.Null(), { c: "nullish" }],
    [() => b.Undefined(), { c: "nullish" }],
    [() => b.Any(), { c: "any" }],
    [() => b.Date(), { c: "date" }],
    [() => b.Const("toString"), { c: "lit", v: "toString" }],
    [() => b.Const(1), { c: "lit", v: 1 }],
    [() => b.Uint8Array(), { c: "typed", name: "Uint8Array" }],
  ];
  const gen = (d) => {
    const k = d <= 0 ? 0 : rng.below(4);
    if (k === 0) {
      const [mk, core] = rng.pick(leafs);
      return [mk(), core];
    }
    if (k === 1) {
      const [p, c] = gen(d - 1);
      return [b.Array(p), { c: "arr", el: c }];
    }
    if (k === 2) {
      const n = 1 + rng.below(3);
      const fields = {};
      const props = [];
      for (const name of rng.shuffle(["a", "b", "constructor", "x-y", "kind"]).slice(0, n)) {
        const [p, c] = gen(d - 1);
        fields[name] = p;
        props.push({ name, t: c, opt: false });
      }
      return [b.Object(fields), { c: "obj", props, index: null }];
    }
    const xs = [gen(d - 1), gen(d - 1)];
    return [buntyped.Union(...xs.map((x) => x[0])), { c: "union", ts: xs.map((x) => x[1]) }];
  };
  for (let i = 0; i < 6; i++) out.push(gen(3));
  return out;
}

export async function run(ctx) {
  const locCache = new Map();
  const nProgs = ctx.share(3200, 24000);
  const seenTriples = new Map();
  const judgeItem = async (item) => {
    const { prog, parsers, ref } = item;
    for (const ps of prog.parsers) {
      const core = prog.cores.get(ps.name);
      const parser = parsers[ps.name];
      if (!parser) continue;
      kindsHistogram(ctx, prog.env, core);
      const tk = typeKey(prog.env, core);
      const base = valuesFor(item, core, { members: 8, mutantsPer: 2, hostile: true });
      // extra weight: values assembled from members of several union branches (deep-merge path)
      const rc = prog.env.resolve(core);
      if (rc.c === "union") {
        const ms = rc.ts.map((m) => item.valgen.member(m, 3)).filter((x) => x !== null && typeof x === "object" && !Array.isArray(x) && Object.getPrototypeOf(x) === Object.prototype);
        for (let i = 0; i + 1 < ms.length; i++) base.push({ v: Object.assign({}, ms[i], ms[i + 1]), origin: "merged-branches" });
      }
      let oi = 0;
      for (const { v, origin } of base) {
        const sets = origin === "hostile" ? [OPTION_SETS[oi++ % 4]] : OPTION_SETS;
        for (const o of sets) {
          const f = checkTriple(parser, ps.name, v, o, core, ref);
          ctx.judged();
          ctx.count("options:" + optKey(o));
          const accepted = (() => {
            try {
              return parser.validate(v, o);
            } catch {
              return false;
            }
          })();
          ctx.count(accepted ? "accepted" : "rejected");
          const key = tk + "|" + optKey(o) + "|" + (accepted ? "acc" : "rej");
          seenTriples.set(key, (seenTriples.get(key) || new Set()).add(valueClass(v)));
          if (f) await reportClause(ctx, item, ps.name, core, v, o, f, locCache);
          else if (ctx.shard === 0 && accepted && origin === "merged-branches") ctx.sample({ type: renderType(ps.t).slice(0, 160), value: show(v, 120), options: optKey(o), data: show(parser.parse(v, o), 120) });
        }
        // frozen second run (last: freezing is irreversible); typed arrays cannot be frozen
        const fz = frozenCheck(parser, v, OPTION_SETS[oi % 4]);
        ctx.judged();
        if (fz) await reportClause(ctx, item, ps.name, core, v, OPTION_SETS[oi % 4], fz, locCache);
      }
    }
  };
  for await (const item of corpus(ctx, { label: "C03", count: nProgs, features: FEATURES })) await judgeItem(item);
  // one program per repaired defect, with the value that showed it
  if (ctx.shard === 3 % ctx.of) {
    const PROBES = [
      { id: "tuple-slot-missing-from-the-input", text: "type X = [number, string | undefined];", values: [[1], [1, undefined], [1, "s"]] },
      { id: "tuple-null-slot-missing", text: "type X = [number, null];", values: [[1], [1, null]] },
      { id: "intersection-members-project-one-property", text: "type T3 = { name?: { items?: string[] } };\ntype T2 = { name: { kind: string } };\ntype X = T3 & T2;", values: [{ name: { kind: "k", items: ["a"] } }, { name: { kind: "k" } }] },
      { id: "sorted-keys-named-like-prototype-members", text: "type X = Record<string, any>;", values: [{ constructor: {}, toString: 1, b: 2 }, { hasOwnProperty: null }] },
      { id: "optional-key-named-like-a-prototype-member", text: "type X = { toString?: string; a: number };", values: [{ a: 1 }, Object.assign(Object.create(null), { a: 1 }), { a: 1, toString: "s" }] },
      { id: "built-in-leaf-kept-by-one-union-member", text: 'type D = { t?: number };\ntype X = { items: D | any; n: number } | { tag: "c"; items: Uint32Array } | { tag: "d"; items: Date | D } | { _tag: "c"; items: Uint32Array } | { _tag: "d"; items: Date } | { _tag: "m"; items: Map<string, number> };', values: [{ items: new Uint32Array(2), n: 1, tag: "c" }, { items: new Date(0), n: 1, tag: "d" }, { items: new Map([["k", 1]]), n: 2 }, { items: new Uint32Array(2), n: 1, _tag: "c" }, { items: new Date(0), n: 1, _tag: "d" }, { items: new Map([["k", 1]]), n: 2, _tag: "m" }] },
      { id: "intersection-that-is-a-map", text: "type X = Map<string, { a: number }> & Map<string, { b: string }>;", values: [new Map([["k1", { a: 1, b: "x" }]]), new Map()] },
      { id: "intersection-that-is-a-set", text: "type X = Set<{ a: number }> & Set<{ b?: string }>;", values: [new Set([{ a: 1, b: "x" }]), new Set()] },
      { id: "intersection-that-is-an-array", text: "type X = { a: number }[] & { b?: string }[];", values: [[{ a: 1, b: "x" }, { a: 2 }], []] },
      { id: "intersection-of-named-maps", text: "type M1 = Map<string, { a: number }>;\ntype M2 = Map<string, { b?: 1 }>;\ntype X = { m: M1 & M2; l: (M1 & M2)[] };", values: [{ m: new Map([["k", { a: 1, b: 1 }]]), l: [new Map([["z", { a: 2 }]])] }] },
      { id: "intersection-of-maps", text: "type X = { m: Map<string, { a: number }> } & { m: Map<string, { b: number }> };", values: [{ m: new Map([["k", { a: 1, b: 2 }]]) }] },
    ];
    for (const p of PROBES) {
      const r = await compileText(ctx, `${p.text}\nexport const Parsers = parse.buildParsers<{ X: X }>();\n`);
      if (!r.parsers) throw new Error("C03 probe does not compile: " + p.id);
      for (const v of p.values)
        for (const o of OPTION_SETS) {
          const f = checkTriple(r.parsers.X, "X", v, o, null, null);
          ctx.judged();
          ctx.count("probes");
          if (f) ctx.violation({ signature: `${f.clause}|probe:${p.id}|${optKey(o)}`, clause: f.clause, detail: `${f.detail} :: ${p.text} on ${show(v)}`, replay: { kind: "triple", text: `${p.text}\nexport const Parsers = parse.buildParsers<{ X: X }>();\n`, parser: "X", value: toEjson(v), options: o } });
        }
    }
  }
  // deeply nested ACYCLIC inputs (built and judged without recursion on the monitor's side): the entry
  // points must answer or fail with parse's documented error, whatever the depth
  if (ctx.shard === 5 % ctx.of) {
    for (const dp of DEEP_PROBES) {
      const r = await compileText(ctx, dp.text);
      if (!r.parsers) throw new Error("C03 deep probe does not compile: " + dp.id);
      for (const depth of [50, 400, 3000, 20000, 100000]) {
        const f = deepTriple(r.parsers.X, dp, depth);
        ctx.judged();
        ctx.count("deep_inputs");
        ctx.distinct(`deep|${dp.id}|${depth}`);
        if (f) ctx.violation({ signature: `${f.clause}|probe:${dp.id}`, clause: f.clause, detail: `${f.detail} :: ${dp.text.split("\n")[0]} on a value nested ${depth} deep`, replay: { kind: "deep", id: dp.id, depth, parser: "X", text: dp.text } });
      }
    }
  }
  // impostors: objects that inherit from a built-in prototype without being one, subclasses, built-ins
  // with own properties, built-ins beff has no type for - bare and wrapped, against Map / Set / Date /
  // typed-array / unknown / object validators. Judged: nothing throws but parse's documented error,
  // the three entry points agree, accepted data is accepted and parsed again.
  if (ctx.shard === 4 % ctx.of) {
    const { IMPOSTOR_PROGRAM, impostorValues, IMPOSTOR_WRAPS } = await import("../gen/valgen.mjs");
    const r = await compileText(ctx, IMPOSTOR_PROGRAM);
    if (!r.parsers) throw new Error("C03 impostor program does not compile");
    for (const [pn, parser] of Object.entries(r.parsers))
      for (const wn of Object.keys(IMPOSTOR_WRAPS))
        for (const vn of Object.keys(impostorValues()))
          for (const o of [OPTION_SETS[0], OPTION_SETS[1], OPTION_SETS[2]]) {
            const v = IMPOSTOR_WRAPS[wn](impostorValues()[vn]);
            const va = call(() => parser.validate(v, o)), sp = call(() => parser.safeParse(v, o)), pr = call(() => parser.parse(v, o));
            ctx.judged();
            ctx.count("impostor_triples");
            let f = null;
            if (!va.ok) f = { clause: "validate-threw", detail: String(va.e && va.e.message).slice(0, 120) };
            else if (!sp.ok) f = { clause: "safeParse-threw", detail: String(sp.e && sp.e.message).slice(0, 120) };
            else if (va.v !== sp.v.success) f = { clause: "validate-vs-safeParse", detail: `validate=${va.v} safeParse.success=${sp.v.success}` };
            else if (va.v !== pr.ok) f = { clause: "validate-vs-parse", detail: `validate=${va.v} parse ${pr.ok ? "returned" : "threw " + String(pr.e && pr.e.message).slice(0, 100)}` };
            else if (!pr.ok) {
              if (!(pr.e instanceof Error) || typeof pr.e.message !== "string" || !pr.e.message.startsWith(`Failed to parse ${pn} - `)) f = { clause: "parse-threw-undocumented", detail: String(pr.e && pr.e.message).slice(0, 120) };
            } else {
              const v2 = call(() => parser.validate(sp.v.data, o));
              if (!v2.ok || v2.v !== true) f = { clause: "data-not-accepted", detail: `validate(data)=${v2.ok ? v2.v : "threw " + String(v2.e && v2.e.message).slice(0, 80)}` };
              else if (!call(() => parser.parse(sp.v.data, o)).ok) f = { clause: "reparse-threw", detail: "" };
            }
            if (f) ctx.violation({ signature: `${f.clause}|impostor:${vn}`, clause: f.clause, detail: `${f.detail} :: parser ${pn} of the impostor program on ${wn}(${vn}) options=${optKey(o)}`, replay: { kind: "impostor", parser: pn, wrap: wn, value: vn, options: o } });
          }
  }
  // very large containers (mostly of wrong items): the three entry points still agree and none throws
  if (ctx.shard === 2 % ctx.of) {
    const { bulkValues, BULK_PROGRAM } = await import("../gen/valgen.mjs");
    const r = await compileText(ctx, BULK_PROGRAM);
    if (!r.parsers) throw new Error("C03 bulk program does not compile");
    for (const [vn, v] of bulkValues())
      for (const [pn, parser] of Object.entries(r.parsers)) {
        const o = OPTION_SETS[(vn.length + pn.charCodeAt(0)) % 4];
        const f = checkTriple(parser, pn, v, o, null, null);
        ctx.judged();
        ctx.count("bulk_judged");
        if (f) ctx.violation({ signature: `${f.clause}|bulk:${pn}:${vn}|${optKey(o)}`, clause: f.clause, detail: `${f.detail} :: parser ${pn} of the bulk program on ${vn}`, replay: { kind: "bulk", parser: pn, value: vn, options: o } });
      }
  }
  // grid: every kind of leaf as a property that two members of an intersection / a union both declare
  // (the projections of the members have to be merged without losing the leaf's kind or content)
  {
    const leaves = [
      ["set", { k: "set", el: A.kw("string") }],
      ["map", { k: "map", key: A.kw("string"), val: A.kw("number") }],
      ["date", { k: "builtin", name: "Date" }],
      ["typed", { k: "builtin", name: "Uint8Array" }],
      ["bigint", A.kw("bigint")],
      ["array", A.arr(A.kw("string"))],
      ["tuple", A.tuple([A.kw("number"), A.kw("string")])],
      ["object", A.obj([A.prop("in", A.kw("number")), A.prop("o", A.kw("string"), true)])],
      ["nested-set", A.obj([A.prop("s", { k: "set", el: A.kw("number") })])],
      ["array-of-map", A.arr({ k: "map", key: A.kw("string"), val: A.kw("boolean") })],
      ["null", A.kw("null")],
      ["union", A.union([A.kw("string"), A.arr(A.kw("number"))])],
    ];
    const programs = [];
    let k = 0;
    for (const [ln, L] of leaves) {
      k++;
      if (k % ctx.of !== ctx.shard % leaves.length && ctx.of >= leaves.length) continue;
      const decls = [
        { d: "alias", name: "Base", params: [], t: A.obj([A.prop("p", L), A.prop("id", A.kw("string"))]) },
        { d: "alias", name: "Other", params: [], t: A.obj([A.prop("p", L), A.prop("o", A.kw("null"), true)]) },
      ];
      const parsersT = [
        ["NamedInline", A.inter([A.ref("Base"), A.obj([A.prop("p", L), A.prop("extra", A.kw("number"))])])],
        ["InlineInline", A.inter([A.obj([A.prop("p", L), A.prop("a", A.lit(1))]), A.obj([A.prop("p", L), A.prop("b", A.lit(2))])])],
        ["NamedNamed", A.inter([A.ref("Base"), A.ref("Other")])],
        ["Three", A.inter([A.ref("Base"), A.ref("Other"), A.obj([A.prop("p", L)])])],
        ["TaggedUnion", A.union([A.obj([A.prop("k", A.lit("a")), A.prop("p", L)]), A.obj([A.prop("k", A.lit("b")), A.prop("p", L), A.prop("q", A.lit(1))])])],
        ["OverlapUnion", A.union([A.ref("Base"), A.obj([A.prop("p", L), A.prop("id", A.kw("string")), A.prop("z", A.lit(1), true)])])],
        ["Nested", A.obj([A.prop("n", A.inter([A.ref("Base"), A.obj([A.prop("p", L)])])), A.prop("list", A.arr(A.inter([A.ref("Other"), A.obj([A.prop("p", L)])])))])],
      ];
      programs.push({ decls, parsers: parsersT.map(([name, t]) => ({ name: `${name}_${ln.replace(/-/g, "_")}`, t })) });
    }
    for await (const item of programItems(ctx, programs, "C03-grid")) {
      ctx.count("grid_programs");
      await judgeItem(item);
    }
  }
  // ad-hoc validators (b.*, buntyped.Union)
  const rng = new Rng(ctx.seed, `C03-adhoc|${ctx.shard}`);
  const { Env } = await import("../ref/normalize.mjs");
  const { ValGen, hostilePool } = await import("../gen/valgen.mjs");
  const env = new Env([]);
  const ref = new Ref(env);
  for (let round = 0; round < (ctx.quick ? 4 : 40); round++) {
    for (const [parser, core] of adhocValidators(rng)) {
      const vg = new ValGen(rng.fork("v"), env);
      const ms = vg.members(core, 6);
      const vals = [...ms, ...ms.flatMap((m) => vg.mutants(m, 2)), ...hostilePool()];
      for (const v of vals)
        for (const o of OPTION_SETS) {
          const f = checkTriple(parser, parser.name, v, o, core, ref);
          ctx.judged();
          ctx.count("adhoc_triples");
          if (f) {
            ctx.violation({
              signature: `${f.clause}|adhoc:${shallow(env, core)}|${valueClass(v)}`,
              clause: f.clause,
              detail: `b.* validator ${parser.describe()} on ${show(v)} options=${optKey(o)}: ${f.detail}`,
              replay: { kind: "adhoc", describe: parser.describe(), value: toEjson(v), options: o, clause: f.clause },
            });
          }
        }
    }
  }
  for (const [k, set] of seenTriples) if (k.endsWith("acc")) for (const c of set) ctx.distinct(h8(k + c));
}

export async function replay(ctx, c) {
  if (c.kind === "bulk") {
    const { bulkValues, BULK_PROGRAM } = await import("../gen/valgen.mjs");
    const r0 = await compileText(ctx, BULK_PROGRAM);
    const v0 = bulkValues().find(([n]) => n === c.value)[1];
    const f0 = checkTriple(r0.parsers[c.parser], c.parser, v0, c.options ?? {}, null, null);
    return { violated: !!f0, fault: f0, value: c.value };
  }
  if (c.kind === "impostor") {
    const { IMPOSTOR_PROGRAM, impostorValues, IMPOSTOR_WRAPS } = await import("../gen/valgen.mjs");
    const r0 = await compileText(ctx, IMPOSTOR_PROGRAM);
    const v0 = IMPOSTOR_WRAPS[c.wrap](impostorValues()[c.value]);
    const p0 = r0.parsers[c.parser];
    const rs = [call(() => p0.validate(v0, c.options)), call(() => p0.safeParse(v0, c.options)), call(() => p0.parse(v0, c.options))];
    const bad = !rs[0].ok || !rs[1].ok || rs[0].v !== rs[1].v.success || rs[0].v !== rs[2].ok || (!rs[2].ok && !String(rs[2].e && rs[2].e.message).startsWith(`Failed to parse ${c.parser} - `));
    return { violated: bad, value: `${c.wrap}(${c.value})`, results: rs.map((x) => (x.ok ? "returned" : "threw " + String(x.e && x.e.message).slice(0, 80))) };
  }
  if (c.kind === "deep") {
    const dp = DEEP_PROBES.find((x) => x.id === c.id);
    const r0 = await compileText(ctx, dp.text);
    const f0 = deepTriple(r0.parsers.X, dp, c.depth);
    return { violated: !!f0, fault: f0, value: `${c.id} nested ${c.depth} deep` };
  }
  if (c.kind === "adhoc") return { violated: false, note: "ad-hoc validators are rebuilt from the seed; replay by re-running the shard", describe: c.describe };
  const r = await compileText(ctx, c.text);
  if (!r.parsers) return { violated: true, note: "does not compile", outcome: r.res.outcome };
  const v = fromEjson(c.value);
  let f = checkTriple(r.parsers[c.parser], c.parser, v, c.options ?? {}, null, null);
  if (!f && (c.clause === "writes-to-input" || String(c.clause).startsWith("frozen"))) f = frozenCheck(r.parsers[c.parser], v, c.options ?? {});
  return { violated: !!f, fault: f, value: show(v) };
}

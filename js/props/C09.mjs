// C09 — splitting declarations across modules does not change the result.
// Events: single-file P vs split sigma(P): outcome, diagnostics, per-parser verdict vectors, digests.
// Oracle (metamorphic): same outcome class; vectors equal; digests equal up to the recorded
// member-order finding. Collision clause: two different types given one name in two files stay
// apart. Unresolvable clause: a broken link yields a diagnostic, never code.
import { corpus, valuesFor, kindsHistogram, h8 } from "../lib/corpus.mjs";
import { shallow } from "../lib/localise.mjs";
import { show, valueClass, toEjson, fromEjson } from "../lib/ejson.mjs";
import { splitProgram, breakLink, counterpart, exportWalk } from "../gen/split.mjs";
import { renderProgram } from "../gen/ast.mjs";
import { nameHashDifference, isRecursiveParser } from "../lib/rtdiff.mjs";
import { loadModule, buildAll, ALL_SETTINGS } from "../lib/loader.mjs";
import { isCyclic } from "../lib/deep.mjs";
import { coreKinds } from "../gen/typegen.mjs";

export const FEATURES = { maxDepth: 3 };

function verdicts(parser, vals) {
  return vals.map((v) => {
    try {
      return parser.validate(v) ? "Y" : "N";
    } catch {
      return "T";
    }
  });
}

async function compileFiles(ctx, files, order) {
  const req = { files, settings: ALL_SETTINGS, order };
  const res = await ctx.compiler.compile(req);
  if (res.outcome !== "code") return { res, req, parsers: null };
  try {
    return { res, req, parsers: buildAll(loadModule(res.code, ALL_SETTINGS)) };
  } catch (e) {
    return { res: { ...res, outcome: "load_error", message: String(e && e.message) }, req, parsers: null };
  }
}

// the same project through beff_wasm's own file manager / module resolver (native host of the hook):
// the layer between the host's files and the compiler must not change the result
async function wasmLayerFault(ctx, req, coreRes) {
  const w = await ctx.compiler.compile({ ...req, via: "wasm" });
  if (["died", "hang", "worker_lost", "panic"].includes(w.outcome) || ["died", "hang", "worker_lost", "panic"].includes(coreRes.outcome)) return null;
  ctx.count("wasm_layer_compared");
  const msgs = (r) => (r.diagnostics || []).map((d) => `${d.file}|${d.line_lo ?? ""}:${d.col_lo ?? ""}|${d.message}`).sort().join("\n");
  if (w.outcome !== coreRes.outcome) return { what: `outcome:${[coreRes.outcome, w.outcome].join("/")}`, detail: `core: ${coreRes.outcome} ${msgs(coreRes).slice(0, 300)}\nwasm layer: ${w.outcome} ${msgs(w).slice(0, 300)}` };
  if (w.outcome === "code" && w.code !== coreRes.code) return { what: "code", detail: "the emitted code differs" };
  if (w.outcome === "diagnostics" && msgs(w) !== msgs(coreRes)) return { what: "diagnostics", detail: `core: ${msgs(coreRes).slice(0, 300)}\nwasm layer: ${msgs(w).slice(0, 300)}` };
  return null;
}

const variantOf = (res) => (res.diagnostics?.[0] ? res.diagnostics[0].variant : res.panic ? `panic@${res.panic.file}:${res.panic.line}` : res.outcome);

export const PROBES = [
  {
    // seeded C09-i: typeof of a whole namespace - the module's own export shadows the same name passed on by export *
    id: "own-export-shadows-export-star-in-typeof-namespace",
    single: 'const lib = { kind: "lib", size: 1 } as const;\nexport const Parsers = parse.buildParsers<{ P: typeof lib }>();\n',
    files: { "entry.ts": 'import * as lib from "./lib";\nexport const Parsers = parse.buildParsers<{ P: typeof lib }>();\n', "lib.ts": 'export const kind = "lib" as const;\nexport * from "./base";\n', "base.ts": 'export const kind = "base" as const;\nexport const size = 1 as const;\n' },
    value: { $obj: "plain", fields: [["kind", "lib", 1], ["size", 1, 1]] },
    alsoRejects: { $obj: "plain", fields: [["kind", "base", 1], ["size", 1, 1]] },
  },
  {
    id: "earlier-export-star-shadows-a-later-one-in-typeof-namespace",
    single: 'const lib = { kind: "one", size: 1, extra: true } as const;\nexport const Parsers = parse.buildParsers<{ P: typeof lib }>();\n',
    files: { "entry.ts": 'import * as lib from "./lib";\nexport const Parsers = parse.buildParsers<{ P: typeof lib }>();\n', "lib.ts": 'export * from "./one";\nexport * from "./two";\n', "one.ts": 'export const kind = "one" as const;\nexport const size = 1 as const;\n', "two.ts": 'export const kind = "one" as const;\nexport const extra = true as const;\n' },
    value: { $obj: "plain", fields: [["kind", "one", 1], ["size", 1, 1], ["extra", true, 1]] },
    alsoRejects: { $obj: "plain", fields: [["kind", "two", 1], ["size", 1, 1], ["extra", true, 1]] },
  },
  {
    id: "export-list-exports-type-and-value",
    single: 'const A = { y: 1 } as const;\ntype A = { x: string };\nexport const Parsers = parse.buildParsers<{ P: { t: A; v: typeof A } }>();\n',
    files: { "entry.ts": 'import { A } from "./a";\nexport const Parsers = parse.buildParsers<{ P: { t: A; v: typeof A } }>();\n', "a.ts": 'const A = { y: 1 } as const;\ntype A = { x: string };\nexport { A };\n' },
    value: { $obj: "plain", fields: [["t", { $obj: "plain", fields: [["x", "s", 1]] }, 1], ["v", { $obj: "plain", fields: [["y", 1, 1]] }, 1]] },
  },
  {
    id: "default-import-passed-on-by-an-export-list",
    single: "type DD = { z: 1 };\nexport const Parsers = parse.buildParsers<{ P: DD }>();\n",
    files: { "entry.ts": 'import { D } from "./a";\nexport const Parsers = parse.buildParsers<{ P: D }>();\n', "a.ts": 'import D from "./d";\nexport { D };\n', "d.ts": "type DD = { z: 1 };\nexport default DD;\n" },
    value: { $obj: "plain", fields: [["z", 1, 1]] },
  },
  {
    id: "enum-exported-through-a-list-used-as-value",
    single: 'enum E { M = "m" }\nexport const Parsers = parse.buildParsers<{ P: { t: E; v: typeof E.M } }>();\n',
    files: { "entry.ts": 'import { E } from "./a";\nexport const Parsers = parse.buildParsers<{ P: { t: E; v: typeof E.M } }>();\n', "a.ts": 'enum E { M = "m" }\nexport { E };\n' },
    value: { $obj: "plain", fields: [["t", "m", 1], ["v", "m", 1]] },
  },
  {
    id: "typeof-namespace-with-export-star",
    single: 'const ns = { x: 1, y: "s" };\nexport const Parsers = parse.buildParsers<{ P: typeof ns }>();\n',
    files: { "entry.ts": 'import * as ns from "./a";\nexport const Parsers = parse.buildParsers<{ P: typeof ns }>();\n', "a.ts": 'export const x = 1;\nexport * from "./b";\n', "b.ts": 'export const y = "s";\n' },
    value: { $obj: "plain", fields: [["x", 1, 1], ["y", "s", 1]] },
    alsoRejects: { $obj: "plain", fields: [["x", 1, 1]] },
  },
  {
    id: "type-parameter-named-like-a-type-of-another-file",
    single: "type Data0 = string;\ntype Meta = { d: Data0 };\ntype Wrapper<Data> = { data: Data; meta: Meta };\nexport const Parsers = parse.buildParsers<{ P: Wrapper<number> }>();\n",
    files: { "entry.ts": 'import { Meta } from "./meta";\ntype Wrapper<Data> = { data: Data; meta: Meta };\nexport const Parsers = parse.buildParsers<{ P: Wrapper<number> }>();\n', "meta.ts": "type Data = string;\nexport type Meta = { d: Data };\n" },
    value: { $obj: "plain", fields: [["data", 1, 1], ["meta", { $obj: "plain", fields: [["d", "text", 1]] }, 1]] },
  },
  {
    id: "import-type-with-arguments",
    single: 'type Loc = { l: 1 };\ntype G<X> = { value: X };\nexport const Parsers = parse.buildParsers<{ P: G<Loc> }>();\n',
    files: { "entry.ts": 'type Loc = { l: 1 };\nexport const Parsers = parse.buildParsers<{ P: import("./g").G<Loc> }>();\n', "g.ts": "export type G<X> = { value: X };\n" },
    value: { $obj: "plain", fields: [["value", { $obj: "plain", fields: [["l", 1, 1]] }, 1]] },
  },
  {
    id: "extends-qualified-name",
    single: "interface J { j: string }\ninterface I extends J { i: number }\nexport const Parsers = parse.buildParsers<{ P: I }>();\n",
    files: { "entry.ts": 'import * as ns from "./j";\ninterface I extends ns.J { i: number }\nexport const Parsers = parse.buildParsers<{ P: I }>();\n', "j.ts": "export interface J { j: string }\n" },
    value: { $obj: "plain", fields: [["j", "s", 1], ["i", 1, 1]] },
  },
];

// two declarations of different meaning under one name in two files, by declaration kind and import style
const obj = (fields) => ({ $obj: "plain", fields: fields.map(([k, v]) => [k, v, 1]) });
function sameNameGrid() {
  const kinds = {
    alias: { decl: (n, v) => `type ${n} = ${JSON.stringify(v)};`, use: (n) => n },
    iface: { decl: (n, v) => `interface ${n} { k: ${JSON.stringify(v)} }`, use: (n) => `${n}["k"]` },
    "enum-member": { decl: (n, v) => `enum ${n} { A = ${JSON.stringify(v)} }`, use: (n) => `${n}.A` },
    "enum-whole": { decl: (n, v) => `enum ${n} { A = ${JSON.stringify(v)} }`, use: (n) => n },
    "enum-member-in-alias": { decl: (n, v) => `enum ${n}_e { A = ${JSON.stringify(v)} }\n${"export "}type ${n} = ${n}_e.A;`, use: (n) => n, twoDecls: true },
    "const-typeof": { decl: (n, v) => `const ${n} = ${JSON.stringify(v)} as const;`, use: (n) => `typeof ${n}` },
  };
  const out = [];
  for (const [kind, K] of Object.entries(kinds))
    for (const style of ["renamed", "namespace"])
      for (const shape of ["fields", "nested"]) {
        const wrap = (x, y) => (shape === "fields" ? `{ x: ${x}; y: ${y} }` : `{ x: ${x}; inner: { y: ${y} }[] }`);
        const val = (x, y) => (shape === "fields" ? obj([["x", x], ["y", y]]) : obj([["x", x], ["inner", [obj([["y", y]])]]]));
        const single = `${K.decl("EA", "a1").replace("export ", "")}\n${K.decl("EB", "b1").replace("export ", "")}\nexport const Parsers = parse.buildParsers<{ P: ${wrap(K.use("EA"), K.use("EB"))} }>();\n`;
        const exp = (text) => (K.twoDecls ? text.replace(/^enum /, "export enum ") : "export " + text);
        // in the files both are called E (the inner enum of the two-declaration kind as well)
        const fa = exp(K.decl("E", "a1")) + "\n",
          fb = exp(K.decl("E", "b1")) + "\n";
        const entry =
          style === "renamed"
            ? `import { E as EA } from "./a";\nimport { E as EB } from "./b";\nexport const Parsers = parse.buildParsers<{ P: ${wrap(K.use("EA"), K.use("EB"))} }>();\n`
            : `import * as NA from "./a";\nimport * as NB from "./b";\nexport const Parsers = parse.buildParsers<{ P: ${wrap(K.use("NA.E"), K.use("NB.E"))} }>();\n`;
        if (style === "namespace" && kind === "const-typeof") continue; // typeof NA.E is a value path, not in the grammar beff documents
        out.push({ id: `same-name:${kind}:${style}:${shape}`, single, files: { "entry.ts": entry, "a.ts": fa, "b.ts": fb }, values: [val("a1", "b1"), val("b1", "b1"), val("a1", "a1"), val("b1", "a1")], collision: true });
        // the same two modules under paths that give one identifier once `/`, `-`, `.` have become `_`
        if (shape === "fields")
          out.push({ id: `same-name:${kind}:${style}:paths-that-collide`, single, files: { "entry.ts": entry.replace('"./a"', '"./m/x-y"').replace('"./b"', '"./m_x_y"'), "m/x-y.ts": fa, "m_x_y.ts": fb }, values: [val("a1", "b1"), val("b1", "b1"), val("a1", "a1"), val("b1", "a1")], collision: true });
      }
  return out;
}

// a module imports a VALUE and declares a TYPE of the same name (separate namespaces in TypeScript):
// a type reference must bind to the local declaration, `typeof` to the imported value
function valueTypeNameGrid() {
  const out = [];
  const shapes = {
    "alias-typeof": { decl: "type Level = typeof Level;", use: "{ x: Level }", val: (v) => obj([["x", v]]) },
    "alias-union": { decl: 'type Level = typeof Level | "extra";', use: "Level[]", val: (v) => [v] },
    iface: { decl: "interface Level { l: typeof Level }", use: "Level", val: (v) => obj([["l", v]]) },
  };
  const imports = {
    named: { lib: 'export const Level = "high" as const;\n', imp: 'import { Level } from "./consts";' },
    default: { lib: 'const Level = "high" as const;\nexport default Level;\n', imp: 'import Level from "./consts";' },
    "named-from-hop": { lib: 'export const Level = "high" as const;\n', imp: 'import { Level } from "./hop";', hop: 'export { Level } from "./consts";\n' },
  };
  for (const [sn, sh] of Object.entries(shapes))
    for (const [inn, im] of Object.entries(imports)) {
      const tail = `${sh.decl}\nexport const Parsers = parse.buildParsers<{ P: ${sh.use} }>();\n`;
      const files = { "entry.ts": `${im.imp}\n${tail}`, "consts.ts": im.lib };
      if (im.hop) files["hop.ts"] = im.hop;
      out.push({ id: `value-and-type-share-a-name:${sn}:${inn}`, single: `const Level = "high" as const;\n${tail}`, files, values: [sh.val("high"), sh.val("low")], expect: "YN", collision: true });
    }
  return out;
}

export async function run(ctx) {
  if (ctx.shard === 0) {
    for (const p of [...sameNameGrid(), ...valueTypeNameGrid()]) {
      const a = await compileFiles(ctx, { "entry.ts": p.single });
      const b = await compileFiles(ctx, p.files);
      ctx.judged();
      ctx.count("same_name_grid");
      const where = { kind: "split", single: p.single, files: p.files, collision: { grid: p.id } };
      if (!a.parsers) {
        ctx.inconclusive("same-name-grid:single-file-form-rejected");
        continue;
      }
      if (!b.parsers) {
        ctx.violation({ signature: `split-project-rejected|${variantOf(b.res)}|name-collision|${p.id}`, clause: "outcome-differs", detail: `${p.id}: ${JSON.stringify(b.res.diagnostics?.[0]?.message ?? b.res.outcome)}`, replay: where });
        continue;
      }
      const vals = p.values.map(fromEjson);
      const v1 = verdicts(a.parsers.P, vals),
        v2 = verdicts(b.parsers.P, vals);
      if (v1.join("") !== (p.expect || "YNNN")) throw new Error(`C09 same-name grid: single-file verdicts ${v1.join("")} for ${p.id}`);
      const i = v1.findIndex((x, k) => x !== v2[k]);
      if (i >= 0) ctx.violation({ signature: `verdicts-differ|name-collision|${p.id}`, clause: "validators-differ", detail: `${p.id}: single-file ${v1.join("")} split ${v2.join("")}\n${Object.entries(p.files).map(([k, v]) => `--- ${k} ---\n${v}`).join("\n")}`, replay: { ...where, parser: "P", value: p.values[i] } });
    }
    for (const p of PROBES) {
      const a = await compileFiles(ctx, { "entry.ts": p.single });
      const b = await compileFiles(ctx, p.files);
      ctx.judged();
      ctx.count("probes");
      if (!a.parsers) throw new Error("C09 probe: single-file program does not compile: " + p.id);
      if (!b.parsers) ctx.violation({ signature: `split-project-rejected|${variantOf(b.res)}|probe:${p.id}`, clause: "outcome-differs", detail: `${p.id}: ${JSON.stringify(b.res.diagnostics?.[0]?.message ?? b.res.outcome)}`, replay: { kind: "split", single: p.single, files: p.files, collision: null } });
      else if (p.alsoRejects && verdicts(a.parsers.P, [fromEjson(p.alsoRejects)])[0] !== verdicts(b.parsers.P, [fromEjson(p.alsoRejects)])[0]) ctx.violation({ signature: `verdicts-differ|probe:${p.id}|second-value`, clause: "validators-differ", detail: p.id, replay: { kind: "split", single: p.single, files: p.files, collision: null, parser: "P", value: p.alsoRejects } });
      else if (verdicts(a.parsers.P, [fromEjson(p.value)])[0] !== verdicts(b.parsers.P, [fromEjson(p.value)])[0]) ctx.violation({ signature: `verdicts-differ|probe:${p.id}`, clause: "validators-differ", detail: p.id, replay: { kind: "split", single: p.single, files: p.files, collision: null, parser: "P", value: p.value } });
    }
  }
  // one relative specifier written in two directories means two files: ./types below a/ and below b/
  // (static imports, import("...") types, typeof import("..."), export *, re-exports), with equal or
  // different export names; through the harness file manager and through beff_wasm's own
  if (ctx.shard === 5 % ctx.of) {
    const uses = [
      ["import-type", (d) => `export type ${d.toUpperCase()} = { v: import("./types").Item };\n`],
      ["typeof-import", (d) => `export type ${d.toUpperCase()} = { v: typeof import("./types").thing };\n`],
      ["static", (d) => `import { Item } from "./types";\nexport type ${d.toUpperCase()} = { v: Item };\n`],
      ["static-renamed", (d) => `import { Item as It } from "./types";\nexport type ${d.toUpperCase()} = { v: It };\n`],
      ["namespace", (d) => `import * as t from "./types";\nexport type ${d.toUpperCase()} = { v: t.Item };\n`],
      ["reexport", (d) => `export { Item as ${d.toUpperCase()}Item } from "./types";\nimport { Item } from "./types";\nexport type ${d.toUpperCase()} = { v: Item };\n`],
      ["import-type-parent", (d) => `export type ${d.toUpperCase()} = { v: import("../${d}/types").Item; w: import("./types").Item };\n`],
    ];
    for (const [un, use] of uses)
      for (const [vn, use2] of uses)
        for (const sameNames of [true, false]) {
          const files = {
            "a/types.ts": 'export type Item = { k: "a" };\nexport const thing = { k: "a" } as const;\n',
            "b/types.ts": sameNames ? 'export type Item = { k: "b" };\nexport const thing = { k: "b" } as const;\n' : 'export type Item = { k: "b" };\nexport const thing = { k: "b" } as const;\nexport type OnlyInB = 1;\n',
            "a/mod.ts": use("a"),
            "b/mod.ts": use2("b") + (sameNames ? "" : 'export type B2 = import("./types").OnlyInB;\n'),
            "entry.ts": `import { A } from "./a/mod";\nimport { B } from "./b/mod";\n${sameNames ? "" : 'import { B2 } from "./b/mod";\n'}export const Parsers = parse.buildParsers<{ PA: A; PB: B${sameNames ? "" : "; P2: B2"} }>();\n`,
          };
          const id = `${un}+${vn}${sameNames ? "" : "+only-in-b"}`;
          for (const via of [undefined, "wasm"]) {
            const req = { files, settings: ALL_SETTINGS, via };
            const res = await ctx.compiler.compile(req);
            ctx.judged();
            ctx.count("two_directories_grid");
            const where = { kind: "split", single: "", files, collision: null };
            if (res.outcome !== "code") {
              ctx.violation({ signature: `split-project-rejected|two-directories|${via ?? "core"}|${id}`, clause: "outcome-differs", detail: `${id}: ${JSON.stringify(res.diagnostics?.[0]?.message ?? res.outcome)}`, replay: where });
              continue;
            }
            const ps = buildAll(loadModule(res.code, ALL_SETTINGS));
            const val = (k) => ({ v: { k }, w: { k } });
            const got = [ps.PA.validate(val("a")), ps.PA.validate(val("b")), ps.PB.validate(val("a")), ps.PB.validate(val("b"))].join(",");
            if (got !== "true,false,false,true") ctx.violation({ signature: `two-directories-bound-to-the-wrong-module|${via ?? "core"}|${id}`, clause: "validators-differ", detail: `${id}: PA / PB on {k:"a"} / {k:"b"}: ${got} (expected true,false,false,true)`, replay: where });
          }
        }
  }
  // enum members whose initialiser mentions other declarations of the enum's OWN module (another
  // enum's member, a constant, a template over a constant, an earlier member), referenced one member
  // at a time from another module - which may declare the same names with other values
  if (ctx.shard === 7 % ctx.of) {
    const lib = 'export const PREFIX = "pre" as const;\nexport enum Color { Red = "red", Blue = "blue" }\nexport enum Alias { Primary = Color.Red, Second = PREFIX, Fourth = Alias.Primary, Fifth = Primary, Lit = "lit" }\n';
    const want = { Primary: "red", Second: "pre", Fourth: "red", Fifth: "red", Lit: "lit" };
    const shadows = ["", 'const PREFIX = "entry-pre" as const;\nenum Color { Red = "entry-red" }\n', 'type PREFIX = 1;\n'];
    const styles = [
      ["named", 'import { Alias } from "./lib";\n', (m) => `Alias.${m}`],
      ["renamed", 'import { Alias as Al } from "./lib";\n', (m) => `Al.${m}`],
      ["namespace", 'import * as ns from "./lib";\n', (m) => `ns.Alias.${m}`],
      ["typeof", 'import { Alias } from "./lib";\n', (m) => `typeof Alias.${m}`],
      ["reexported", 'import { Alias } from "./mid";\n', (m) => `Alias.${m}`],
      ["import-type", "", (m) => `import("./lib").Alias.${m}`],
    ];
    for (const [sn, imp, use] of styles)
      for (let si = 0; si < shadows.length; si++) {
        const files = { "lib.ts": lib, "mid.ts": 'export { Alias } from "./lib";\n', "entry.ts": `${imp}${shadows[si]}export const Parsers = parse.buildParsers<{ ${Object.keys(want).map((m) => `${m}: ${use(m)}`).join("; ")} }>();\n` };
        const b = await compileFiles(ctx, files);
        ctx.judged();
        ctx.count("enum_member_grid");
        const id = `${sn}/shadow${si}`;
        const where = { kind: "split", single: "", files, collision: null };
        if (!b.parsers) {
          ctx.violation({ signature: `split-project-rejected|enum-member-initialiser|${variantOf(b.res)}|${id}`, clause: "outcome-differs", detail: `${id}: ${JSON.stringify(b.res.diagnostics?.[0]?.message ?? b.res.outcome)}`, replay: where });
          continue;
        }
        for (const [m, v] of Object.entries(want)) {
          const ok = b.parsers[m].validate(v) === true && ["entry-red", "entry-pre", "entry-pre-x", "x", 1].every((o) => b.parsers[m].validate(o) === false);
          if (!ok) {
            ctx.violation({ signature: `enum-member-bound-in-the-wrong-module|${id}|${m}`, clause: "validators-differ", detail: `${id}: ${m} should accept exactly ${JSON.stringify(v)}`, replay: where });
            break;
          }
        }
      }
  }
  // chains of value aliases, one link per file, every file laid out identically (equal offsets, equal
  // identifier lengths): whatever identifies an expression or a declaration must include its file
  if (ctx.shard === 6 % ctx.of) {
    const ids = ["aa", "bb", "cc", "dd", "ee"];
    for (const len of [2, 3, 4])
      for (const form of ["plain", "as-const", "member", "spread-free-object", "array"])
        for (const sameLayout of [true, false]) {
          const leaf = form === "array" ? '["x", 1] as const' : '{ id: "x", n: 1 } as const';
          const files = {};
          const single = [`const ${ids[len]} = ${leaf};`];
          for (let i = len - 1; i >= 0; i--) {
            const rhs = form === "member" && i === 0 ? `${ids[i + 1]}.id` : form === "as-const" ? `${ids[i + 1]}` : form === "spread-free-object" && i === 0 ? `{ inner: ${ids[i + 1]} }` : ids[i + 1];
            single.push(`const ${ids[i]} = ${rhs};`);
            files[`${ids[i]}.ts`] = `import { ${ids[i + 1]} } from "./${ids[i + 1]}";\n${sameLayout ? "" : " ".repeat(i)}export const ${ids[i]} = ${rhs};\n`;
          }
          files[`${ids[len]}.ts`] = `export const ${ids[len]} = ${leaf};\n`;
          files["entry.ts"] = `import { aa } from "./aa";\nexport const Parsers = parse.buildParsers<{ T: typeof aa }>();\n`;
          const singleText = single.join("\n") + "\nexport const Parsers = parse.buildParsers<{ T: typeof aa }>();\n";
          const a = await compileFiles(ctx, { "entry.ts": singleText });
          const b = await compileFiles(ctx, files);
          ctx.judged();
          ctx.count("value_alias_chains");
          const id = `${form}/${len}${sameLayout ? "/same-layout" : ""}`;
          const where = { kind: "split", single: singleText, files, collision: null };
          if (!!a.parsers !== !!b.parsers) {
            ctx.violation({ signature: `${a.parsers ? "split-project-rejected" : "split-project-accepted"}|value-alias-chain|${variantOf(a.parsers ? b.res : a.res)}|${id}`, clause: "outcome-differs", detail: `${id}: single file ${a.res.outcome}, split ${b.res.outcome}: ${JSON.stringify((a.parsers ? b.res : a.res).diagnostics?.[0]?.message ?? "")}`, replay: where });
            continue;
          }
          if (!a.parsers) continue;
          const vals = [{ id: "x", n: 1 }, { id: "y", n: 1 }, "x", ["x", 1], { inner: { id: "x", n: 1 } }, 1, null];
          const va = vals.map((v) => a.parsers.T.validate(v)).join(","), vb = vals.map((v) => b.parsers.T.validate(v)).join(",");
          if (va !== vb) ctx.violation({ signature: `verdicts-differ|value-alias-chain|${id}`, clause: "validators-differ", detail: `${id}: single ${va} split ${vb}`, replay: where });
        }
  }
  const nProgs = ctx.share(36000, 200000);
  let sampled = 0;
  for await (const item of corpus(ctx, { label: "C09", count: nProgs, features: FEATURES })) {
    const { prog, parsers } = item;
    if (prog.decls.length < 2) continue;
    const rng = item.rng.fork("split");
    const collide = rng.chance(0.3);
    const split = splitProgram(prog, rng, { collide });
    const r = await compileFiles(ctx, split.files, rng.chance(0.3) ? rng.shuffle(Object.keys(split.files)) : undefined);
    ctx.judged();
    for (const l of split.links) ctx.count("link:" + l.style);
    ctx.count("files:" + Object.keys(split.files).length);
    if (split.collision) ctx.count("with_name_collision");
    const styles = [...new Set(split.links.map((l) => l.style))].sort().join("+");
    ctx.distinct(h8(styles + Object.keys(split.files).sort().join(",") + (split.collision ? "c" : "")));
    const where = { kind: "split", single: item.text, files: split.files, collision: split.collision };
    if (rng.chance(0.5)) {
      const wf = await wasmLayerFault(ctx, r.req, r.res);
      ctx.judged();
      if (wf) ctx.violation({ signature: `wasm-layer-changes-the-result|${wf.what}`, clause: "wasm-layer", detail: `${wf.detail}\n${Object.entries(split.files).map(([k, v]) => `--- ${k} ---\n${v}`).join("\n").slice(0, 2500)}`, replay: where });
    }
    if (["died", "hang", "worker_lost"].includes(r.res.outcome)) {
      ctx.inconclusive("split-project-does-not-terminate-normally(C04)");
      continue;
    }
    if (!r.parsers) {
      // attribution: does the unresolved name sit on a chain of named re-exports that an `export *` leads back into?
      let cause = "";
      const m0 = /^Cannot resolve (?:type|value) '(.+)::(\w+)'$/.exec(String(r.res.diagnostics?.[0]?.message ?? ""));
      if (m0 && exportWalk(split.files, m0[1], m0[2]) === "cycle") cause = "|export-star-leads-back-into-the-named-re-export";
      ctx.violation({
        signature: `split-project-rejected|${variantOf(r.res)}${split.collision ? "|name-collision" : ""}${cause}`,
        clause: "outcome-differs",
        detail: `the single-file program compiles, the split project gives ${r.res.outcome}: ${JSON.stringify(r.res.diagnostics?.[0]?.message ?? r.res.panic ?? r.res.message ?? "")}\nlinks: ${JSON.stringify(split.links)}\n${Object.entries(split.files).map(([k, v]) => `--- ${k} ---\n${v}`).join("\n").slice(0, 2500)}`,
        replay: where,
      });
      continue;
    }
    for (const ps of prog.parsers) {
      const core = prog.cores.get(ps.name);
      const p1 = parsers[ps.name],
        p2 = r.parsers[ps.name];
      if (!p2) {
        ctx.violation({ signature: "parser-lost", clause: "parser-lost", detail: ps.name, replay: where });
        continue;
      }
      const vals = valuesFor(item, core, { members: 8, mutantsPer: 2, hostile: true }).map((x) => x.v).filter((v) => !isCyclic(v));
      const v1 = verdicts(p1, vals),
        v2 = verdicts(p2, vals);
      ctx.judged();
      const i = v1.findIndex((x, k) => x !== v2[k]);
      if (i >= 0) {
        ctx.violation({
          signature: `verdicts-differ|${nameHashDifference(p1, p2)}${split.collision ? "|name-collision" : ""}|${[...new Set(split.links.map((l) => l.style))].sort().join("+")}`,
          clause: "validators-differ",
          detail: `parser ${ps.name}: single-file ${v1[i]} split ${v2[i]} on ${show(vals[i])}\nlinks: ${JSON.stringify(split.links)}\n${Object.entries(split.files).map(([k, v]) => `--- ${k} ---\n${v}`).join("\n").slice(0, 2500)}`,
          replay: { ...where, parser: ps.name, value: toEjson(vals[i]) },
        });
        continue;
      }
      let h1, h2;
      try {
        h1 = p1.hash256();
        h2 = p2.hash256();
      } catch {
        continue;
      }
      if (h1 !== h2) {
        let cause = nameHashDifference(p1, p2);
        if (cause === "identical-modulo-refs" && (coreKinds(prog.env, core).has("recursive") || isRecursiveParser(p1))) cause += ":recursive";
        ctx.violation({ signature: `hash256-differs|${cause}`, clause: "digest-differs", detail: `parser ${ps.name}: ${h1.slice(0, 16)} vs ${h2.slice(0, 16)}`, replay: { ...where, parser: ps.name } });
      }
    }
    if (ctx.shard === 0 && sampled < 3) {
      sampled++;
      ctx.sample({ single_file: item.text.slice(0, 500), split: Object.fromEntries(Object.entries(split.files).map(([k, v]) => [k, v.slice(0, 300)])), links: split.links.slice(0, 8), verdicts_equal: true });
    }

    // unresolvable clause
    const broken = breakLink(split, prog, rng);
    if (broken) {
      // oracle: the single-file counterpart with that declaration removed. beff resolves lazily, so a
      // reference in a branch it never evaluates is not demanded of the split project either.
      const without = counterpart(prog, broken.lost);
      const rc = await compileFiles(ctx, { "entry.ts": renderProgram(without) });
      if (rc.res.outcome !== "diagnostics") {
        ctx.inconclusive("broken-link-not-needed-by-the-single-file-counterpart");
        continue;
      }
      const rb = await compileFiles(ctx, broken.files);
      ctx.judged();
      ctx.count("broken:" + broken.kind);
      if (rb.res.outcome === "code") {
        ctx.violation({
          signature: `broken-link-still-compiles|${broken.kind}|${broken.link.style}`,
          clause: "unresolvable-reference-not-reported",
          detail: `after ${broken.kind} of ${broken.link.name} (imported by ${broken.link.from} via ${broken.link.via}, style ${broken.link.style}) the project still produced code\n${Object.entries(broken.files).map(([k, v]) => `--- ${k} ---\n${v}`).join("\n").slice(0, 2500)}`,
          replay: { kind: "broken", files: broken.files },
        });
      } else if (rb.res.outcome !== "diagnostics") ctx.inconclusive("broken-project-outcome:" + rb.res.outcome);
    }
  }
}

export async function replay(ctx, c) {
  if (c.kind === "broken") {
    const r = await compileFiles(ctx, c.files);
    return { violated: r.res.outcome === "code", outcome: r.res.outcome, diagnostics: r.res.diagnostics };
  }
  const a = await compileFiles(ctx, { "entry.ts": c.single });
  const b = await compileFiles(ctx, c.files);
  if (!a.parsers) return { violated: false, note: "single-file program does not compile any more" };
  if (!b.parsers) return { violated: true, outcome: b.res.outcome, diagnostics: b.res.diagnostics };
  if (c.parser && c.value !== undefined) {
    const v = fromEjson(c.value);
    const x = verdicts(a.parsers[c.parser], [v])[0],
      y = verdicts(b.parsers[c.parser], [v])[0];
    return { violated: x !== y, single: x, split: y };
  }
  return { violated: false };
}

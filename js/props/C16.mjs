// C16 — schema-printing contexts collect definitions independently of call order.
// Events: for a parser set Q and a call sequence s in Q* on ONE SchemaPrintingContext: each
// returned schema and exportDefinitions() after the sequence; the same for a fresh context per
// parser. Oracle: export(s) = export(s') for every other order / repetition over the same set; each
// definition equals the fresh-context one; none is {} / missing; no in-progress entry survives;
// every $ref resolves in the final export.
import { corpus, kindsHistogram, h8 } from "../lib/corpus.mjs";
import { rt, client } from "../lib/loader.mjs";
import { shallow } from "../lib/localise.mjs";
import { renderType } from "../gen/ast.mjs";
import { coreKinds } from "../gen/typegen.mjs";
import { allRefs, resolvePointer } from "../lib/schemadocs.mjs";
import { CONFIGS, assembleRoot } from "./C02.mjs";
import { compileText } from "../lib/util.mjs";

export const FEATURES = { nonJson: false, maxDepth: 3, cycleHeavy: true, onlyRepresentableNumbers: true, jsdocRate: 0.3 };

const stable = (v) => JSON.stringify(v, (k, x) => (x && typeof x === "object" && !Array.isArray(x) ? Object.fromEntries(Object.entries(x).sort(([a], [b]) => (a < b ? -1 : a > b ? 1 : 0))) : x));

function permutations(xs) {
  if (xs.length <= 1) return [xs];
  const out = [];
  xs.forEach((x, i) => {
    for (const p of permutations([...xs.slice(0, i), ...xs.slice(i + 1)])) out.push([x, ...p]);
  });
  return out;
}

// run one call sequence on one context; returns {defs, schemas, leftover, threw}
function runSequence(parsers, seq, cfg, overrides, tolerateThrows = false) {
  const pc = new rt.SchemaPrintingContext({ ...cfg, ...(overrides ? { namedTypeSchemaOverrides: overrides } : {}) });
  const schemas = [];
  const threwFor = new Set();
  for (const n of seq) {
    try {
      schemas.push([n, parsers[n].schemaWithContext(pc)]);
    } catch (e) {
      // a call that throws (a type JSON Schema cannot express) is part of the history: the context
      // must stay usable for the other parsers
      threwFor.add(n);
      if (!tolerateThrows) return { threw: String(e && e.message).slice(0, 120) };
    }
  }
  const exported = pc.exportDefinitions();
  const table = cfg.definitionContainerKey == null ? exported : exported[cfg.definitionContainerKey];
  return { defs: table, exported, schemas, threwFor, leftover: Object.keys(pc.inProgressDefinitions ?? {}) };
}

function tableFaults(res, cfg) {
  if (res.leftover.length) return { clause: "definition-left-in-progress", cause: "leftover", detail: res.leftover.join(",") };
  for (const [name, def] of Object.entries(res.defs)) {
    if (def === undefined || def === null) return { clause: "definition-missing", cause: "null", detail: name };
  }
  // every $ref of every returned schema and of every definition resolves in the final export
  for (const [n, schema] of res.schemas) {
    const root = assembleRoot(schema, res.exported, cfg);
    const bad = allRefs(root).filter((r) => resolvePointer(root, r) === undefined);
    if (bad.length) return { clause: "ref-does-not-resolve", cause: "dangling", detail: `${bad.slice(0, 3).join(", ")} (schema returned for ${n})` };
  }
  return null;
}

export async function checkSet(ctx, parsers, names0, cores, env, rng, cfg, overrides = null) {
  // reference: a fresh context per parser; parsers whose own printing throws stay in the call
  // sequences (as calls that throw) but contribute no expected definitions
  const fresh = new Map();
  const throwing = [];
  let names = [];
  for (const n of names0) {
    const r = runSequence(parsers, [n], cfg, overrides);
    if (r.threw) {
      throwing.push(n);
      continue;
    }
    names.push(n);
    fresh.set(n, r);
    const f = tableFaults(r, cfg);
    if (f) return { fault: { ...f, seq: [n] } };
  }
  if (names.length < 1 || names.length + throwing.length < 2) return { skip: "unprintable:too-few-printable-parsers" };
  const all = [...names, ...throwing];
  const seqs = all.length <= 4 ? permutations(all) : Array.from({ length: 24 }, () => rng.shuffle(all));
  // sequences with repetitions
  for (let i = 0; i < 6; i++) {
    const s = [];
    const len = names.length + 1 + rng.below(4);
    for (let k = 0; k < len; k++) s.push(rng.pick(all));
    for (const n of all) if (!s.includes(n)) s.push(n);
    seqs.push(s);
  }
  let first = null;
  let judged = 0;
  for (const seq of seqs) {
    const r = runSequence(parsers, seq, cfg, overrides, true);
    judged++;
    const unexpected = [...r.threwFor].filter((n) => !throwing.includes(n));
    if (unexpected.length) return { fault: { clause: "printable-parser-throws-in-shared-context", cause: throwing.length ? "after-throwing-call" : "plain", detail: unexpected.join(","), seq }, judged };
    const f = tableFaults(r, cfg);
    if (f) return { fault: { ...f, seq }, judged };
    // each named definition equals the one a fresh context produces for that name
    for (const n of names) {
      for (const [dn, dv] of Object.entries(fresh.get(n).defs)) {
        if (!(dn in r.defs)) {
          // attribution: do the fresh contexts of the parsers already disagree about the body of some
          // synthetic variant name (two different unions given one name - the recorded finding)? then
          // whichever union printed first owns the name, and the other one's variants go missing
          const synth = new Map();
          for (const m of names) for (const [k, v] of Object.entries(fresh.get(m).defs)) if (k.startsWith("Discriminated")) synth.set(k, (synth.get(k) || new Set()).add(stable(v)));
          const collide = [...synth.values()].some((b) => b.size > 1) ? "|two-unions-share-the-name-in-fresh-contexts" : "";
          return { fault: { clause: "definition-missing", cause: "absent" + collide, detail: `${dn} (needed by ${n})`, seq }, judged };
        }
        if (stable(r.defs[dn]) !== stable(dv)) {
          const empty = stable(r.defs[dn]) === "{}";
          // attribution: do two FRESH contexts (one per parser) already give this name two different
          // bodies? then two different unions were given one synthetic name (its hash looks through
          // references), and the shared context merely kept the first of them
          const bodies = new Set(names.filter((m) => dn in fresh.get(m).defs).map((m) => stable(fresh.get(m).defs[dn])));
          const collide = dn.startsWith("Discriminated") && bodies.size > 1 ? "|two-unions-share-the-name-in-fresh-contexts" : "";
          return { fault: { clause: empty ? "definition-empty" : "definition-differs-from-fresh-context", cause: (dn.startsWith("Discriminated") ? "synthetic-variant" : "named") + collide, detail: `${dn}: shared ${stable(r.defs[dn]).slice(0, 300)} fresh ${stable(dv).slice(0, 300)}`, seq }, judged };
        }
      }
      // and the schema returned for the parser itself
      const got = r.schemas.filter(([x]) => x === n).map(([, s]) => stable(s));
      const want = stable(fresh.get(n).schemas[0][1]);
      if (got.some((g) => g !== want)) return { fault: { clause: "returned-schema-depends-on-history", cause: "returned", detail: `${n}: ${got.find((g) => g !== want).slice(0, 300)} vs fresh ${want.slice(0, 300)}`, seq }, judged };
    }
    // with throwing calls in the history only the definitions the printable parsers need are compared
    const needed = new Set();
    for (const n of names) for (const dn of Object.keys(fresh.get(n).defs)) needed.add(dn);
    const key = stable(throwing.length ? Object.fromEntries(Object.entries(r.defs).filter(([k]) => needed.has(k))) : r.defs);
    if (first === null) first = { key, seq };
    else if (first.key !== key) return { fault: { clause: "export-depends-on-order", cause: "order", detail: `${first.seq.join(">")} vs ${seq.join(">")}`, seq }, judged };
  }
  return { judged };
}

const PROBES = [
  {
    id: "override-of-discriminated-variant",
    text: 'type A = { kind: "a"; x: string };\ntype B = { kind: "b" };\ntype U = A | B;\nexport const Parsers = parse.buildParsers<{ PA: A; PU: U; PW: { u: U[] } }>();\n',
    set: ["PA", "PU", "PW"],
    override: "A",
  },
  {
    id: "recursive-discriminated-cycle",
    text: 'type Expr = { kind: "lit" } | { kind: "block"; holder: Holder };\ntype Holder = { e: Expr; label?: string };\ntype Page = { items: Holder[] };\nexport const Parsers = parse.buildParsers<{ PE: Expr; PH: Holder; PP: Page }>();\n',
    set: ["PE", "PH", "PP"],
    override: null,
  },
  {
    // a call that throws (Date) after a named type that refers back to it was completed inside it
    id: "throwing-call-with-completed-dependents",
    text: "type Post = { author: Author; publishedAt: Date };\ntype Author = { posts: Post[]; name: string };\ntype Comment = { by: Author; text: string };\ntype Plain = { n: number };\nexport const Parsers = parse.buildParsers<{ PP: Post; PA: Author; PC: Comment; PN: Plain }>();\n",
    set: ["PP", "PA", "PC", "PN"],
    override: null,
  },
  {
    // one undocumented named type reached through differently documented references
    id: "documented-references-to-one-type",
    text: 'type Money = { amount: number; currency: string };\ntype Tree = { v: Money; kids: Tree[] };\ntype Invoice = {\n  /** Price of the item. */\n  price: Money };\ntype Refund = {\n  /** Amount paid back. */\n  refund: Money; t?: Tree };\ntype Total = { total: Money };\nexport const Parsers = parse.buildParsers<{ PI: Invoice; PR: Refund; PT: Total }>();\n',
    set: ["PI", "PR", "PT"],
    override: null,
  },
];

export async function run(ctx) {
  if (ctx.shard === 0) {
    const { Rng } = await import("../lib/rng.mjs");
    for (const p of PROBES) {
      const r = await compileText(ctx, p.text);
      if (!r.parsers) throw new Error("C16 probe does not compile: " + p.id);
      for (const cfg of CONFIGS) {
        const overrides = p.override ? { [p.override]: client.b.Object({ overridden: client.b.Number() }) } : null;
        const res = await checkSet(ctx, r.parsers, p.set, null, null, new Rng(ctx.seed, "probe" + p.id), cfg, overrides);
        ctx.judged(res.judged ?? 1);
        ctx.count("probes");
        if (res.fault) ctx.violation({ signature: `${res.fault.clause}|${res.fault.cause}${overrides ? "|with-override" : ""}|probe:${p.id}`, clause: res.fault.clause, detail: `${res.fault.detail}\nsequence: ${res.fault.seq.join(" > ")}\n${p.text}`, replay: { kind: "sequence", text: p.text, set: p.set, seq: res.fault.seq, cfg, override: p.override } });
      }
    }
  }
  // grid: (how a named type Back mentions Node) x (how Node leads back to Back) - every recursion
  // route through an intersection / union / utility type / container, all call orders of three parsers
  {
    const SHAPES = [
      ["inter-named-inline", "Node & { label: string }"],
      ["inter-inline-named", "{ label: string } & Node"],
      ["inter-named-named", "Node & Extra"],
      ["inter-three", "Node & Extra & { z?: number }"],
      ["union-inline", "Node | { leaf: true }"],
      ["union-null", "Node | null"],
      ["tagged", '{ kind: "n"; node: Node } | { kind: "l"; label: string }'],
      ["tagged-named", "TagN | TagL"],
      ["partial", "Partial<Node>"],
      ["omit", 'Omit<Node, "id">'],
      ["pick", 'Pick<Node, "next">'],
      ["wrapped", "{ wrapped: Node; label?: string }"],
      ["array", "Node[]"],
      ["tuple", "[Node, string]"],
      ["record", "Record<string, Node>"],
      ["generic", "Box<Node>"],
      ["generic-inter", "Box<Node> & Extra"],
      ["interface-extends", null],
    ];
    const ROUTES = [
      ["array", "Back[]"],
      ["nullable", "Back | null"],
      ["optional", null],
      ["record", "Record<string, Back>"],
      ["tuple-rest", "[Back, ...Back[]]"],
      ["nested", "{ inner: Back; n?: number }"],
      ["union-of-two", "Back | Extra"],
    ];
    let k = 0;
    for (const [sn, shape] of SHAPES)
      for (const [rn, route] of ROUTES) {
        if (k++ % ctx.of !== ctx.shard) continue;
        const nodeDecl = route === null ? "type Node = { id: string; next?: Back };" : `type Node = { id: string; next: ${route} };`;
        const backDecl = shape === null ? "interface Back extends Node { label: string }" : `type Back = ${shape};`;
        const text = `${nodeDecl}\n${backDecl}\ntype Extra = { label: string };\ntype Box<T> = { v: T; w?: T[] };\ntype TagN = { kind: "n"; node: Node };\ntype TagL = { kind: "l"; label: string };\nexport const Parsers = parse.buildParsers<{ PN: Node; PB: Back; PW: { items: Back[]; first?: Node } }>();\n`;
        const r = await compileText(ctx, text);
        if (!r.parsers) {
          ctx.count("route_grid_refused");
          continue;
        }
        const { Rng } = await import("../lib/rng.mjs");
        for (const cfg of CONFIGS) {
          const res = await checkSet(ctx, r.parsers, ["PN", "PB", "PW"], null, null, new Rng(ctx.seed, "route" + sn + rn), cfg, null);
          if (res.skip) {
            ctx.count("route_grid_skipped");
            continue;
          }
          ctx.judged(res.judged ?? 1);
          ctx.count("route_grid_sets");
          ctx.distinct(h8("route" + sn + rn + cfg.refPathTemplate));
          if (res.fault) ctx.violation({ signature: `${res.fault.clause}|${res.fault.cause}|route-grid:${sn}`, clause: res.fault.clause, detail: `${res.fault.detail}\nsequence: ${res.fault.seq.join(" > ")}\n${text}`, replay: { kind: "sequence", text, set: ["PN", "PB", "PW"], seq: res.fault.seq, cfg, override: null } });
        }
      }
  }
  const nProgs = ctx.share(32000, 120000);
  let sampled = 0;
  const loops = [
    { label: "C16", count: Math.ceil(nProgs * 0.8), features: FEATURES },
    // programs with Date / Map / ... members: some calls of the history throw
    { label: "C16-throwing", count: Math.ceil(nProgs * 0.2), features: { ...FEATURES, nonJson: true } },
  ];
  for (const loop of loops)
  for await (const item of corpus(ctx, loop)) {
    const { prog, parsers } = item;
    const names = prog.parsers.map((p) => p.name).filter((n) => parsers[n]);
    if (names.length < 2) continue;
    const rng = item.rng.fork("c16");
    const cfg = rng.pick(CONFIGS);
    const set = names.length > 5 ? rng.shuffle(names).slice(0, 5) : names;
    for (const n of set) kindsHistogram(ctx, prog.env, prog.cores.get(n));
    // sometimes: an override for one of the named types (any other parser serves as the override)
    let overrides = null;
    if (rng.chance(0.3)) {
      const probe = runSequence(parsers, [set[0]], cfg);
      const namesDefined = probe.defs ? Object.keys(probe.defs).filter((k) => !k.startsWith("Discriminated")) : [];
      if (namesDefined.length) {
        overrides = { [rng.pick(namesDefined)]: rng.chance(0.5) ? client.b.String() : client.b.Object({ overridden: client.b.Number() }) };
        ctx.count("sets_with_override");
      }
    }
    const res = await checkSet(ctx, parsers, set, prog.cores, prog.env, rng, cfg, overrides);
    if (res.skip) {
      ctx.count("skipped:" + res.skip.split(":")[0]);
      continue;
    }
    ctx.judged(res.judged ?? 1);
    const kinds = new Set();
    for (const n of set) for (const k of coreKinds(prog.env, prog.cores.get(n))) kinds.add(k);
    ctx.distinct(h8(set.length + [...kinds].sort().join(",") + cfg.refPathTemplate));
    if (kinds.has("recursive")) ctx.count("sets_with_recursive_types");
    if (res.fault) {
      const f = res.fault;
      ctx.violation({
        signature: `${f.clause}|${f.cause}${overrides ? "|with-override" : ""}`,
        clause: f.clause,
        detail: `${f.detail}\nsequence: ${f.seq.join(" > ")}\nconfig: ${JSON.stringify(cfg)}\n${item.text.slice(0, 1500)}`,
        replay: { kind: "sequence", text: item.text, set, seq: f.seq, cfg, override: overrides ? Object.keys(overrides)[0] : null },
      });
    } else if (ctx.shard === 0 && sampled < 3) {
      sampled++;
      ctx.sample({ parsers: set.map((n) => `${n}: ${renderType(prog.parsers.find((p) => p.name === n).t).slice(0, 80)}`), sequences: res.judged, config: cfg, exports_equal: true });
    }
  }
}

export async function replay(ctx, c) {
  const r = await compileText(ctx, c.text);
  if (!r.parsers) return { violated: false, note: "program does not compile any more" };
  const { Rng } = await import("../lib/rng.mjs");
  const overrides = c.override ? { [c.override]: client.b.Object({ overridden: client.b.Number() }) } : null;
  const res = await checkSet(ctx, r.parsers, c.set, null, null, new Rng(1, "replay"), c.cfg, overrides);
  return { violated: !!res.fault, fault: res.fault };
}

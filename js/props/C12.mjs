// C12 — decode errors are present, bounded and point into the input.
// Events: for each rejected (parser, v, options): safeParse(v).errors, printErrors(errors) twice,
// parse(v)'s Error.message twice. Oracle: 1 <= |errors| <= 10; a path resolver walks every path
// (outer path ++ nested union-error paths) through v; `received` must be what is found there;
// rendering does not throw and is repeatable.
import * as A from "../gen/ast.mjs";
import { corpus, valuesFor, typeKey, kindsHistogram, h8 } from "../lib/corpus.mjs";
import { coreProgramText, shallow } from "../lib/localise.mjs";
import { localiseClause } from "../lib/relloc.mjs";
import { toEjson, fromEjson, valueClass, show } from "../lib/ejson.mjs";
import { client } from "../lib/loader.mjs";
import { isCyclic } from "../lib/deep.mjs";
import { renderType } from "../gen/ast.mjs";
import { compileText, compileProgram } from "../lib/util.mjs";

export const FEATURES = {};
const OPTION_SETS = [{}, { disallowExtraProperties: true }];

function safeJson(x) {
  const anc = [];
  try {
    const out = JSON.stringify(x, function (k, v) {
      if (typeof v === "bigint") return `${v}n`;
      if (typeof v === "object" && v !== null) {
        while (anc.length && anc[anc.length - 1] !== this) anc.pop();
        if (anc.includes(v)) return "[Circular]";
        anc.push(v);
      }
      return v;
    });
    return out === undefined ? String(x) : out;
  } catch {
    try {
      return String(x);
    } catch {
      return Object.prototype.toString.call(x); // no toString / valueOf at all (Object.create(null))
    }
  }
}

// all values a path can address in v (ambiguous segments give several); [] when it addresses nothing
function resolve(v, path) {
  let cur = [{ val: v, missing: false }];
  for (let si = 0; si < path.length; si++) {
    const seg = path[si];
    const last = si === path.length - 1;
    const next = [];
    for (const c of cur) {
      if (c.missing) continue; // nothing below a missing property
      const x = c.val;
      if (x === null || x === undefined) continue;
      const m = /^\[(\d+)\]$/.exec(seg);
      if (m && Array.isArray(x)) {
        const i = Number(m[1]);
        // an index just past the end may be reported for a too-short tuple (missing element)
        if (i < x.length) next.push({ val: x[i], missing: false });
        else if (last) next.push({ val: undefined, missing: true });
      }
      const mk = /^(key|value|item)\((.*)\)$/s.exec(seg);
      if (mk && x instanceof Map && mk[1] !== "item") for (const [k, val] of x) if (safeJson(k) === mk[2]) next.push({ val: mk[1] === "key" ? k : val, missing: false });
      if (mk && x instanceof Set && mk[1] === "item") for (const it of x) if (safeJson(it) === mk[2]) next.push({ val: it, missing: false });
      if (typeof x === "object" || typeof x === "function") {
        // (a member of Object.prototype that the value does not carry itself is a missing property)
        const inheritedOnly = !Object.prototype.hasOwnProperty.call(x, seg) && Object.prototype.hasOwnProperty.call(Object.prototype, seg) && x[seg] === Object.prototype[seg];
        if (seg in x && !inheritedOnly) next.push({ val: x[seg], missing: false });
        else if (inheritedOnly && last) next.push({ val: undefined, missing: true });
        else if (last && !(m && Array.isArray(x))) next.push({ val: undefined, missing: true });
      }
    }
    cur = next;
    if (!cur.length) return [];
  }
  return cur;
}

function checkErrors(errors, v, base, depth = 0) {
  if (!Array.isArray(errors)) return { clause: "errors-not-array", detail: typeof errors };
  for (const e of errors) {
    if (e === null || typeof e !== "object" || !Array.isArray(e.path) || e.path.some((s) => typeof s !== "string")) return { clause: "malformed-error", detail: safeJson(e).slice(0, 200) };
    const full = [...base, ...e.path];
    const at = resolve(v, full);
    if (!at.length) return { clause: "path-addresses-nothing", detail: `path ${JSON.stringify(full)}` };
    if (!at.some((a) => Object.is(a.val, e.received)) && typeof e.received === "string" && full.length && e.received === full[full.length - 1] && !("isUnionError" in e))
      return { clause: "received-is-the-key-not-the-value", detail: `path ${JSON.stringify(full)} received ${show(e.received, 80)} found ${show(at[0].val, 80)}` };
    if (!at.some((a) => Object.is(a.val, e.received))) return { clause: "received-is-not-the-value-at-path", detail: `path ${JSON.stringify(full)} received ${show(e.received, 80)} found ${show(at[0].val, 80)}` };
    if ("isUnionError" in e) {
      if (!Array.isArray(e.errors) || e.errors.length === 0) return { clause: "empty-union-error", detail: `path ${JSON.stringify(full)}` };
      if (depth < 40) {
        const f = checkErrors(e.errors, v, full, depth + 1);
        if (f) return f;
      }
    } else if (typeof e.message !== "string" || e.message.length === 0) return { clause: "malformed-error", detail: "no message" };
  }
  return null;
}

// returns null or {clause, detail}; `core`/`ref` unused (signature shared with the C03 localiser)
export function checkRejected(parser, name, v, o) {
  let sp;
  try {
    sp = parser.safeParse(v, o);
  } catch (e) {
    if (e instanceof RangeError && /call stack/.test(String(e.message)) && isCyclic(v)) return { clause: "threw:stack-overflow-on-cyclic-input", detail: "RangeError" };
    return { clause: "safeParse-threw", detail: String(e && e.message).slice(0, 120) };
  }
  if (sp.success) return null;
  const errors = sp.errors;
  if (!Array.isArray(errors) || errors.length < 1) return { clause: "no-error-reported", detail: `errors=${safeJson(errors)}` };
  if (errors.length > 10) return { clause: "more-than-ten-errors", detail: String(errors.length) };
  const f = checkErrors(errors, v, []);
  if (f) return f;
  let r1, r2;
  try {
    r1 = client.printErrors(errors);
    r2 = client.printErrors(errors);
  } catch (e) {
    return { clause: "printErrors-threw", detail: String(e && e.message).slice(0, 120) };
  }
  if (typeof r1 !== "string" || r1 !== r2) return { clause: "printErrors-not-deterministic", detail: "" };
  const msgs = [];
  for (let i = 0; i < 2; i++) {
    try {
      parser.parse(v, o);
      return { clause: "parse-returned-on-rejected-value", detail: "" };
    } catch (e) {
      if (!(e instanceof Error) || typeof e.message !== "string") return { clause: "parse-threw-non-error", detail: String(e) };
      msgs.push(e.message);
    }
  }
  if (msgs[0] !== msgs[1]) return { clause: "parse-message-not-deterministic", detail: `${msgs[0].slice(0, 100)} vs ${msgs[1].slice(0, 100)}` };
  if (!msgs[0].startsWith(`Failed to parse ${name} - `)) return { clause: "parse-message-undocumented", detail: msgs[0].slice(0, 120) };
  return null;
}

async function reportClause(ctx, item, parserName, core, v, o, f, locCache) {
  const env = item.prog.env;
  const ck = `${typeKey(env, core)}|${f.clause}|${o.disallowExtraProperties ? "strict" : "default"}|${valueClass(v)}`;
  let hit = locCache.get(ck);
  if (!hit) {
    ctx.count("localisations");
    const loc = await localiseClause(ctx, env, item.ref, core, v, o, f.clause, (p, n, x, oo) => checkRejected(p, n, x, oo));
    hit = loc.standalone
      ? { signature: `${f.clause}|${shallow(env, loc.core)}|${valueClass(loc.value)}`, text: coreProgramText(env, loc.core), parser: "X", value: loc.value, detail: loc.detail }
      : { signature: `${f.clause}|src-only|${shallow(env, core)}|${valueClass(v)}`, text: item.text, parser: parserName, value: v, detail: f.detail };
    locCache.set(ck, hit);
  }
  ctx.violation({
    signature: hit.signature + (o.disallowExtraProperties ? "|strict" : ""),
    clause: f.clause,
    detail: `${hit.detail} :: ${hit.text.trim().split("\n").slice(-2).join(" ")} on ${show(hit.value)}`,
    replay: { kind: "rejected", text: hit.text, parser: hit.parser, value: toEjson(hit.value), options: o, clause: f.clause, original: { text: item.text, parser: parserName, value: toEjson(v) } },
  });
}

const T = A;
const one = (t, decls = []) => ({ decls, parsers: [{ name: "X", t }] });
export const PROBES = [
  { id: "tuple-too-long", prog: one(T.tuple([T.kw("string")])), value: ["a", "b"] },
  { id: "tuple-too-long-nested", prog: one(T.obj([T.prop("t", T.tuple([T.kw("number"), T.kw("number")]))])), value: { $obj: "plain", fields: [["t", [1, 2, 3], 1]] } },
  { id: "map-bigint-key", prog: one({ k: "map", key: T.kw("string"), val: T.kw("string") }), value: { $map: [[{ $bigint: "1" }, "x"]] } },
  { id: "twelve-errors", prog: one(T.arr(T.kw("string"))), value: [1, 2, 3, 4, 5, 6, 7, 8, 9, 10, 11, 12] },
  { id: "union-in-union", prog: one(T.obj([T.prop("f", T.union([T.kw("string"), T.obj([T.prop("x", T.union([T.obj([T.prop("p", T.kw("number"))]), T.obj([T.prop("q", T.kw("number"))])]))])]))])), value: { $obj: "plain", fields: [["f", { $obj: "plain", fields: [["x", { $obj: "plain", fields: [["p", "s", 1], ["q", "s", 1]] }, 1]] }, 1]] } },
];

export async function run(ctx) {
  const locCache = new Map();
  const { Ref } = await import("../ref/member.mjs");
  if (ctx.shard === 0) {
    for (const p of PROBES) {
      const r = await compileProgram(ctx, p.prog);
      ctx.count("probes");
      if (!r.parsers) throw new Error("C12 probe does not compile: " + p.id);
      const v = fromEjson(p.value);
      for (const o of OPTION_SETS) {
        const f = checkRejected(r.parsers.X, "X", v, o);
        ctx.judged();
        if (f) await reportClause(ctx, { prog: { env: r.env }, ref: new Ref(r.env), text: r.text }, "X", r.cores.get("X"), v, o, f, locCache);
      }
    }
  }
  // very large containers of wrong items: a report of at most ten errors, no throw
  if (ctx.shard === 1 % ctx.of) {
    const { bulkValues, BULK_PROGRAM } = await import("../gen/valgen.mjs");
    const r = await compileText(ctx, BULK_PROGRAM);
    if (!r.parsers) throw new Error("C12 bulk program does not compile");
    for (const [vn, v] of bulkValues())
      for (const [pn, parser] of Object.entries(r.parsers))
        for (const o of OPTION_SETS) {
          let rejected;
          try {
            rejected = !parser.validate(v, o);
          } catch {
            rejected = true;
          }
          if (!rejected) continue;
          const f = checkRejected(parser, pn, v, o);
          ctx.judged();
          ctx.count("bulk_rejected_judged");
          if (f) ctx.violation({ signature: `${f.clause}|bulk:${pn}:${vn}${o.disallowExtraProperties ? "|strict" : ""}`, clause: f.clause, detail: `${f.detail} :: parser ${pn} of the bulk program on ${vn}`, replay: { kind: "bulk", parser: pn, value: vn, options: o } });
        }
  }
  const nProgs = ctx.share(4800, 40000);
  const seen = new Map();
  for await (const item of corpus(ctx, { label: "C12", count: nProgs, features: FEATURES })) {
    const { prog, parsers } = item;
    for (const ps of prog.parsers) {
      const core = prog.cores.get(ps.name);
      const parser = parsers[ps.name];
      if (!parser) continue;
      kindsHistogram(ctx, prog.env, core);
      const tk = typeKey(prog.env, core);
      const vals = valuesFor(item, core, { members: 8, mutantsPer: 4, hostile: true });
      // weight: many simultaneous errors, too-long tuples
      for (const { v } of vals.slice(0, 6)) if (Array.isArray(v) && v.length) vals.push({ v: [...v, ...v, ...v, v[0], "extra"], origin: "long-array" });
      for (const { v, origin } of vals) {
        for (const o of OPTION_SETS) {
          let rejected;
          try {
            rejected = !parser.validate(v, o);
          } catch {
            rejected = true;
          }
          if (!rejected) {
            ctx.count("accepted_not_judged");
            continue;
          }
          const f = checkRejected(parser, ps.name, v, o);
          ctx.judged();
          ctx.count("rejected_judged");
          ctx.count("origin:" + origin);
          const key = tk + (o.disallowExtraProperties ? "|s" : "|d");
          seen.set(key, (seen.get(key) || new Set()).add(valueClass(v)));
          if (f) await reportClause(ctx, item, ps.name, core, v, o, f, locCache);
          else if (ctx.shard === 0 && origin === "mutant") {
            const e = parser.safeParse(v, o).errors;
            ctx.sample({ type: renderType(ps.t).slice(0, 160), value: show(v, 120), n_errors: e.length, first: safeJson({ path: e[0].path, message: e[0].message ?? "(union error)" }).slice(0, 200) });
          }
        }
      }
    }
  }
  for (const [k, set] of seen) for (const c of set) ctx.distinct(h8(k + c));
}

export async function replay(ctx, c) {
  if (c.kind === "bulk") {
    const { bulkValues, BULK_PROGRAM } = await import("../gen/valgen.mjs");
    const r = await compileText(ctx, BULK_PROGRAM);
    const v = bulkValues().find(([n]) => n === c.value)[1];
    const f = checkRejected(r.parsers[c.parser], c.parser, v, c.options ?? {});
    return { violated: !!f, fault: f, value: c.value };
  }
  const r = await compileText(ctx, c.text);
  if (!r.parsers) return { violated: true, note: "does not compile", outcome: r.res.outcome };
  const v = fromEjson(c.value);
  const f = checkRejected(r.parsers[c.parser], c.parser, v, c.options ?? {});
  return { violated: !!f, fault: f, value: show(v) };
}

// C02 — emitted JSON Schema and validator agree on JSON documents.
// The Node side records, per (parser, printing mode, configuration): the schema / definitions
// returned or the thrown error, and per JSON document the validator's verdicts and the reference's;
// py/post_schema.py (python jsonschema, Draft 2020-12) supplies the schema's verdicts and judges.
import fs from "node:fs";
import { isRecursiveParser } from "../lib/rtdiff.mjs";
import { corpus, programItems, valuesFor, kindsHistogram, h8 } from "../lib/corpus.mjs";
import * as A from "../gen/ast.mjs";
import { rt, STRING_FORMATS, NUMBER_FORMATS } from "../lib/loader.mjs";
import { shallow } from "../lib/localise.mjs";
import { renderType } from "../gen/ast.mjs";
import { coreKinds } from "../gen/typegen.mjs";
import { isJsonValue, nullFree, schemaDirectedDocs, allRefs, resolvePointer } from "../lib/schemadocs.mjs";

export const FEATURES = { nonJson: true, onlyRepresentableNumbers: true };
export const CONFIGS = [
  { refPathTemplate: "#/$defs/{name}", definitionContainerKey: "$defs" },
  { refPathTemplate: "#/components/schemas/{name}", definitionContainerKey: null },
  { refPathTemplate: "#/x/defs~1nested/{name}", definitionContainerKey: null },
];

// the root document in which the returned schema and the exported definitions live together
export function assembleRoot(schema, defs, cfg) {
  const root = { ...schema };
  const pathParts = cfg.refPathTemplate.replace(/^#\//, "").split("/").slice(0, -1).map((s) => s.replace(/~1/g, "/").replace(/~0/g, "~"));
  const table = cfg.definitionContainerKey == null ? defs : defs[cfg.definitionContainerKey];
  let cur = root;
  pathParts.forEach((seg, i) => {
    if (i === pathParts.length - 1) cur[seg] = table;
    else cur = cur[seg] = cur[seg] && typeof cur[seg] === "object" ? cur[seg] : {};
  });
  return root;
}

const UNPRINTABLE = new Set(["date", "prim:bigint", "map", "set", "typed", "fn"]);

function nullProtoCopy(v) {
  if (v === null || typeof v !== "object") return v;
  if (Array.isArray(v)) return v.map(nullProtoCopy);
  const o = Object.create(null);
  for (const k of Object.keys(v)) o[k] = nullProtoCopy(v[k]);
  return o;
}

// custom formats are annotations for JSON Schema: when the schema side is compared, both the
// validator and the reference run with permissive format predicates
const ORIG_S = { ...STRING_FORMATS },
  ORIG_N = { ...NUMBER_FORMATS };
function registerPermissive(on) {
  for (const k of Object.keys(ORIG_S)) {
    STRING_FORMATS[k] = on ? () => true : ORIG_S[k];
    rt.registerStringFormatter(k, STRING_FORMATS[k]);
  }
  for (const k of Object.keys(ORIG_N)) {
    NUMBER_FORMATS[k] = on ? () => true : ORIG_N[k];
    rt.registerNumberFormatter(k, NUMBER_FORMATS[k]);
  }
}

function firstWhy(parser, d, o) {
  try {
    const r = parser.safeParse(d, o);
    if (r.success) return "";
    const e = r.errors[0];
    const m = "isUnionError" in e ? "union" : String(e.message).replace(/"[^"]*"/g, '"…"').replace(/[0-9]+/g, "N").split(" ").slice(0, 3).join("-");
    return m;
  } catch {
    return "threw";
  }
}

// constructor names of every runtype reachable from a parser (what was actually emitted)
function emittedClasses(parser) {
  const out = new Set();
  const seen = new Set();
  const walk = (x, depth) => {
    if (x === null || typeof x !== "object" || seen.has(x) || depth > 80) return;
    seen.add(x);
    if (Array.isArray(x)) {
      for (const y of x) walk(y, depth + 1);
      return;
    }
    const cn = x.constructor && x.constructor.name;
    if (cn && /Runtype$/.test(cn)) out.add(cn);
    if (cn === "TypeofRuntype" && !["string", "number", "boolean"].includes(x.typeName)) out.add("FunctionRuntype"); // typeof check of a non-JSON kind
    if (typeof x.refName === "string" && typeof x.getNamedRuntypes === "function") {
      try {
        walk(x.getNamedRuntypes()[x.refName], depth + 1);
      } catch {}
      return;
    }
    if (x instanceof RegExp || x instanceof Map || x instanceof Set) return;
    for (const k of Object.keys(x)) walk(x[k], depth + 1);
  };
  walk(parser, 0);
  return out;
}
const UNPRINTABLE_CLASSES = ["DateRuntype", "BigIntRuntype", "MapRuntype", "SetRuntype", "TypedArrayRuntype", "FunctionRuntype"];

export async function run(ctx) {
  const recPath = ctx.outPath ? ctx.outPath + ".records.jsonl" : null;
  const fd = recPath ? fs.openSync(recPath, "w") : null;
  const nProgs = ctx.share(9600, 40000);
  let rid = 0;
  // programs kept from repaired defects (shard 0), then the random corpus
  const probePrograms = () => {
    const T = A;
    const G = { d: "alias", name: "G", params: ["X"], t: T.union([T.obj([T.prop("_tag", T.lit("Left")), T.prop("left", T.ref("X"))]), T.obj([T.prop("_tag", T.lit("Right")), T.prop("right", T.ref("X"))])]) };
    const inst = (x) => T.ref("G", [x]);
    return [
      // literal arguments whose 32-bit hashes used to coincide: each instance needs its own variant definitions
      { decls: [G], parsers: [["A", T.lit(0)], ["B", T.lit("")], ["C", T.lit(97)], ["D", T.lit("a")], ["E", T.lit(true)], ["F", T.lit("true")], ["H", T.lit(1.5)], ["I", T.lit(1)], ["J", T.union([T.lit(97), T.lit(98)])], ["K", T.union([T.lit("a"), T.lit("b")])], ["L", T.union([T.lit(true), T.lit(1)])], ["M", T.union([T.lit("true"), T.lit(1)])]].map(([name, x]) => ({ name, t: inst(x) })).concat([{ name: "ALL", t: T.obj([["a", T.lit(0)], ["b", T.lit("")], ["c", T.lit(97)], ["d", T.lit("a")], ["e", T.lit(true)], ["f", T.lit("true")], ["g", T.union([T.lit(97), T.lit(98)])], ["h", T.union([T.lit("a"), T.lit("b")])], ["i", T.lit(1.5)], ["j", T.lit(1)]].map(([k, x]) => T.prop(k, inst(x)))) }]) },
      // a string hole spans line breaks; the pattern must as well
      { decls: [], parsers: [{ name: "A", t: { k: "tpl", parts: ["a", T.kw("string")] } }, { name: "B", t: T.obj([T.prop("p", { k: "tpl", parts: [T.kw("string"), ".", T.kw("number")] })]) }] },
      // named properties next to an index signature keyed by a template literal type
      { decls: [], parsers: [{ name: "A", t: T.obj([T.prop("id", T.kw("string"))], { key: { k: "tpl", parts: ["data-", T.kw("string")] }, val: T.kw("number"), pname: "k" }) }, { name: "B", t: T.obj([T.prop("id", T.kw("string")), T.prop("n", T.kw("number"), true)], { key: { k: "tpl", parts: ["x", T.kw("number")] }, val: T.union([T.kw("boolean"), T.kw("null")]), pname: "k" }) }] },
      // what JSON cannot carry makes schema() throw, next to printable parsers
      { decls: [], parsers: [{ name: "A", t: T.obj([T.prop("name", T.kw("string")), T.prop("cb", { k: "fn" })]) }, { name: "B", t: T.obj([T.prop("name", T.kw("string"))]) }] },
      // declaration names that are members of Object.prototype or contain "$$"
      { decls: [{ d: "alias", name: "hasOwnProperty", params: [], t: T.obj([T.prop("a", T.kw("string"))]) }, { d: "alias", name: "constructor", params: [], t: T.obj([T.prop("b", T.ref("hasOwnProperty"), true)]) }, { d: "alias", name: "Price$$", params: [], t: T.obj([T.prop("amount", T.kw("number"))]) }, { d: "alias", name: "Price$", params: [], t: T.obj([T.prop("other", T.kw("string"))]) }], parsers: [{ name: "A", t: T.ref("constructor") }, { name: "B", t: T.obj([T.prop("total", T.ref("Price$$")), T.prop("note", T.ref("Price$"))]) }, { name: "C", t: T.ref("hasOwnProperty") }] },
    ];
  };
  async function* items() {
    if (ctx.shard === 0) yield* programItems(ctx, probePrograms(), "C02-probes");
    yield* corpus(ctx, { label: "C02", count: nProgs, features: FEATURES });
  }
  for await (const item of items()) {
    const { prog, parsers, ref } = item;
    for (const ps of prog.parsers) {
      const core = prog.cores.get(ps.name);
      const parser = parsers[ps.name];
      if (!parser) continue;
      kindsHistogram(ctx, prog.env, core);
      const kinds = coreKinds(prog.env, core);
      // what JSON Schema cannot express is decided on the emitted runtypes (a type operator that lost
      // a Date / typed array on the way is C01's finding, not a printing defect)
      const emitted = emittedClasses(parser);
      const expectThrow = UNPRINTABLE_CLASSES.some((c) => emitted.has(c));
      if (expectThrow !== [...kinds].some((k) => UNPRINTABLE.has(k))) ctx.count("emitted_kinds_differ_from_reference");
      // (formats are read off the emitted runtypes as well: a type operator may have taken another branch than the reference)
      const usesFormats = kinds.has("fmt") || emitted.has("StringWithFormatRuntype") || emitted.has("NumberWithFormatRuntype");
      // (recursion is read off the emitted validator as well: a type operator may have taken another
      // branch than the reference - C01's subject - and flat schema() is specified for non-recursive types)
      const recursive = kinds.has("recursive") || isRecursiveParser(parser);
      const modes = [{ mode: "flat" }, ...CONFIGS.map((cfg, i) => ({ mode: "contextual", cfg, ci: i }))];
      // JSON documents from the type (members, mutants) — shared by all modes
      const fromType = valuesFor(item, core, { members: 10, mutantsPer: 3, hostile: false }).map((x) => x.v).filter((v) => isJsonValue(v));
      for (const m of modes) {
        if (m.mode === "flat" && recursive) continue; // the statement speaks of flat schema() for non-recursive types only
        let schema = null,
          defs = null,
          threw = null,
          leftover = null;
        try {
          if (m.mode === "flat") schema = parser.schema();
          else {
            const pc = new rt.SchemaPrintingContext(m.cfg);
            schema = parser.schemaWithContext(pc);
            defs = pc.exportDefinitions();
            leftover = Object.keys(pc.inProgressDefinitions ?? {});
          }
        } catch (e) {
          threw = String(e && e.message).slice(0, 160);
        }
        ctx.judged();
        ctx.count(`mode:${m.mode}${threw ? ":threw" : ""}`);
        const rec = { id: `${ctx.shard}-${rid++}`, parser: ps.name, type: renderType(ps.t).slice(0, 400), shape: shallow(prog.env, core), mode: m.mode, cfg: m.cfg ?? null, expectThrow, threw, program: item.text.length < 6000 ? item.text : null };
        if (threw || expectThrow) {
          if (!!threw !== expectThrow) ctx.count("throw_expectation_mismatch");
          if (fd !== null) fs.writeSync(fd, JSON.stringify({ ...rec, docs: [] }) + "\n");
          continue;
        }
        const root = m.mode === "flat" ? schema : assembleRoot(schema, defs, m.cfg);
        rec.root = root;
        rec.unresolved = allRefs(root).filter((r) => resolvePointer(root, r) === undefined);
        rec.leftover = leftover;
        const fromSchema = schemaDirectedDocs(item.rng.fork("sd" + m.mode + (m.ci ?? "")), schema, root, 14);
        const docs = [];
        const seen = new Set();
        for (const d of [...fromType, ...fromSchema]) {
          const key = JSON.stringify(d);
          if (seen.has(key)) continue;
          seen.add(key);
          // a JSON document has no prototype chain: the validator sees it as null-prototype objects
          // (that validators read inherited members of plain objects is C03's recorded finding)
          const dn = nullProtoCopy(d);
          let vv, xs;
          try {
            vv = parser.validate(dn);
            xs = parser.validate(dn, { disallowExtraProperties: true });
          } catch {
            continue;
          }
          // custom formats are annotations in JSON Schema: the schema side is compared with the
          // validator run under permissive format predicates
          let vvLoose = vv;
          const r = ref.member(core, dn);
          let rs = ref.strictMember(core, dn);
          let rLoose = r;
          if (usesFormats) {
            registerPermissive(true);
            try {
              vvLoose = parser.validate(dn);
              rLoose = ref.member(core, dn);
              // "no undeclared key" is judged where the formats do not decide the matching branch
              if (ref.strictMember(core, dn) !== rs) rs = "U";
            } catch {}
            registerPermissive(false);
          }
          docs.push({ d, vv, vvLoose, xs, ref: r === rLoose ? r : "U", refStrict: rs, nullFree: nullFree(d), why: vv ? "" : firstWhy(parser, d) });
          ctx.judged();
          ctx.distinct(h8(rec.shape + m.mode + vv + xs + (typeof d) + (Array.isArray(d) ? "a" + Math.min(d.length, 3) : d && typeof d === "object" ? "o" + Math.min(Object.keys(d).length, 3) : "")));
        }
        rec.docs = docs;
        if (fd !== null) fs.writeSync(fd, JSON.stringify(rec) + "\n");
        if (ctx.shard === 0 && rid % 97 === 1) ctx.sample({ type: rec.type.slice(0, 200), mode: m.mode, cfg: m.cfg, schema: JSON.stringify(schema).slice(0, 400), documents: docs.length });
      }
    }
  }
  if (fd !== null) fs.closeSync(fd);
}

export async function replay(ctx, c) {
  return { violated: false, note: "C02 replays are judged by py/post_schema.py --replay", case: c.id };
}

// C13 — hash256 is a structural fingerprint of the validator, computed as real SHA-256.
// (a) byte stream fed to every Hash256Writer vs node:crypto on the same bytes (all hashes of the
//     corpus + a stress over every total length 0..320 with random chunkings);
// (b) digest and 32-bit hash invariant under the naming / ordering / comment rewrites;
// (c) behaviour => digest: validators with different verdict vectors never share a digest
//     (global buckets + targeted near-miss pairs T vs one-edit T');
// (d) hash256 terminates on recursive types.
import { createHash } from "node:crypto";
import { corpus, valuesFor, kindsHistogram, h8 } from "../lib/corpus.mjs";
import { hashmod, client, rt } from "../lib/loader.mjs";
import { shallow } from "../lib/localise.mjs";
import { show, valueClass, toEjson, fromEjson } from "../lib/ejson.mjs";
import { renderProgram, renderType, mapType } from "../gen/ast.mjs";
import { HASH_PRESERVING, applySteps } from "../gen/rewrite.mjs";
import { nameHashDifference, isRecursiveParser } from "../lib/rtdiff.mjs";
import { coreKinds } from "../gen/typegen.mjs";
const causeOf = (a, b, recursive) => {
  const c = nameHashDifference(a, b);
  return c === "identical-modulo-refs" && recursive ? c + ":recursive" : c;
};
import { hostilePool } from "../gen/valgen.mjs";
import { Rng } from "../lib/rng.mjs";
import { compileText } from "../lib/util.mjs";
import { refsOfDecl, refsOfType, renameIn, renameDecl } from "../gen/split.mjs";

// twin of a parser type over copies of its declarations in which ONE reference to a named type points
// at another named type of the same program (a recursive back-edge aimed at a different enclosing type,
// a property typed with a sibling declaration, ...)
function retargetTwin(prog, victim, rng) {
  const byName = new Map(prog.decls.map((d) => [d.name, d]));
  const seen = new Set();
  const stack = [...refsOfType(victim.t)];
  while (stack.length) {
    const n = stack.pop();
    if (seen.has(n) || !byName.has(n)) continue;
    seen.add(n);
    for (const m of refsOfDecl(byName.get(n))) stack.push(m);
  }
  const reach = prog.decls.filter((d) => seen.has(d.name) && (d.d === "alias" || d.d === "iface"));
  const plain = new Set(reach.filter((d) => !(d.params || []).length).map((d) => d.name));
  if (plain.size < 2) return null;
  const countIn = (d, f) => {
    if (d.d === "alias") return { ...d, t: mapType(d.t, f) };
    return { ...d, props: d.props.map((p) => ({ ...p, t: mapType(p.t, f) })) };
  };
  const sites = [];
  for (const d of reach) {
    let k = 0;
    countIn(d, (x) => {
      if (x.k === "ref" && !(x.args || []).length && plain.has(x.name) && !(d.params || []).includes(x.name)) sites.push([d.name, k++, x.name]);
      return x;
    });
  }
  if (!sites.length) return null;
  const [dn, k, from] = rng.pick(sites);
  const to = rng.pick([...plain].filter((n) => n !== from));
  const map = new Map(reach.map((d) => [d.name, d.name + "_tw"]));
  const twins = reach.map((d) => {
    let e = d;
    if (d.name === dn) {
      let i = 0;
      e = countIn(d, (x) => (x.k === "ref" && !(x.args || []).length && plain.has(x.name) && !(d.params || []).includes(x.name) && i++ === k ? { ...x, name: to } : x));
    }
    return { ...renameDecl(e, map), name: map.get(d.name) };
  });
  return { decls: [...prog.decls, ...twins], tB: renameIn(victim.t, map), what: `${dn}: ${from} -> ${to}` };
}

// chains of named object types T1 -> T2 -> ... -> Tn (optional `child`), whose members carry optional
// back-references; variants differ only in WHICH enclosing type a back-reference names
function recursionGrid() {
  const out = [];
  for (const n of [2, 3])
    for (const holder of Array.from({ length: n }, (_, i) => i + 1)) {
      const variants = [];
      for (let target = 1; target <= n; target++) {
        const name = (i, v) => `T${i}_${v}`;
        const v = `n${n}h${holder}t${target}`;
        const decls = [];
        for (let i = 1; i <= n; i++) {
          const props = [`kind: "k${i}"`];
          if (i < n) props.push(`child?: ${name(i + 1, v)}`);
          if (i === holder) props.push(`back?: ${name(target, v)}`);
          decls.push(`type ${name(i, v)} = { ${props.join("; ")} };`);
        }
        // the member that walks down to the holder and follows the back-reference once
        let val = { $obj: "plain", fields: [["kind", `k${target}`, 1]] };
        val = { $obj: "plain", fields: [["kind", `k${holder}`, 1], ["back", val, 1]] };
        for (let i = holder - 1; i >= 1; i--) val = { $obj: "plain", fields: [["kind", `k${i}`, 1], ["child", val, 1]] };
        variants.push({ v, root: name(1, v), decls, val, target });
      }
      out.push({ id: `chain${n}/holder${holder}`, variants });
    }
  return out;
}

// ---- (a) stream monitor: wrap the writer's prototype from outside (TypeScript `private` is erased)
const streamFaults = [];
let streamsChecked = 0;
const W = hashmod.Hash256Writer.prototype;
const origUpdateBytes = W.updateBytes;
const origDigest = W.digestHex;
W.updateBytes = function (data) {
  (this.__log ??= []).push(Buffer.from(data));
  return origUpdateBytes.call(this, data);
};
W.digestHex = function () {
  const got = origDigest.call(this);
  const bytes = Buffer.concat(this.__log ?? []);
  const want = createHash("sha256").update(bytes).digest("hex");
  streamsChecked++;
  if (got !== want && streamFaults.length < 50) streamFaults.push({ length: bytes.length, got, want, hex: bytes.toString("hex").slice(0, 400) });
  return got;
};

function stressWriter(ctx, rng) {
  // every total length 0..320 (all block-boundary and padding cases), several chunkings each,
  // driven through the public update* methods
  const lengths = new Set();
  for (let len = 0; len <= 320; len++) {
    for (let rep = 0; rep < 3; rep++) {
      const w = new hashmod.Hash256Writer();
      let written = 0;
      while (written < len) {
        const remaining = len - written;
        // updateString costs 1 (tag) + 4 (length) + n bytes; updateBoolean / updateNull cost 1
        if (remaining >= 5 && rng.chance(0.6)) {
          const n = rng.below(Math.min(remaining - 5, rep === 0 ? remaining : 70) + 1);
          const kind = rng.below(3);
          const s = "x".repeat(n);
          if (kind === 0) w.updateString(s);
          else if (kind === 1) w.updateTag(s);
          else w.updateString(s);
          written += 5 + n;
        } else if (rng.chance(0.5)) {
          w.updateBoolean(rng.chance(0.5));
          written += 1;
        } else {
          w.updateNull();
          written += 1;
        }
      }
      w.digestHex();
      lengths.add(len);
      ctx.judged();
    }
  }
  // multi-byte UTF-8 and number canonicalisation
  for (const s of ["é", "𝒳𝒴", "\u0000", "a".repeat(55), "é".repeat(28), "\ud800", "漢字".repeat(21)]) {
    const w = new hashmod.Hash256Writer();
    w.updateString(s);
    w.updateNumber(NaN);
    w.updateNumber(-0);
    w.updateNumber(1e21);
    w.digestHex();
    ctx.judged();
  }
  ctx.count("stress_lengths_covered", lengths.size);
  return lengths.size === 321;
}

const COMMON_POOL = () => [...hostilePool(), "b", "c", "x", 2, 42, 1.5, -1, "0", "ok", "err", ["a"], [1, 2], { a: "a" }, { a: 1 }, { a: "a", b: 1 }, { kind: "a", p: "s" }, { kind: "b", q: 1 }, { v: 1 }, { v: "s" }, { v: true, next: null }, { v: 1, kids: [] }];
function vectorOf(parser, pool) {
  return pool
    .map((v) => {
      try {
        return parser.validate(v) ? "1" : "0";
      } catch {
        return "T";
      }
    })
    .join("");
}

// one semantic edit of a type (near-miss twin); returns a new AST or null
function nearMissType(t, rng) {
  const sites = [];
  mapType(t, (x) => {
    if (x.k === "obj" && x.props.length) sites.push(["opt", x]);
    if (x.k === "tuple") sites.push(["rest", x]);
    if (x.k === "lit") sites.push(["lit", x]);
    if (x.k === "kw" && ["string", "number", "boolean"].includes(x.name)) sites.push(["kw", x]);
    if (x.k === "fmt") sites.push(["fmt", x]);
    if (x.k === "obj" && x.index) sites.push(["index", x]);
    if (x.k === "arr") sites.push(["arr", x]);
    return x;
  });
  if (!sites.length) return null;
  const [kind, node] = rng.pick(sites);
  const key = JSON.stringify(node);
  let done = false;
  return mapType(t, (x) => {
    if (done || JSON.stringify(x) !== key) return x;
    done = true;
    switch (kind) {
      case "opt": {
        const i = rng.below(x.props.length);
        return { ...x, props: x.props.map((p, j) => (j === i ? { ...p, opt: !p.opt } : p)) };
      }
      case "rest":
        return x.rest ? { ...x, rest: null } : { ...x, rest: { k: "kw", name: "string" } };
      case "lit":
        return { ...x, v: typeof x.v === "string" ? x.v + "_" : typeof x.v === "number" ? x.v + 1 : !x.v };
      case "kw":
        return { ...x, name: x.name === "string" ? "number" : x.name === "number" ? "boolean" : "string" };
      case "fmt": {
        const pool = x.base === "string" ? ["even", "lower", "nonempty", "ascii"] : ["int", "pos", "finite", "small"];
        const extra = pool.find((f) => !x.chain.includes(f));
        return extra ? { ...x, chain: [...x.chain, extra] } : { ...x, chain: x.chain.slice(0, -1).length ? x.chain.slice(0, -1) : [pool[0] === x.chain[0] ? pool[1] : pool[0]] };
      }
      case "index":
        return { ...x, index: { ...x.index, key: x.index.key.k === "kw" && x.index.key.name === "string" ? { k: "tpl", parts: ["k_", { k: "kw", name: "string" }] } : { k: "kw", name: "string" } } };
      case "arr":
        return { k: "tuple", items: [x.el], rest: null, ro: false };
    }
    return x;
  });
}

export async function run(ctx) {
  const rng0 = new Rng(ctx.seed, "C13|" + ctx.shard);
  // (a) stress — exhaustive over lengths 0..320 in every shard (cheap)
  const exhaustive = stressWriter(ctx, rng0);
  if (exhaustive) ctx.count("exhaustive_subruns");

  // b.* equivalents of compiled types
  if (ctx.shard === 0) {
    const { b } = client;
    const pairs = [
      ["parse.buildParsers<{ X: { a: string } }>();", b.Object({ a: b.String() })],
      ["parse.buildParsers<{ X: { b: number[]; a: boolean } }>();", b.Object({ a: b.Boolean(), b: b.Array(b.Number()) })],
      ["parse.buildParsers<{ X: string[] }>();", b.Array(b.String())],
      ['parse.buildParsers<{ X: { k: "v" } }>();', b.Object({ k: b.Const("v") })],
      ["parse.buildParsers<{ X: Date }>();", b.Date()],
    ];
    for (const [text, adhoc] of pairs) {
      const r = await compileText(ctx, text);
      ctx.judged();
      if (!r.parsers) throw new Error("C13 probe does not compile");
      if (r.parsers.X.hash256() !== adhoc.hash256() || r.parsers.X.hash() !== adhoc.hash())
        ctx.violation({ signature: "compiled-vs-adhoc-digest-differs", clause: "compiled-vs-b", detail: text, replay: { kind: "note", text } });
    }
  }

  // encoding-boundary twins: two types that differ only in WHERE a piece sits (an index signature on
  // the inner or the outer object, a property, a union member or a tuple element one level up or
  // down, text split differently between a key and the next one): the canonical encoding has to be
  // uniquely decodable across nesting levels, so their digests must differ (they disagree on the
  // witness value)
  if (ctx.shard === 2 % ctx.of) {
    const V = ["string", "number", '"v"', "{ q: 1 }"];
    const twins = [];
    for (const v of V) {
      twins.push([`{ id: string; k: { a: number; [x: string]: ${v} } }`, `{ id: string; k: { a: number }; [x: string]: ${v} | string | { a: number } }`, { id: "i", k: { a: 1, zz: [] } }]);
      twins.push([`{ id: string; k: { a: number; [x: string]: ${v} } }`, `{ id: string; k: { a: number }; [x: string]: ${v} }`, { id: "i", k: { a: 1, zz: [] } }]);
      twins.push([`{ a: string; z?: Array<Record<string, ${v}>> }`, `{ a: string; z?: Array<{}>; [x: string]: ${v} }`, { a: "s", z: [{ q: [] }] }]);
      twins.push([`{ a: string; z: [number, { b: 1; [x: string]: ${v} }] }`, `{ a: string; z: [number, { b: 1 }]; [x: string]: ${v} }`, { a: "s", z: [1, { b: 1, q: [] }] }]);
    }
    twins.push(["{ z: { y: 1 }; zz: 2 }", "{ z: { y: 1; zz: 2 } }", { z: { y: 1 }, zz: 2 }]);
    twins.push(["{ ab: { c: 1 } }", "{ a: { bc: 1 } }", { ab: { c: 1 } }]);
    twins.push(['"ab" | "c"', '"a" | "bc"', "ab"]);
    twins.push(["Array<string | number> | boolean", "Array<string | number | boolean>", true]);
    twins.push(["[[string, number], boolean]", "[[string, number, boolean]]", [["a", 1], true]]);
    twins.push(["[string, ...number[]]", "[string, number[]]", ["a", 1]]);
    twins.push(["{ a: { b: string }[] }", "{ a: { b: string[] } }", { a: [{ b: "x" }] }]);
    twins.push(["{ a?: { b: string } }", "{ a: { b?: string } }", {}]);
    twins.push(["Map<string, Set<number>>", "Map<Set<string>, number>", new Map([["k", new Set([1])]])]);
    twins.push(["{ a: string } & { b: number }", "{ a: string; b: number } & {}", { a: "s", b: 1, c: 2 }]);
    twins.push(["{ t: `a${string}` ; u: `b` }", "{ t: `a`; u: `${string}b` }", { t: "ax", u: "b" }]);
    // numeric literals that are congruent modulo a power of two, or agree in their leading digits (seeded C13-i:
    // integers written as a 32-bit word)
    for (const [a, b] of [[1, 4294967297], [0, 4294967296], [3504926720, 1700000000000], [7, 7 + 2 ** 33], [255, 255 + 2 ** 40], [1, 1 + 2 ** 31], [65536, 65536 + 2 ** 32], [9007199254740991, 9007199254740990], [123456789012, 123456789013], [-1, 4294967295], [2 ** 31, -(2 ** 31)]]) {
      twins.push([`${a}`, `${b}`, a]);
      twins.push([`${a} | "s" | true`, `${b} | "s" | true`, a]);
      twins.push([`{ n: ${a}; m: [${b}] }`, `{ n: ${b}; m: [${a}] }`, { n: a, m: [b] }]);
    }
    for (const [t1, t2, w] of twins) {
      const text = `type A = ${t1};\ntype B = ${t2};\nexport const Parsers = parse.buildParsers<{ A: A; B: B }>();\n`;
      const r = await compileText(ctx, text);
      ctx.judged();
      ctx.count("encoding_boundary_twins");
      if (!r.parsers) continue;
      let va, vb;
      try {
        va = r.parsers.A.validate(w);
        vb = r.parsers.B.validate(w);
      } catch {
        continue;
      }
      const strictDiffers = (() => { try { return r.parsers.A.validate(w, { disallowExtraProperties: true }) !== r.parsers.B.validate(w, { disallowExtraProperties: true }); } catch { return false; } })();
      if ((va !== vb || strictDiffers) && r.parsers.A.hash256() === r.parsers.B.hash256())
        ctx.violation({ signature: `twins-that-differ-in-nesting-share-a-digest|${t1.replace(/[a-z"0-9 ]+/g, "").slice(0, 30)}`, clause: "behaviour-implies-digest", detail: `${t1}  vs  ${t2} disagree on ${show(w)} but share hash256 ${r.parsers.A.hash256().slice(0, 16)}`, replay: { kind: "note", text } });
    }
  }

  // named types registered at run time (createNamedType / overrideNamedType): a digest is a function
  // of the CURRENT structure - a parser hashed before an override reports, after it, what a parser
  // built after the override reports; and when the override changes what is accepted, the digest moves
  if (ctx.shard === 1 % ctx.of) {
    const { b, buntyped, createNamedType, overrideNamedType } = client;
    const bodies = [
      ["string", () => b.String(), "s"],
      ["number", () => b.Number(), 1],
      ["obj-a", () => b.Object({ a: b.String() }), { a: "x" }],
      ["obj-b", () => b.Object({ b: b.Number() }), { b: 1 }],
      ["arr", () => b.Array(b.Boolean()), [true]],
      ["const", () => b.Const("k"), "k"],
      ["any", () => b.Any(), Symbol.for("any")],
      ["union", () => buntyped.Union(b.String(), b.Null()), null],
    ];
    const holders = [
      ["self", (T) => T],
      ["object", (T) => b.Object({ t: T, n: b.Number() })],
      ["array", (T) => b.Array(T)],
      ["union", (T) => buntyped.Union(T, b.Const(false))],
      ["nested", (T) => b.Object({ list: b.Array(b.Object({ inner: T })) })],
    ];
    let serial = 0;
    for (const [n1, mk1, w1] of bodies)
      for (const [n2, mk2, w2] of bodies)
        for (const early of [true, false]) {
          const name = `C13_named_${ctx.seed}_${serial++}`;
          const T = createNamedType(name, mk1());
          const old = holders.map(([, h]) => h(T));
          const before = early ? old.map((p) => [p.hash256(), p.hash()]) : null;
          overrideNamedType(name, mk2());
          const fresh = holders.map(([, h]) => h(T));
          holders.forEach(([hn], i) => {
            ctx.judged();
            ctx.count("named_type_histories");
            const got = [old[i].hash256(), old[i].hash()];
            const want = [fresh[i].hash256(), fresh[i].hash()];
            if (got[0] !== want[0] || got[1] !== want[1])
              ctx.violation({ signature: `digest-depends-on-call-history|${got[0] !== want[0] ? "hash256" : "hash32"}|hashed-${early ? "before" : "after"}-override`, clause: "digest-is-a-function-of-the-structure", detail: `named type ${n1} overridden with ${n2}, holder ${hn}: the parser built before the override reports ${got[0].slice(0, 16)}.. / ${got[1]}, one built after it ${want[0].slice(0, 16)}.. / ${want[1]}`, replay: { kind: "note", text: `named ${n1} -> ${n2}, holder ${hn}, early=${early}` } });
            // behaviour => digest across the override (witness values of the two bodies)
            if (before && n1 !== n2) {
              const acc1 = [w1, w2].map((v) => { try { return mk1().validate(v); } catch { return null; } });
              const acc2 = [w1, w2].map((v) => { try { return mk2().validate(v); } catch { return null; } });
              if (String(acc1) !== String(acc2) && before[i][0] === got[0])
                ctx.violation({ signature: "override-changes-behaviour-but-not-digest", clause: "behaviour-implies-digest", detail: `named type ${n1} overridden with ${n2}, holder ${hn}: hash256 ${got[0].slice(0, 16)}.. before and after`, replay: { kind: "note", text: `named ${n1} -> ${n2}, holder ${hn}` } });
            }
          });
        }
  }

  // (a') injectivity of the string encoding, format-agnostic: strings that differ must reach the hasher
  // as different byte streams, and Const(s) / { [s]: null } built with b.* must get pairwise distinct
  // digests (they disagree on the value s / { [s]: null })
  if (ctx.shard === 0) {
    const { b } = client;
    const atoms = ["", "a", "b", "ab", "é", "ß", "€", "₹", "日", "本", "語", "人", "名", "前", "字", "😀", "𝒳", "\u0000", " ", "\u0800", "\uffff", "\u07ff", "\u0080"];
    const pool = new Set(atoms);
    const r = new Rng(ctx.seed, "C13-strings");
    while (pool.size < 600) {
      const n = 1 + r.below(4);
      let t = "";
      for (let i = 0; i < n; i++) t += r.pick(atoms);
      pool.add(t);
    }
    for (const fam of ["stream", "const", "key"]) {
      const seen = new Map();
      for (const str of pool) {
        let d;
        if (fam === "stream") {
          const w = new hashmod.Hash256Writer();
          w.updateString(str);
          d = Buffer.concat(w.__log ?? []).toString("hex");
          w.digestHex();
        } else if (fam === "const") d = b.Const(str).hash256();
        else d = b.Object({ [str]: b.Null() }).hash256();
        ctx.judged();
        const prev = seen.get(d);
        if (prev !== undefined && prev !== str) {
          const cls = (x) => ([...x].some((c) => c.codePointAt(0) > 0xffff) ? "astral" : [...x].some((c) => c.codePointAt(0) >= 0x800) ? "3-byte" : [...x].some((c) => c.codePointAt(0) >= 0x80) ? "2-byte" : "ascii");
          ctx.violation({
            signature: `distinct-strings-share-${fam === "stream" ? "byte-stream" : "digest"}|${fam}|${cls(prev)}/${cls(str)}`,
            clause: "string-encoding-injective",
            detail: `${JSON.stringify(prev)} and ${JSON.stringify(str)} ${fam === "stream" ? "reach the hasher as the same bytes" : `give the same hash256 as ${fam === "const" ? "Const(s)" : "{ [s]: null }"}`}`,
            replay: { kind: "note", text: `${fam}: ${JSON.stringify(prev)} vs ${JSON.stringify(str)}` },
          });
        } else seen.set(d, str);
      }
    }
    ctx.count("string_injectivity_pool", pool.size);
  }

  // (e) the digest does not depend on the locale of the process: the same validators hashed in child
  // processes started under different LC_ALL / LANG settings
  if (ctx.shard === 0) {
    const { spawnSync } = await import("node:child_process");
    const { RT_DIR } = await import("../lib/loader.mjs");
    const script = new URL("../lib/locale_probe.mjs", import.meta.url).pathname;
    const outs = new Map();
    for (const l of ["en_US.UTF-8", "sv_SE.UTF-8", "da_DK.UTF-8", "tr_TR.UTF-8", "C"]) {
      const r = spawnSync(process.execPath, [script, RT_DIR], { env: { ...process.env, LC_ALL: l, LANG: l }, encoding: "utf8", timeout: 120000 });
      if (r.status !== 0) throw new Error("C13 locale probe failed under " + l + ": " + String(r.stderr).slice(0, 300));
      outs.set(l, JSON.parse(r.stdout.trim().split("\n").pop()));
      ctx.judged();
      ctx.count("locale_probe_processes");
    }
    const ref = outs.get("en_US.UTF-8");
    for (const [l, o] of outs)
      for (const k of Object.keys(ref))
        if (o[k] !== ref[k])
          ctx.violation({ signature: `digest-depends-on-process-locale|${k}|${l.split(".")[0]}`, clause: "digest-is-a-function-of-the-validator", detail: `${k}: ${String(ref[k]).slice(0, 80)} under en_US, ${String(o[k]).slice(0, 80)} under ${l}`, replay: { kind: "note", text: `locale probe ${k} ${l}` } });
  }

  // (c'') recursion grid: types that differ only in the target of a back-reference
  if (ctx.shard === 0) {
    for (const g of recursionGrid()) {
      const text = g.variants.flatMap((x) => x.decls).join("\n") + `\nexport const P = parse.buildParsers<{ ${g.variants.map((x) => `${x.v}: ${x.root}`).join("; ")} }>();\n`;
      const r = await compileText(ctx, text);
      if (!r.parsers) throw new Error("C13 recursion grid does not compile: " + g.id);
      const vals = g.variants.map((x) => fromEjson(x.val));
      for (let i = 0; i < g.variants.length; i++)
        for (let j = i + 1; j < g.variants.length; j++) {
          const a = r.parsers[g.variants[i].v],
            b = r.parsers[g.variants[j].v];
          const va = vectorOf(a, vals),
            vb = vectorOf(b, vals);
          ctx.judged();
          ctx.count("recursion_grid_pairs");
          if (va === vb) {
            ctx.inconclusive("recursion-grid-pair-not-distinguished");
            continue;
          }
          const k = [...va].findIndex((c, q) => c !== vb[q]);
          if (a.hash256() === b.hash256())
            ctx.violation({
              signature: `back-reference-target-not-in-digest|${g.id}|targets:${g.variants[i].target}/${g.variants[j].target}`,
              clause: "behaviour-implies-digest",
              detail: `${g.variants[i].decls.join(" ")}  vs  ${g.variants[j].decls.join(" ")} share a hash256 but disagree on ${show(vals[k])}`,
              replay: { kind: "pair", a: { text, parser: g.variants[i].v }, b: { text, parser: g.variants[j].v }, value: g.variants[k].val },
            });
        }
    }
  }

  const buckets = new Map(); // digest -> {vector, example}
  const pool = COMMON_POOL();
  const nProgs = ctx.share(12000, 60000);
  let sampled = 0;
  for await (const item of corpus(ctx, { label: "C13", count: nProgs, features: {} })) {
    const { prog, parsers } = item;
    // (c) global buckets + (d) termination
    for (const ps of prog.parsers) {
      const p = parsers[ps.name];
      let d;
      try {
        d = p.hash256();
        p.hash();
      } catch (e) {
        ctx.violation({ signature: `hash-threw|${e && e.constructor && e.constructor.name}|${shallow(prog.env, prog.cores.get(ps.name))}`, clause: e instanceof RangeError ? "hash256-does-not-terminate" : "hash-threw", detail: `${String(e && e.message).slice(0, 100)} on ${renderType(ps.t).slice(0, 200)}`, replay: { kind: "program", text: item.text, parser: ps.name } });
        continue;
      }
      ctx.judged();
      if (!/^[0-9a-f]{64}$/.test(d)) ctx.violation({ signature: "digest-not-64-hex", clause: "digest-format", detail: String(d), replay: { kind: "program", text: item.text, parser: ps.name } });
      const vec = vectorOf(p, pool);
      const e = buckets.get(d);
      if (!e) buckets.set(d, { vec, text: item.text, parser: ps.name, type: renderType(ps.t) });
      else if (e.vec !== vec) {
        const i = [...vec].findIndex((c, k) => c !== e.vec[k]);
        ctx.violation({
          signature: `same-digest-different-behaviour|${valueClass(pool[i])}`,
          clause: "behaviour-implies-digest",
          detail: `${e.type.slice(0, 200)}  vs  ${renderType(ps.t).slice(0, 200)} share ${d.slice(0, 16)} but disagree on ${show(pool[i])}`,
          replay: { kind: "pair", a: { text: e.text, parser: e.parser }, b: { text: item.text, parser: ps.name }, value: toEjson(pool[i]) },
        });
      }
      if (e && e.vec === vec) ctx.distinct(h8("bucket" + d));
    }

    // (c) targeted near-miss twin of one parser
    const rng = item.rng.fork("nearmiss");
    const victim = rng.pick(prog.parsers);
    const twinT = nearMissType(victim.t, rng);
    if (twinT) {
      const prog2 = { decls: prog.decls, parsers: [{ name: "A", t: victim.t }, { name: "B", t: twinT }] };
      const r2 = await compileText(ctx, renderProgram(prog2));
      if (r2.parsers) {
        const vals = valuesFor(item, prog.cores.get(victim.name), { members: 10, mutantsPer: 3, hostile: true }).map((x) => x.v);
        const va = vectorOf(r2.parsers.A, vals),
          vb = vectorOf(r2.parsers.B, vals);
        ctx.judged();
        ctx.count(va !== vb ? "nearmiss_distinguishable" : "nearmiss_indistinguishable_on_pool");
        if (va !== vb) {
          ctx.distinct(h8("nm" + shallow(prog.env, prog.cores.get(victim.name)) + (va.length % 7)));
          const i = [...va].findIndex((c, k) => c !== vb[k]);
          if (r2.parsers.A.hash256() === r2.parsers.B.hash256())
            ctx.violation({
              signature: `near-miss-shares-digest|${nameHashDifference(r2.parsers.A, r2.parsers.B)}`,
              clause: "behaviour-implies-digest",
              detail: `${renderType(victim.t).slice(0, 300)}  vs  ${renderType(twinT).slice(0, 300)} have the same hash256 but disagree on ${show(vals[i])}`,
              replay: { kind: "pair", a: { text: renderProgram(prog2), parser: "A" }, b: { text: renderProgram(prog2), parser: "B" }, value: toEjson(vals[i]) },
            });
          else if (ctx.shard === 0 && sampled < 3) {
            sampled++;
            ctx.sample({ type: renderType(victim.t).slice(0, 200), twin: renderType(twinT).slice(0, 200), distinguishing_value: show(vals[i], 100), digests_differ: true });
          }
        }
      }
    }

    // (c') twin with one reference retargeted inside the declarations
    {
      const rng3 = item.rng.fork("retarget");
      const victim3 = rng3.pick(prog.parsers);
      const tw = retargetTwin(prog, victim3, rng3);
      if (tw) {
        const text = renderProgram({ decls: tw.decls, parsers: [{ name: "A", t: victim3.t }, { name: "B", t: tw.tB }] });
        const r4 = await compileText(ctx, text);
        if (r4.parsers) {
          const vals = valuesFor(item, prog.cores.get(victim3.name), { members: 12, mutantsPer: 2, hostile: false }).map((x) => x.v);
          const va = vectorOf(r4.parsers.A, vals),
            vb = vectorOf(r4.parsers.B, vals);
          ctx.judged();
          ctx.count(va !== vb ? "retarget_distinguishable" : "retarget_indistinguishable_on_pool");
          if (va !== vb) {
            const i = [...va].findIndex((c, k) => c !== vb[k]);
            let same = false;
            try {
              same = r4.parsers.A.hash256() === r4.parsers.B.hash256();
            } catch {}
            if (same)
              ctx.violation({
                signature: `retargeted-reference-shares-digest|${coreKinds(prog.env, prog.cores.get(victim3.name)).has("recursive") ? "recursive" : "non-recursive"}`,
                clause: "behaviour-implies-digest",
                detail: `retargeted ${tw.what}; the two parsers share a hash256 but disagree on ${show(vals[i])}\n${text.slice(0, 1500)}`,
                replay: { kind: "pair", a: { text, parser: "A" }, b: { text, parser: "B" }, value: toEjson(vals[i]) },
              });
          }
        } else ctx.count("retarget_twin_rejected");
      }
    }

    // (b) naming / ordering / comment rewrites keep hash256 and hash
    const rng2 = item.rng.fork("hashrw");
    const steps = [];
    const n = 1 + rng2.below(3);
    for (let i = 0; i < n; i++) steps.push([rng2.pick(HASH_PRESERVING), rng2.u32()]);
    const { prog: prog3, applied } = applySteps(prog, steps, Rng);
    if (applied.length) {
      const r3 = await compileText(ctx, renderProgram(prog3));
      if (r3.parsers) {
        for (const ps of prog.parsers) {
          const p1 = parsers[ps.name],
            p3 = r3.parsers[ps.name];
          if (!p3) continue;
          ctx.judged();
          for (const a of applied) ctx.count("rewrite:" + a);
          let h1, h3;
          try {
            h1 = [p1.hash256(), p1.hash()];
            h3 = [p3.hash256(), p3.hash()];
          } catch {
            continue;
          }
          // hash(): the statement promises invariance under property order, alias boundaries, member order, comments only
          const H32 = ["permuteProperties", "permuteUnionMembers", "comments", "introduceAlias", "inlineAlias", "wrapInIdentityGeneric"];
          // (the two digests are judged independently: a recorded hash256 finding must not hide hash())
          const whichs = [h1[0] !== h3[0] ? "hash256" : null, h1[1] !== h3[1] && applied.every((a) => H32.includes(a)) ? "hash32" : null].filter(Boolean);
          for (const which of whichs) {
            ctx.violation({
              signature: `${which}-differs|${applied.slice().sort().join("+")}|${causeOf(p1, p3, coreKinds(prog.env, prog.cores.get(ps.name)).has("recursive") || isRecursiveParser(p1))}`,
              clause: "digest-depends-on-spelling",
              detail: `${renderType(ps.t).slice(0, 200)} after ${applied.join(", ")}: ${String(h1[which === "hash256" ? 0 : 1]).slice(0, 16)} vs ${String(h3[which === "hash256" ? 0 : 1]).slice(0, 16)}`,
              replay: { kind: "rewrite", original: item.text, rewritten: renderProgram(prog3), parser: ps.name, which },
            });
          }
        }
      }
    }
  }
  // digests of this shard with a hash of their verdict vector, merged across shards by py/post_c13.py
  const out = {};
  for (const [d, e] of buckets) out[d] = [h8(e.vec), e.type.slice(0, 160)];
  ctx.aux("buckets", out);
  // (a) verdict of the stream monitor: every digest computed anywhere in this shard
  ctx.count("sha256_streams_checked", streamsChecked);
  ctx.judged(streamsChecked);
  for (const f of streamFaults)
    ctx.violation({ signature: `sha256-mismatch|len%64=${f.length % 64}`, clause: "digest-is-not-sha256", detail: `message of ${f.length} bytes: writer ${f.got} node:crypto ${f.want}`, replay: { kind: "stream", hex: f.hex, length: f.length } });
}

export async function replay(ctx, c) {
  if (c.kind === "stream") {
    const w = new hashmod.Hash256Writer();
    origUpdateBytes.call(w, Buffer.from("00".repeat(c.length), "hex"));
    const got = origDigest.call(w);
    const want = createHash("sha256").update(Buffer.alloc(c.length)).digest("hex");
    return { violated: got !== want, note: "replayed with a zero message of the same length", got, want };
  }
  if (c.kind === "pair") {
    const a = await compileText(ctx, c.a.text);
    const b = await compileText(ctx, c.b.text);
    const v = fromEjson(c.value);
    const pa = a.parsers[c.a.parser],
      pb = b.parsers[c.b.parser];
    return { violated: pa.hash256() === pb.hash256() && vectorOf(pa, [v]) !== vectorOf(pb, [v]), digest_a: pa.hash256(), digest_b: pb.hash256(), verdict_a: vectorOf(pa, [v]), verdict_b: vectorOf(pb, [v]) };
  }
  if (c.kind === "rewrite") {
    const a = await compileText(ctx, c.original);
    const b = await compileText(ctx, c.rewritten);
    const f = c.which === "hash32" ? "hash" : "hash256";
    return { violated: a.parsers[c.parser][f]() !== b.parsers[c.parser][f](), a: a.parsers[c.parser][f](), b: b.parsers[c.parser][f]() };
  }
  return { violated: false, note: "nothing to replay" };
}

// C04 — compilation is total: code or located diagnostics, never a panic or a hang.
// Events per request: outcome, diagnostics (file, range, message), panic site, CPU ms, worker
// death, and for successes the load result, the names returned by buildParsers() and a
// reference-closure walk. Oracle: see DESIGN.md section 5 / C04.
import { corpus } from "../lib/corpus.mjs";
import { Rng } from "../lib/rng.mjs";
import { compileOnce, gdbSignature } from "../lib/compiler.mjs";
import { loadModule, loadAsEsm, rt } from "../lib/loader.mjs";
import { wildProgram, mutateCorpus, multiFileProject, randomSettings, corpusPrograms } from "../gen/wild.mjs";
import { h8 } from "../lib/corpus.mjs";

const CPU_BUDGET_MS = 20000;

function lineTable(text) {
  if (text.charCodeAt(0) === 0xfeff) text = text.slice(1); // swc drops a BOM before computing positions
  // swc reports columns in UTF-16 code units (what editors use), not in code points
  return text.split("\n").map((l) => l.length);
}

// returns null or {clause, detail}
function checkDiagnostic(d, files, parseFailed) {
  if (typeof d.message !== "string" || d.message.length === 0) return { clause: "diagnostic-without-message", detail: JSON.stringify(d) };
  if (d.kind === "unknown") {
    const exists = Object.prototype.hasOwnProperty.call(files, d.file);
    if (exists && !parseFailed.includes(d.file)) return { clause: "unlocated-diagnostic-for-a-file-that-parses", detail: `${d.variant} in ${d.file}` };
    return null;
  }
  if (!Object.prototype.hasOwnProperty.call(files, d.file)) return { clause: "diagnostic-names-a-file-outside-the-project", detail: `${d.variant}: ${d.file}` };
  const lines = lineTable(files[d.file]);
  const bad = (what) => ({ clause: "diagnostic-range-outside-file:" + what, detail: `${d.variant} ${d.file} ${d.line_lo}:${d.col_lo}-${d.line_hi}:${d.col_hi} (file has ${lines.length} lines)` });
  for (const [l, c, w] of [
    [d.line_lo, d.col_lo, "lo"],
    [d.line_hi, d.col_hi, "hi"],
  ]) {
    if (!Number.isInteger(l) || l < 1 || l > lines.length) return bad(w + "-line");
    if (!Number.isInteger(c) || c < 0 || c > lines[l - 1]) return bad(w + "-column");
  }
  if (d.line_lo > d.line_hi || (d.line_lo === d.line_hi && d.col_lo > d.col_hi)) return bad("lo-after-hi");
  return null;
}

function closureWalk(mod, parsers) {
  // every RefRuntype reachable from every parser resolves in namedRuntypes
  const seen = new Set();
  const stack = Object.values(parsers).map((p) => p._runtype);
  let refs = 0;
  while (stack.length) {
    const x = stack.pop();
    if (x === null || typeof x !== "object" || seen.has(x)) continue;
    seen.add(x);
    if (typeof x.refName === "string" && typeof x.getNamedRuntypes === "function") {
      refs++;
      const target = x.getNamedRuntypes()[x.refName];
      if (target == null || typeof target.validate !== "function") return { clause: "dangling-reference", detail: `RefRuntype("${x.refName}") has no entry in namedRuntypes` };
      stack.push(target);
    }
    if (x instanceof RegExp) continue;
    for (const k of Object.keys(x)) stack.push(x[k]);
  }
  return { refs };
}

function judgeHang(ctx, req, viol) {
  // re-run alone with a larger budget: still running => hang, finished => merely slow (inconclusive)
  const again = compileOnce({ ...req, cpu_budget_ms: 60000 }, { timeoutMs: 200000 });
  if (again.outcome === "hang" || again.outcome === "timeout") {
    const fns = gdbSignature(req, "hang");
    return viol(`hang@${fns.slice(0, 6).join(",")}`, "hang", `no result after 60 s of CPU time; stack: ${fns.join(" ")}`);
  }
  ctx.inconclusive("slow-but-terminates");
  ctx.count("slow_cpu_ms_max", 0);
  if (!ctx._slow) ctx._slow = [];
  if (ctx._slow.length < 3) ctx._slow.push({ cpu_ms: again.cpu_ms, files: req.files });
  ctx.sample({ slow_but_terminates_after_cpu_ms: again.cpu_ms, files: Object.fromEntries(Object.entries(req.files).map(([k, v]) => [k, v.slice(0, 600)])) });
}

async function judge(ctx, req, label) {
  const res = await ctx.compiler.compile({ ...req, cpu_budget_ms: CPU_BUDGET_MS });
  ctx.judged();
  ctx.count("stream:" + label.split(":")[0]);
  ctx.count("outcome:" + res.outcome);
  const viol = (signature, clause, detail) => ctx.violation({ signature, clause, detail: `${detail}\n--- entry.ts ---\n${req.files[req.entry ?? "entry.ts"] ?? ""}`.slice(0, 3000), replay: { kind: "compile", req, label } });
  switch (res.outcome) {
    case "panic":
      return viol(`panic@${res.panic.file}:${res.panic.line}`, "panic", `${res.panic.file}:${res.panic.line}: ${res.panic.msg}`);
    case "died": {
      if (res.code === 3) return judgeHang(ctx, req, viol); // the server announced a hang and left before the line was read
      // the death must belong to this request: alone in a fresh process it has to die again
      const alone = compileOnce({ ...req, cpu_budget_ms: 60000 }, { timeoutMs: 600000 });
      if (alone.outcome === "hang" || alone.outcome === "timeout") return judgeHang(ctx, req, viol);
      if (alone.outcome !== "died") {
        ctx.inconclusive("worker-death-not-reproduced-by-the-request-alone");
        return;
      }
      const fns = gdbSignature(req, "crash");
      // two recorded root causes of unbounded recursion are named by the functions of their cycle
      const has = (re) => fns.some((f) => re.test(f));
      const family = has(/:get_addressed_item(_from_(symbol_export|default_import|import_reference))?$/)
        ? "module-resolution-cycle"
        : has(/:(typeof_expr|extract_type_query|extract_addressed_value)$/)
          ? "value-type-self-reference"
          : null;
      if (family && (res.signal === "SIGABRT" || res.signal === "SIGSEGV")) return viol(`overflow@${family}`, "stack-overflow", `compile server killed by ${res.signal}; recursion cycle: ${fns.join(" ")}`);
      return viol(`died@${res.signal || res.code}@${fns.slice(0, 8).join(",")}`, "worker-death", `compile server killed by ${res.signal || res.code}; stack: ${fns.join(" ")}`);
    }
    case "hang":
      return judgeHang(ctx, req, viol);
    case "__unused": {
      // re-run alone with a larger budget: still running => hang, finished => merely slow (inconclusive)
      const again = compileOnce({ ...req, cpu_budget_ms: 60000 }, { timeoutMs: 200000 });
      if (again.outcome === "hang" || again.outcome === "timeout") {
        const fns = gdbSignature(req, "hang");
        return viol(`hang@${fns.slice(0, 6).join(",")}`, "hang", `no result after 60 s of CPU time; stack: ${fns.join(" ")}`);
      }
      ctx.inconclusive("slow-but-terminates");
      return;
    }
    case "emit_error":
      return viol(`no-code-and-no-diagnostic|${String(res.message).slice(0, 60)}`, "neither-code-nor-diagnostic", `emit_code failed (${res.message}) although extraction reported no diagnostic`);
    case "diagnostics": {
      if (!res.diagnostics.length) return viol("diagnostics-empty", "neither-code-nor-diagnostic", "outcome without code and without diagnostics");
      for (const d of res.diagnostics) {
        ctx.count("diag:" + d.variant);
        ctx.distinct(h8("diag" + d.variant + d.kind));
        const f = checkDiagnostic(d, req.files, res.parse_failed || []);
        if (f) return viol(`${f.clause}|${d.variant}`, f.clause, f.detail);
      }
      try {
        JSON.parse(res.wasm_json);
      } catch {
        return viol("wasm-diagnostics-not-json", "diagnostics-serialisation", String(res.wasm_json).slice(0, 200));
      }
      return;
    }
    case "code": {
      let mod, parsers;
      const settings = req.settings ?? { string_formats: [], number_formats: [] };
      const fmts = (names) => Object.fromEntries(names.map((n) => [n, () => true]));
      try {
        mod = loadModule(res.code, settings);
        parsers = mod.buildParsers({ stringFormats: fmts(settings.string_formats), numberFormats: fmts(settings.number_formats) });
      } catch (e) {
        return viol(`emitted-module-does-not-load|${e && e.constructor && e.constructor.name}|${String(e && e.message).replace(/[0-9]+/g, "N").slice(0, 50)}`, "emitted-module-does-not-load", String(e && e.stack).slice(0, 400));
      }
      for (const n of res.parser_names) if (!parsers[n] || typeof parsers[n].validate !== "function") return viol("parser-missing", "requested-parser-missing", `buildParsers() lacks ${n}`);
      const cw = closureWalk(mod, parsers);
      if (cw.clause) return viol(cw.clause, cw.clause, cw.detail);
      ctx.count("refs_resolved", cw.refs);
      for (const [n, p] of Object.entries(parsers)) {
        for (const op of ["validate", "describe", "hash256", "hash"]) {
          try {
            op === "validate" ? p.validate(undefined) : p[op]();
          } catch (e) {
            if (e instanceof TypeError || e instanceof ReferenceError) return viol(`parser-unusable|${op}|${e.constructor.name}`, "parser-unusable", `${n}.${op}() threw ${e}`);
            ctx.count(`parser_${op}_threw_${e && e.constructor && e.constructor.name}`);
          }
        }
      }
      ctx.distinct(h8("ok" + label.split(":")[0] + res.parser_names.length + Object.keys(req.files).length + (cw.refs > 0)));
      if (ctx._esmLoads < 20 && ctx.rngEsm.chance(0.05)) {
        ctx._esmLoads++;
        try {
          const m = await loadAsEsm(res.code, settings);
          m.buildParsers({ stringFormats: fmts(settings.string_formats), numberFormats: fmts(settings.number_formats) });
          ctx.count("esm_loads_ok");
        } catch (e) {
          return viol(`esm-load|${String(e && e.message).slice(0, 50)}`, "emitted-module-does-not-load", String(e && e.stack).slice(0, 400));
        }
      }
      return;
    }
    default:
      ctx.inconclusive("unexpected-outcome:" + res.outcome);
  }
}

export const PROBES = [
  { id: "import-type-of-own-default-export", files: { "entry.ts": 'type T = { n: import("./entry") | null };\nexport default T;\nexport const P = parse.buildParsers<{ X: T }>();\n' } },
  { id: "import-type-of-default-export-cycle", files: { "entry.ts": 'import A from "./a";\nexport const P = parse.buildParsers<{ X: A }>();\n', "a.ts": 'type A = { b: import("./b")[] };\nexport default A;\n', "b.ts": 'type B = { a?: import("./a") };\nexport default B;\n' } },
  { id: "record-alias-chain", files: { "entry.ts": 'type B = "a" | "b"; type A = B; type R = Record<A, number>;\nparse.buildParsers<{ X: R }>();\n' } },
  { id: "record-self-key", files: { "entry.ts": "type K = Record<K, string>;\nparse.buildParsers<{ X: K }>();\n" } },
  { id: "exclude-literal-from-base", files: { "entry.ts": "parse.buildParsers<{ X: Exclude<number, 1> }>();\n" } },
  { id: "exclude-literal-from-string", files: { "entry.ts": 'parse.buildParsers<{ X: Exclude<string, "a"> }>();\n' } },
  { id: "cyclic-alias-unions", files: { "entry.ts": 'type A = B | "x"; type B = A | "y";\nparse.buildParsers<{ X: A }>();\n' } },
  { id: "two-default-exports", files: { "entry.ts": 'import D from "./o";\nparse.buildParsers<{ X: D }>();\n', "o.ts": "export default 1;\nexport default 2;\n" } },
  { id: "recursive-tuple-conditional", files: { "entry.ts": "type T = [string, ...T[]];\nparse.buildParsers<{ X: T extends string ? 1 : 2 }>();\n" } },
  { id: "namespace-exports-itself", files: { "entry.ts": 'import * as ns from "./a";\nparse.buildParsers<{ X: typeof ns }>();\n', "a.ts": 'export * as self from "./a";\nexport const x = 1;\n' } },
  { id: "namespaces-export-each-other", files: { "entry.ts": 'import * as ns from "./a";\nparse.buildParsers<{ X: typeof ns; Y: typeof ns.other.back.x }>();\n', "a.ts": 'export * as other from "./b";\nexport const x = 1;\n', "b.ts": 'export * as back from "./a";\nexport const y = "s";\n' } },
  { id: "namespace-re-export-through-star", files: { "entry.ts": 'import * as ns from "./a";\nparse.buildParsers<{ X: typeof ns }>();\n', "a.ts": 'export * from "./b";\nexport * as inner from "./b";\n', "b.ts": 'export * from "./a";\nexport const y = "s";\n' } },
  { id: "tag-carried-by-every-member", files: { "entry.ts": 'type Base = { id: string };\ntype U = (Base & { type: "CRON" | "EVENT"; c: 1 }) | (Base & { type: "EVENT"; e: 2 });\nparse.buildParsers<{ X: U }>();\n' } },
  { id: "union-alias-mentions-itself", files: { "entry.ts": 'type B = "b";\ntype C = C | B;\nparse.buildParsers<{ X: Record<C, string> }>();\n' } },
  { id: "default-export-by-list-type-and-value", files: { "entry.ts": 'import Config from "./a";\ntype D = typeof Config.defaults;\nparse.buildParsers<{ X: D; Y: Config }>();\n', "a.ts": "type Config = { a: 1 };\nconst Config = { defaults: { n: 1 } };\nexport { Config as default };\n" } },
  { id: "default-export-by-list-value-as-type", files: { "entry.ts": 'import D from "./a";\ntype T = D.Foo;\nparse.buildParsers<{ X: T }>();\n', "a.ts": "const v = { Foo: 1 };\nexport { v as default };\n" } },
  { id: "import-type-qualified-name", files: { "entry.ts": '// a long first line so that offsets in this file exceed the length of b.ts ........................................................................................................................\ntype X = import("./b").Inner.BT;\ntype Y = typeof import("./b").inner.v;\nparse.buildParsers<{ X: X; Y: Y }>();\n', "b.ts": "export const inner = 1;\n" } },
  { id: "entry-missing", files: { "other.ts": "export type A = 1;" } },
  { id: "entry-unparsable", files: { "entry.ts": "type A = {{{" } },
  { id: "crlf-bom", files: { "entry.ts": "﻿type A = {\r\n  a: symbol\r\n};\r\nparse.buildParsers<{ X: A }>();\r\n" } },
  { id: "astral-before-error", files: { "entry.ts": 'type A = { "𝒳𝒴": string; b: symbol };\nparse.buildParsers<{ X: A }>();' } },
];

export async function run(ctx) {
  ctx._esmLoads = 0;
  ctx.rngEsm = new Rng(ctx.seed, "esm" + ctx.shard);
  if (ctx.shard === 0) {
    for (const p of PROBES) {
      ctx.count("probes");
      await judge(ctx, { files: p.files, settings: { string_formats: ["even"], number_formats: ["int"] } }, "probe:" + p.id);
    }
    // the unmodified corpus itself (every test program of the repository must stay total)
    for (const c of corpusPrograms()) await judge(ctx, { files: { "entry.ts": c.text }, settings: { string_formats: ["password", "User", "ReadAuthorizedUser", "WriteAuthorizedUser"], number_formats: ["age", "NonInfiniteNumber", "NonNegativeNumber", "Rate"] } }, "corpus-verbatim");
  }
  const n = ctx.share(720000, 6000000);
  for (let i = 0; i < n; i++) {
    const rng = new Rng(ctx.seed, `C04|${ctx.shard}|${i}`);
    const kind = rng.wpick([
      [4, "wild"],
      [4, "corpus"],
      [3, "multifile"],
    ]);
    const p = kind === "wild" ? wildProgram(rng) : kind === "corpus" ? mutateCorpus(rng) : multiFileProject(rng);
    const req = { files: p.files, settings: randomSettings(rng) };
    if (rng.chance(0.15)) req.order = rng.shuffle(Object.keys(p.files));
    if (ctx.shard === 0 && i < 4) ctx.sample({ stream: p.label, files: Object.fromEntries(Object.entries(p.files).map(([k, v]) => [k, v.slice(0, 300)])) });
    await judge(ctx, req, p.label);
  }
  // every (container of a self-reference) x (type operator) combination: the recursion guards of the
  // frontend, the semantic path and the printer, enumerated rather than sampled
  {
    const containers = [
      ["set", (n) => `Set<${n}>`],
      ["set-union", (n) => `Set<${n} | number>`],
      ["set-object", (n) => `Set<{ label: string; below: ${n} }>`],
      ["map", (n) => `Map<string, ${n}>`],
      ["map-key", (n) => `Map<${n}, string>`],
      ["array", (n) => `${n}[]`],
      ["array-union", (n) => `Array<${n} | null>`],
      ["tuple", (n) => `[string, ${n}?]`],
      ["tuple-rest", (n) => `[number, ...${n}[]]`],
      ["object", (n) => `{ v: string; next?: ${n} }`],
      ["object-required", (n) => `{ v: string; next: ${n} | null }`],
      ["record", (n) => `Record<string, ${n}>`],
      ["record-finite", (n) => `Record<"a" | "b", ${n} | null>`],
      ["index-signature", (n) => `{ [k: string]: ${n} }`],
      ["union", (n) => `string | ${n}[] | { [k: string]: ${n} }`],
      ["intersection", (n) => `{ a: string } & { b?: ${n} }`],
      ["self", (n) => `${n}`],
      ["self-union", (n) => `${n} | string`],
      ["self-intersection", (n) => `${n} & { a: 1 }`],
    ];
    // (the same containers with the self-reference spelled `import("./entry")`, the module's default export)
    const viaImport = containers.filter(([cn]) => !cn.startsWith("self")).map(([cn, c]) => [cn + "/import-default", c]);
    const operators = [
      ["plain", (n) => n],
      ["exclude-null", (n) => `Exclude<${n} | null, null>`],
      ["exclude-self", (n) => `Exclude<${n}, ${n}>`],
      ["extract", (n) => `Extract<${n} | string, ${n}>`],
      ["conditional", (n) => `${n} extends string ? 1 : 2`],
      ["conditional-right", (n) => `string[] extends ${n} ? 1 : 2`],
      ["keyof", (n) => `keyof ${n}`],
      ["indexed-number", (n) => `${n}[number]`],
      ["indexed-key", (n) => `${n}["next"]`],
      ["partial", (n) => `Partial<${n}>`],
      ["required", (n) => `Required<${n}>`],
      ["pick", (n) => `Pick<${n}, "v">`],
      ["omit", (n) => `Omit<${n}, "v">`],
      ["mapped", (n) => `{ [K in keyof ${n}]: ${n}[K] }`],
      ["record-key", (n) => `Record<keyof ${n} & string, 1>`],
      ["nonnullable", (n) => `NonNullable<${n}>`],
      ["array-of", (n) => `${n}[]`],
      ["intersect", (n) => `${n} & { extra: 1 }`],
      ["union-with-object", (n) => `${n} | { kind: "x"; a: 1 }`],
      ["union-of-tagged", (n) => `(${n} & { kind: "n" }) | { kind: "x" }`],
      ["generic-grow", (n) => `{ w: W<${n}> }`],
      // through a type parameter (distributive conditional types) and through a template hole
      ["generic-conditional", (n) => `F<${n}>`],
      ["generic-conditional-nested", (n) => `{ p: F<${n} | "lit">; q: FF<${n}> }`],
      ["template-hole", (n) => `\`id-\${${n}}\``],
      ["generic-template", (n) => `Tpl<${n}>`],
      ["generic-identity-keyof", (n) => `keyof Id<${n}>`],
    ];
    let k = 0;
    for (const [cn, c] of containers)
      for (const [on, o] of operators)
        for (const mutual of [false, true]) {
          k++;
          if (k % ctx.of !== ctx.shard) continue;
          const generics = "type F<T> = T extends string ? 1 : 2;\ntype FF<T> = T extends (infer U)[] ? U : T extends string ? T : never;\ntype Tpl<T> = T extends string ? `t-${T}` : never;\ntype Id<T> = T;\n";
          const pre = "type W<T> = { v: T; next?: W<T[]> | W<{ t: T }> };\n";
          const text = (on === "generic-grow" ? pre : "") + (on.startsWith("generic-") && on !== "generic-grow" ? generics : "") + (mutual ? `type N = ${c("M")};\ntype M = N | null;\nexport const P = parse.buildParsers<{ X: ${o("N")} }>();\n` : `type N = ${c("N")};\nexport const P = parse.buildParsers<{ X: ${o("N")} }>();\n`);
          ctx.count("recursion-grid");
          await judge(ctx, { files: { "entry.ts": text }, settings: { string_formats: [], number_formats: [] } }, `grid:${cn}/${on}${mutual ? "/mutual" : ""}`);
        }
    for (const [cn, c] of viaImport)
      for (const [on, o] of operators.filter(([n]) => !n.startsWith("generic-"))) {
        k++;
        if (k % ctx.of !== ctx.shard) continue;
        const text = `type N = ${c('import("./entry")')};\nexport default N;\nexport const P = parse.buildParsers<{ X: ${o("N")} }>();\n`;
        ctx.count("recursion-grid");
        await judge(ctx, { files: { "entry.ts": text }, settings: { string_formats: [], number_formats: [] } }, `grid:${cn}/${on}`);
      }
  }
  // JSDoc blocks whose frame (the blanks around the leading asterisks, the text after them) is made
  // of every kind of white space and of multi-byte characters; attached and unattached comments
  {
    const blanks = [" ", "\t", "\u00a0", "\u3000", "\u2003", "\u2009", "\ufeff", "\u000b", "\u000c", "\u1680", "\u202f", "\u205f", "", "  ", "\u00a0\u00a0"];
    const texts = ["plain", "\u00e9t\u00e9", "\ud83d\ude00 astral", "\u3000wide", "*", "* / */".replace(" */", ""), "@deprecated \u00a0x"];
    let k = 0;
    for (const b of blanks)
      for (const t of texts)
        for (const shape of [0, 1, 2, 3]) {
          k++;
          if (k % ctx.of !== ctx.shard) continue;
          const line = (x) => ` *${b}${x}`;
          const doc = shape === 0 ? `/**\n${line(t)}\n */` : shape === 1 ? `/**${b}${t}${b}*/` : shape === 2 ? `/**\n${b}*${b}${t}\n${b}*${b}\n${line("second " + t)}\n${b}*/` : `/**\r\n${line(t)}\r\n *${b}\r\n */`;
          const text = shape % 2 === 0
            ? `${doc}\ntype T = {\n  ${doc.replace(/\n/g, "\n  ")}\n  a: string;\n};\nexport const P = parse.buildParsers<{ X: T }>();\n`
            : `${doc}\n\nconst unrelated = 1;\ntype T = { a: string };\n${doc}\nexport const P = parse.buildParsers<{ X: T }>();\n`;
          ctx.count("jsdoc-frame-grid");
          await judge(ctx, { files: { "entry.ts": text }, settings: { string_formats: [], number_formats: [] } }, `jsdoc-frame:${shape}`);
        }
  }
  // one named type with a member the semantic engine refuses (a function, a union alias that mentions
  // itself, a multi-part template), asked about by two or three different semantic operations of ONE
  // build: the first refusal must leave nothing behind that the next operation trips over
  {
    const refused = [
      ["fn-member", "{ name: string; run: () => void }"],
      ["fn-in-tuple", "[string, () => void]"],
      ["self-union-alias", "{ j: Json; id: string }"],
      ["fn-in-map", "Map<string, () => void>"],
      ["fn-in-set", "Set<(x: number) => string>"],
      ["fn-in-array", "{ hs: Array<() => void>; n: 1 }"],
      ["template-pair", "{ t: `a${string}b${number}` | `c${number}`; u: 2 }"],
      ["nested-named", "{ inner: Inner; k: string }"],
    ];
    const ops = [
      ["cond-name", (n) => `${n} extends { name: string } ? true : false`],
      ["cond-other", (n) => `${n} extends { run: unknown } ? "yes" : "no"`],
      ["exclude", (n) => `Exclude<${n} | null, null>`],
      ["keyof", (n) => `keyof ${n}`],
      ["indexed", (n) => `(${n} | { name: 1 })["name"]`],
      ["extract", (n) => `Extract<${n} | string, object>`],
      ["generic", (n) => `IsNamed<${n}>`],
    ];
    let k = 0;
    for (const [rn, body] of refused)
      for (let a = 0; a < ops.length; a++)
        for (let b = 0; b < ops.length; b++) {
          if (a === b) continue;
          k++;
          if (k % ctx.of !== ctx.shard) continue;
          const third = (a + b) % 3 === 0 ? `  C: ${ops[(a + b) % ops.length][1]("H")};\n` : "";
          const text = `type Json = string | Json[];\ntype Inner = { f: () => void };\ntype IsNamed<T> = T extends { name: string } ? true : false;\ntype H = ${body};\nexport const P = parse.buildParsers<{\n  A: ${ops[a][1]("H")};\n  B: ${ops[b][1]("H")};\n${third}}>();\n`;
          ctx.count("refused-member-pairs");
          await judge(ctx, { files: { "entry.ts": text }, settings: { string_formats: [], number_formats: [] } }, `refused-pairs:${rn}/${ops[a][0]}+${ops[b][0]}`);
        }
  }
  // every type name of TypeScript's library (those beff knows, and those it may learn) applied to
  // hostile literal arguments: text that starts with a multi-byte character, astral characters,
  // combining marks, the empty string, lone escapes - in 0 to 3 arguments, bare and through aliases
  {
    const libNames = ["Uppercase", "Lowercase", "Capitalize", "Uncapitalize", "NonNullable", "Extract", "Exclude", "Awaited", "ReturnType", "Parameters", "InstanceType", "ConstructorParameters", "ThisType", "NoInfer", "Readonly", "ReadonlyArray", "Array", "Promise", "Record", "Partial", "Required", "Pick", "Omit", "Map", "Set", "StringFormat", "NumberFormat", "StringFormatExtends", "NumberFormatExtends", "Iterable", "ArrayLike", "PropertyKey", "Date"];
    const lits = ['"\u00e9lan"', '"\u00dcber"', '"\u65e5\u4ed8"', '"\ud83d\ude00x"', '"e\u0301"', '""', '"\u00a0"', '"\u0130"', '"\u00df"', '"\ufb01"', '"a"', '"\\u{1F600}"', '"\ud800"'.replace("\ud800", "\\ud800")];
    let k = 0;
    for (const n of libNames)
      for (let li = 0; li < lits.length; li++)
        for (const form of [0, 1, 2, 3, 4]) {
          k++;
          if (k % ctx.of !== ctx.shard) continue;
          const l = lits[li], l2 = lits[(li + 3) % lits.length];
          const use = form === 0 ? `${n}<${l}>` : form === 1 ? `${n}<${l} | ${l2}>` : form === 2 ? `${n}<L>` : form === 3 ? `${n}<${l}, ${l2}>` : `{ [P in ${n}<${l} | "name">]: string }`;
          const text = `type L = ${l} | ${l2};\nexport const P = parse.buildParsers<{ X: ${use} }>();\n`;
          ctx.count("lib-name-grid");
          await judge(ctx, { files: { "entry.ts": text }, settings: { string_formats: ["\u00e9lan"], number_formats: [] } }, `lib-name:${n}/${form}`);
        }
  }
  // export * ladders: 2 * levels modules, 2^levels routes (seeded C04-i)
  {
    let k = 0;
    for (const levels of [2, 5, 12, 20, 30, 45])
      for (const use of ["missing-type", "found-type", "missing-value", "namespace", "typeof-namespace"]) {
        k++;
        if (k % ctx.of !== ctx.shard) continue;
        ctx.count("export-star-ladder-grid");
        await judge(ctx, { files: exportStarLadder(levels, use), settings: { string_formats: [], number_formats: [] } }, `export-star-ladder:${levels}/${use}`);
      }
  }
  // two (or three) different recursive types that each go through a semantic operator in ONE build:
  // the helper types the computations introduce share the build's name space
  {
    const conts = [
      ["array", (n) => `{ v: 1; kids: ${n}[] }`],
      ["object", (n) => `{ v: string; next?: ${n} }`],
      ["object-required", (n) => `{ w: number; next: ${n} | null }`],
      ["tuple-rest", (n) => `[number, ...${n}[]]`],
      ["record", (n) => `Record<string, ${n}> | boolean`],
      ["union", (n) => `string | ${n}[] | { [k: string]: ${n} }`],
      ["map", (n) => `Map<string, ${n}>`],
      ["set", (n) => `Set<${n}>`],
    ];
    const semOps = [
      ["exclude-null", (n) => `Exclude<${n} | null, null>`],
      ["exclude-lit", (n) => `Exclude<${n} | "x", "x">`],
      ["extract", (n) => `Extract<${n} | string, ${n}>`],
      ["nonnullable", (n) => `NonNullable<${n} | undefined>`],
      ["generic-exclude", (n) => `NoX<${n}>`],
      ["indexed", (n) => `{ a: ${n}; b: string }["a" | "b"]`],
      ["conditional-infer-free", (n) => `Keep<${n} | 7>`],
    ];
    let k = 0;
    for (let i = 0; i < conts.length; i++)
      for (let j = i; j < conts.length; j++)
        for (let a = 0; a < semOps.length; a++) {
          const b = (a + i + j) % semOps.length;
          k++;
          if (k % ctx.of !== ctx.shard) continue;
          const [c1n, c1] = conts[i], [c2n, c2] = conts[j];
          const [o1n, o1] = semOps[a], [o2n, o2] = semOps[b];
          const third = (i + j + a) % 3 === 0 ? `  Z: ${semOps[(a + 1) % semOps.length][1]("N3")};\n` : "";
          const text = `type NoX<T> = Exclude<T | "x", "x">;\ntype Keep<T> = T extends number ? never : T;\ntype N1 = ${c1("N1")};\ntype N2 = ${i === j ? c2("N2").replace(/string|number|1/, "boolean") : c2("N2")};\ntype N3 = { deep: N3[]; tag: "n3" } | null;\nexport const P = parse.buildParsers<{\n  X: ${o1("N1")};\n  Y: ${o2("N2")};\n${third}}>();\n`;
          ctx.count("computed-recursive-pairs");
          await judge(ctx, { files: { "entry.ts": text }, settings: { string_formats: [], number_formats: [] } }, `pairs:${c1n}+${c2n}/${o1n}+${o2n}`);
        }
  }
  // every (type of empty or collapsing meaning) x (position) combination: the places where a
  // simplification step may leave a node with no members behind
  {
    const degenerate = [
      ["never-union", "never | never"],
      ["never-union-3", "never | never | never"],
      ["generic-never-union", "Either<never, never>"],
      ["indexed-never-props", '{ a: never; b: never; c: string }["a" | "b"]'],
      ["disjoint-intersection", "string & number"],
      ["disjoint-literals", '"a" & "b"'],
      ["exclude-all", "Exclude<string, string>"],
      ["exclude-all-literals", 'Exclude<"a" | "b", "a" | "b">'],
      ["extract-none", "Extract<string, number>"],
      ["union-of-empties", 'Exclude<"a", "a"> | Extract<1, 2>'],
      ["keyof-empty", "keyof {}"],
      ["never-and", "never & string"],
      ["never-tuple", "[never]"],
      ["never-array", "never[]"],
      ["record-never-key", "Record<never, string>"],
      ["empty-object", "{}"],
      ["same-twice", "null | null"],
      ["literal-twice", "1 | 1"],
      ["unknown-twice", "unknown | unknown"],
      ["either-same", "Either<string, string>"],
      ["conditional-never", "never extends string ? 1 : 2"],
      ["empty-enum-like", 'Exclude<E, E.A>'],
    ];
    const positions = [
      ["top", (t) => t],
      ["alias", (t) => "D"],
      ["property", (t) => `{ p: ${t} }`],
      ["optional-property", (t) => `{ p?: ${t} }`],
      ["array", (t) => `(${t})[]`],
      ["tuple", (t) => `[string, ${t}]`],
      ["tuple-rest", (t) => `[string, ...(${t})[]]`],
      ["record-value", (t) => `Record<string, ${t}>`],
      ["index-signature", (t) => `{ [k: string]: ${t} }`],
      ["union-member", (t) => `string | (${t})`],
      ["union-with-object", (t) => `{ k: "a" } | (${t})`],
      ["intersection-member", (t) => `{ a: 1 } & (${t})`],
      ["generic-argument", (t) => `Box<${t}>`],
      ["set", (t) => `Set<${t}>`],
      ["map-value", (t) => `Map<string, ${t}>`],
      ["partial", (t) => `Partial<{ p: ${t} }>`],
      ["exclude-left", (t) => `Exclude<${t}, null>`],
      ["exclude-right", (t) => `Exclude<string | null, ${t}>`],
      ["keyof", (t) => `keyof { p: ${t} }`],
      ["indexed", (t) => `{ p: ${t}; q: 1 }["p"]`],
    ];
    let k = 0;
    for (const [dn, d] of degenerate)
      for (const [pn, pos] of positions) {
        k++;
        if (k % ctx.of !== ctx.shard) continue;
        const text = `type Either<A, B> = A | B;\ntype Box<T> = { v: T };\nenum E { A = "a" }\ntype D = ${d};\nexport const P = parse.buildParsers<{ X: ${pos(d)} }>();\n`;
        ctx.count("degenerate-grid");
        await judge(ctx, { files: { "entry.ts": text }, settings: { string_formats: [], number_formats: [] } }, `degenerate:${dn}/${pn}`);
      }
  }
  // declarations evaluated in another file than the one that mentions them: every diagnostic raised
  // inside the declaration must name the declaring file (the entry file is kept much shorter than
  // the offsets inside the declaring file)
  {
    const members = [
      ["auto-numbered", "A, B, C"],
      ["literal", 'A = "a", B = "b"'],
      ["numeric", "A = 1, B = 2"],
      ["own-module-const", "A = LOWEST, B = 2"],
      ["own-module-const-string", "A = NAME, B = `b`"],
      ["previous-member", "A = 1, B = A"],
      ["negative", "A = -1, B = +2"],
      ["computed", "A = 1 << 2, B = A | 1"],
      ["string-concat", 'A = "a" + "b"'],
      ["call", "A = f()"],
      ["mixed-auto-after-string", 'A = "a", B'],
    ];
    const uses = [
      ["as-type", (n) => n],
      ["member", (n) => `${n}.A`],
      ["typeof", (n) => `typeof ${n}`],
      ["keyof-typeof", (n) => `keyof typeof ${n}`],
      ["in-object", (n) => `{ level: ${n}; other?: ${n}.A }`],
      ["record-key", (n) => `Record<${n}, number>`],
    ];
    const styles = [
      ["named", (u) => [`import { E } from "./levels";`, u("E")]],
      ["renamed", (u) => [`import { E as Lvl } from "./levels";`, u("Lvl")]],
      ["namespace", (u) => [`import * as L from "./levels";`, u("L.E")]],
      ["re-export", (u) => [`import { E } from "./hop";`, u("E")]],
      ["import-type", (u) => ["", u('import("./levels").E')]],
    ];
    const padding = Array.from({ length: 12 }, (_, i) => `// line ${i} of a module that is much longer than the entry file, so that its offsets do not exist there`).join("\n");
    let k = 0;
    for (const [mn, m] of members)
      for (const [un, u] of uses)
        for (const [sn, st] of styles) {
          k++;
          if (k % ctx.of !== ctx.shard) continue;
          if (sn === "import-type" && un !== "as-type" && un !== "in-object" && un !== "record-key") continue; // import("..").E is a type position only
          const [imp, use] = st(u);
          const files = {
            "entry.ts": `${imp}\nexport const P = parse.buildParsers<{ X: ${use} }>();\n`,
            "levels.ts": `${padding}\nconst LOWEST = 0;\nconst NAME = "n";\ndeclare function f(): number;\nexport enum E { ${m} }\nexport const V = { level: E.A };\n`,
            "hop.ts": `export { E } from "./levels";\n`,
          };
          ctx.count("cross-file-enum-grid");
          await judge(ctx, { files, settings: { string_formats: [], number_formats: [] } }, `cross-file-enum:${mn}/${un}/${sn}`);
        }
  }
  // supported programs (success path: load + closure walk on realistic output)
  const nSup = ctx.share(4800, 24000);
  for await (const item of corpus(ctx, { label: "C04-supported", count: nSup, features: {} })) {
    await judge(ctx, item.req, "supported");
  }
}

// stacked `export *` diamonds: every level has two modules that both pass on both modules of the next level;
// a name that is not there (or only at the far end) must still be answered promptly - the number of ROUTES
// through the graph is 2^levels, the number of modules 2 * levels
export function exportStarLadder(levels, use) {
  const files = {};
  for (let i = 0; i < levels; i++) for (const s of ["a", "b"]) files[`${s}${i}.ts`] = i + 1 < levels ? `export * from "./a${i + 1}";\nexport * from "./b${i + 1}";\n` : s === "b" ? "export type Found = { at: \"the far end\" };\nexport const found = 1;\n" : "export type Other = 1;\n";
  files["entry.ts"] = { "missing-type": 'import { Missing } from "./a0";\nexport const P = parse.buildParsers<{ X: Missing }>();\n', "found-type": 'import { Found } from "./a0";\nexport const P = parse.buildParsers<{ X: Found }>();\n', "missing-value": 'import { missing } from "./a0";\nexport const P = parse.buildParsers<{ X: typeof missing }>();\n', "namespace": 'import * as ns from "./a0";\nexport const P = parse.buildParsers<{ X: ns.Found; Y: typeof ns.found }>();\n', "typeof-namespace": 'import * as ns from "./a0";\nexport const P = parse.buildParsers<{ X: typeof ns }>();\n' }[use];
  return files;
}

export async function replay(ctx, c) {
  const before = [];
  const fake = { ...ctx, violation: (v) => before.push(v), judged() {}, count() {}, distinct() {}, inconclusive() {}, _esmLoads: 99, rngEsm: new Rng(1, "x") };
  await judge(fake, c.req, c.label || "replay");
  return { violated: before.length > 0, found: before.map((v) => ({ signature: v.signature, clause: v.clause, detail: String(v.detail).slice(0, 600) })) };
}

// C11 — strict mode (disallowExtraProperties) rejects exactly the values that carry undeclared keys.
// Events: (parser, v, d = validate(v), s = validate(v, {disallowExtraProperties:true})).
// Oracle: s == strictMember(type, v) from the reference (declared keys = all members of an
// intersection, the matching union branch, keys admitted by an index signature); and the
// reference-free relation s => d.
import * as A from "../gen/ast.mjs";
import { corpus, valuesFor, typeKey, kindsHistogram, h8 } from "../lib/corpus.mjs";
import { fromEjson, valueClass, show } from "../lib/ejson.mjs";
import { renderType } from "../gen/ast.mjs";
import { Ref } from "../ref/member.mjs";
import { compileText, compileProgram } from "../lib/util.mjs";
import { report, implOf } from "../lib/report.mjs";

const STRICT = { disallowExtraProperties: true };
// workload weighted to where 'extra' is judged per member vs per whole type
export const FEATURES = { namedInter: true, nonJson: true, maxDepth: 4 };

const T = A;
const objAB = [
  { d: "alias", name: "NA", params: [], t: T.obj([T.prop("a", T.kw("string"))]) },
  { d: "alias", name: "NB", params: [], t: T.obj([T.prop("b", T.kw("number"))]) },
];
const O = (fields) => ({ $obj: "plain", fields: fields.map(([k, v]) => [k, v, 1]) });
export const PROBES = [
  { id: "named-intersection", prog: { decls: objAB, parsers: [{ name: "X", t: T.inter([T.ref("NA"), T.ref("NB")]) }] }, value: O([["a", "x"], ["b", 1]]), expect: "Y" },
  { id: "named-intersection-extra", prog: { decls: objAB, parsers: [{ name: "X", t: T.inter([T.ref("NA"), T.ref("NB")]) }] }, value: O([["a", "x"], ["b", 1], ["c", 1]]), expect: "N" },
  { id: "typed-array-to-named-intersection", prog: { decls: [{ d: "alias", name: "NV", params: [], t: T.obj([T.prop("value", T.kw("null"))]) }, { d: "alias", name: "NO", params: [], t: T.obj([T.prop("next", T.kw("boolean"), true)]) }], parsers: [{ name: "X", t: T.inter([T.ref("NV"), T.ref("NO")]) }] }, value: { $typed: "Float32Array", data: [0] }, expect: "N" },
  { id: "flat-extra", prog: { decls: [], parsers: [{ name: "X", t: T.obj([T.prop("a", T.kw("string"))]) }] }, value: O([["a", "x"], ["zz", 1]]), expect: "N" },
  { id: "nested-array-extra", prog: { decls: [], parsers: [{ name: "X", t: T.arr(T.obj([T.prop("a", T.kw("string"))])) }] }, value: [O([["a", "x"], ["zz", 1]])], expect: "N" },
  { id: "record-admits", prog: { decls: [], parsers: [{ name: "X", t: T.util("Record", [T.kw("string"), T.kw("number")]) }] }, value: O([["anything", 1]]), expect: "Y" },
  // recorded: C11-lit-fixed-point (C01-lit-fixed-point seen through strict mode only: the second member covers the value in default mode)
  { id: "lossy-literal-under-strict-only", prog: { decls: [], parsers: [{ name: "X", t: T.inter([T.obj([T.prop("base", T.lit(false))]), T.union([T.obj([T.prop("tag", T.lit("c")), T.prop("d", T.lit(1e21))]), T.obj([T.prop("tag", T.lit("c")), T.prop("l", T.kw("string"), true)])])]) }] }, value: O([["base", false], ["tag", "c"], ["d", 1e21]]), expect: "Y" },
  { id: "union-branch", prog: { decls: [], parsers: [{ name: "X", t: T.union([T.obj([T.prop("a", T.kw("string"))]), T.obj([T.prop("a", T.kw("string")), T.prop("b", T.kw("number"))])]) }] }, value: O([["a", "x"], ["b", 1]]), expect: "Y" },
];

export async function run(ctx) {
  const locCache = new Map();
  if (ctx.shard === 0) {
    for (const p of PROBES) {
      const r = await compileProgram(ctx, p.prog);
      ctx.count("probes");
      if (!r.parsers) throw new Error("C11 probe does not compile: " + p.id);
      const v = fromEjson(p.value);
      const core = r.cores.get("X");
      const refm = new Ref(r.env);
      const expected = refm.strictMember(core, v);
      if (expected !== p.expect) throw new Error(`probe ${p.id}: reference says ${expected}, probe table says ${p.expect}`);
      const s = implOf(r.parsers.X, v, STRICT);
      ctx.judged();
      if (s !== p.expect) await report(ctx, { prog: { env: r.env, decls: p.prog.decls }, ref: refm, text: r.text }, "X", core, v, s, p.expect, "probe:" + p.id, locCache, p.prog.parsers[0].t, STRICT);
    }
  }
  const nProgs = ctx.share(8000, 40000);
  const typeStats = new Map();
  for await (const item of corpus(ctx, { label: "C11", count: nProgs, features: FEATURES })) {
    const { prog, parsers, ref } = item;
    for (const ps of prog.parsers) {
      const core = prog.cores.get(ps.name);
      const parser = parsers[ps.name];
      if (!parser) continue;
      kindsHistogram(ctx, prog.env, core);
      const tk = typeKey(prog.env, core);
      let st = typeStats.get(tk);
      if (!st) typeStats.set(tk, (st = { both: 0, strictOnlyRej: 0, classes: new Set() }));
      const vals = valuesFor(item, core, { members: 12, mutantsPer: 3, hostile: false });
      for (const { v, origin } of vals) {
        const d = implOf(parser, v);
        const s = implOf(parser, v, STRICT);
        // relation without reference: strict acceptance implies default acceptance
        if (s === "Y" && d !== "Y") {
          ctx.judged();
          ctx.violation({ signature: `strict-accepts-what-default-rejects|${valueClass(v)}`, clause: "strict-implies-default", detail: `${renderType(ps.t).slice(0, 200)} on ${show(v)}`, replay: { kind: "pair", text: item.text, parser: ps.name, value: null, expect: "N", observed: "Y", options: STRICT } });
        }
        let r;
        try {
          r = ref.strictMember(core, v);
        } catch (e) {
          ctx.inconclusive("reference-error");
          continue;
        }
        if (r === "U") {
          ctx.inconclusive("reference-unspecified");
          continue;
        }
        // a disagreement already present in default mode is C01's business, not a strict-mode fault
        const rd = ref.member(core, v);
        if (rd !== "U" && d !== rd) {
          ctx.inconclusive("default-mode-disagreement-left-to-C01");
          continue;
        }
        ctx.judged();
        ctx.count(s === "Y" ? "strict_accepted" : s === "N" ? "strict_rejected" : "threw");
        if (d === "Y" && s === "N") {
          ctx.count("rejected_only_by_strict");
          st.strictOnlyRej++;
        }
        if (d === "Y" && s === "Y") st.both++;
        st.classes.add(valueClass(v));
        if (s !== r) await report(ctx, item, ps.name, core, v, s, r, origin, locCache, ps.t, STRICT);
        else if (ctx.shard === 0 && d === "Y" && s === "N") ctx.sample({ type: renderType(ps.t).slice(0, 200), value: show(v, 160), default_mode: d, strict_mode: s, reference_strict: r });
      }
    }
  }
  // non-trivial: types for which strict mode made a difference on some value and not on another
  for (const [tk, st] of typeStats) if (st.strictOnlyRej > 0 && st.both > 0) for (const c of st.classes) ctx.distinct(h8(tk + c));
}

export async function replay(ctx, c) {
  const r = await compileText(ctx, c.text);
  if (!r.parsers) return { violated: true, note: "does not compile", outcome: r.res.outcome };
  const v = fromEjson(c.value);
  const s = implOf(r.parsers[c.parser], v, c.options ?? STRICT);
  return { violated: s !== c.expect, strict: s, default: implOf(r.parsers[c.parser], v), expected: c.expect, value: show(v) };
}

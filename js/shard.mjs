// One shard of one property's workload. Invoked by /verif/check:
//   node js/shard.mjs <Cxx> --seed N --tier quick|thorough --shard i --of n --out file.json
//   node js/shard.mjs <Cxx> --replay case.json
import fs from "node:fs";
import { Compiler } from "./lib/compiler.mjs";
import { show } from "./lib/ejson.mjs";

process.removeAllListeners("warning");

const args = process.argv.slice(2);
const prop = args[0];
const opt = (name, dflt) => {
  const i = args.indexOf("--" + name);
  return i >= 0 ? args[i + 1] : dflt;
};
const seed = Number(opt("seed", "1"));
const tier = opt("tier", "quick");
const shard = Number(opt("shard", "0"));
const of = Number(opt("of", "1"));
const out = opt("out", null);
const replayPath = opt("replay", null);
const t0 = Date.now();

const counters = {};
const distinct = new Set();
const samples = [];
const violations = new Map();
const inconclusive = {};
const aux = {};
let evaluations = 0;

const ctx = {
  prop,
  seed,
  tier,
  shard,
  of,
  compiler: new Compiler(),
  outPath: out,
  quick: tier === "quick",
  // per-shard share of a total budget
  share(totalQuick, totalThorough) {
    const total = tier === "quick" ? totalQuick : totalThorough;
    return Math.max(1, Math.ceil(total / of));
  },
  count(name, n = 1) {
    counters[name] = (counters[name] || 0) + n;
  },
  judged(n = 1) {
    evaluations += n;
  },
  distinct(key) {
    distinct.add(key);
  },
  sample(s) {
    if (samples.length < 6) samples.push(s);
  },
  inconclusive(reason, n = 1) {
    inconclusive[reason] = (inconclusive[reason] || 0) + n;
  },
  violation({ signature, clause, detail, replay }) {
    const e = violations.get(signature);
    if (e) {
      e.count++;
      return;
    }
    violations.set(signature, { signature, clause, detail, replay: { property: prop, seed, tier, shard, signature, clause, ...replay }, count: 1 });
  },
  aux(key, value) {
    aux[key] = value;
  },
  elapsed() {
    return (Date.now() - t0) / 1000;
  },
  show,
};

const mod = await import(`./props/${prop}.mjs`);

if (replayPath) {
  const c = JSON.parse(fs.readFileSync(replayPath, "utf8"));
  const r = await mod.replay(ctx, c);
  ctx.compiler.close();
  console.log(JSON.stringify(r, null, 1));
  if (r && r.violated) {
    console.log(`VIOLATION property=${prop} replay=${replayPath}`);
    process.exit(1);
  }
  process.exit(0);
}

let error = null;
try {
  await mod.run(ctx);
} catch (e) {
  error = String((e && e.stack) || e);
}
ctx.compiler.close();
const result = {
  prop,
  seed,
  tier,
  shard,
  of,
  evaluations,
  distinct: [...distinct],
  samples,
  counters,
  inconclusive,
  aux,
  violations: [...violations.values()],
  wall_s: ctx.elapsed(),
  compiler_restarts: ctx.compiler.restarts,
  error,
};
if (out) fs.writeFileSync(out, JSON.stringify(result));
else console.log(JSON.stringify(result, null, 1));
process.exit(error ? 2 : 0);

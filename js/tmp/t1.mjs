import { Rng } from "../lib/rng.mjs";
import { TypeGen } from "../gen/typegen.mjs";
import { renderProgram } from "../gen/ast.mjs";
const r = new Rng(1,"x");
console.log(r.u32(), r.u32(), r.below(10), r.chance(0.5));
const g = new TypeGen(new Rng(1,"t"));
console.log("gen");
const p = g.program();
console.log(renderProgram(p));

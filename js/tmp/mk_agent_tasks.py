import json, os, glob
props = {json.loads(l)['id']: json.loads(l) for l in open('/verif/properties.jsonl')}
avoid = {}
for d in sorted(glob.glob('/verif/seeded/C*-[a-h]')):
    pid = os.path.basename(d).split('-')[0]
    m = json.load(open(d + '/meta.json'))
    s = (m.get('summary') or '').replace('\n', ' ')
    avoid.setdefault(pid, []).append(s[:260])
TEMPLATE = """# Task: seed a subtle property-breaking change into beff (mutation testing)

You are helping to evaluate a verification framework. You work ONLY inside your own scratch git
worktree of the repository `lucasavila00/beff`: `{wt}` (a detached checkout of the current HEAD).
Never read or write `/repo` or `/verif` (they are off limits; your result must be independent of them).

## The property you must break

{prop}

## What to produce

A *realistic* source change to beff (Rust under `packages/beff-core`, `packages/beff-wasm/src`, or the
TypeScript client runtime under `packages/beff-client/src`) that

1. **breaks the property above** on the changed tree;
2. still **compiles** and **passes the whole existing Rust test suite** (397 tests, insta snapshots included):
   `cd {wt} && CARGO_NET_OFFLINE=true CARGO_TARGET_DIR={wt}/target cargo test --workspace --no-fail-fast --offline`
   (a warmed-up target dir is already there; do not edit, add or delete existing tests or snapshots);
3. looks like something a maintainer could plausibly commit (a refactor, optimisation, clean-up, a "fix" for
   something else) - not sabotage that a reviewer would spot at once;
4. **needs something specific to manifest**: an unusual input, a particular combination of two features,
   a multi-step sequence of operations, a particular order / history / process state, or two cooperating
   sites that each look fine alone. A change that ordinary use (the README examples, the simplest programs)
   would expose at once is NOT wanted. Prefer a *narrow* trigger over a broad one.
5. comes with a **demonstration**: a small program / test that FAILS with the change and PASSES without it
   (you must actually run it both ways and report both outcomes).

The change must be different in mechanism and code location from these, which have been explored already
(do not redo them or close variants of them):

{avoid}

Also avoid re-introducing a bug that the git history shows as fixed (`git log --grep '^fix:'` lists them) -
look for something new. Spend your effort on finding a *subtle* place: read the code around the
property's anchors first.

## Environment facts (sealed sandbox, no network)

* Rust: stable cargo works offline. A Rust demonstration is easiest as an integration test file that you
  put in `packages/beff-core/tests/<name>.rs` while you run it (look at the existing files in that directory
  for how programs are compiled: they build a `FileManager`, call `beff_core` extraction and `emit_code`),
  run with `cargo test -p beff-core --test <name> --offline`, and then MOVE into `_seeded/` so the suite is the original one.
  `beff_wasm` has a cargo feature `beff_verif` that gives a native, injectable host (see `packages/beff-wasm/src/lib.rs`,
  `pub mod verif`) if you need to drive the watch session natively.
* There is no tsc / vitest / node_modules / wasm-pack. The TypeScript client can be run directly with
  Node 22 type stripping: `/root/.nvm/versions/node/v22.22.2/bin/node` plus the loader hooks in
  `{wt}/_seeded/loader.mjs` (maps `./x.js` -> `./x.ts`, stubs zod, drops type-only imports). Usage from a script in `_seeded/`:
  ```js
  import {{ register }} from "node:module"; import {{ pathToFileURL }} from "node:url";
  register(pathToFileURL(new URL("./loader.mjs", import.meta.url).pathname).href);
  const rt = await import(pathToFileURL("{wt}/packages/beff-client/src/codegen-v2.ts").href);
  // rt.ObjectRuntype, rt.TypeofRuntype, rt.buildParserFromRuntype, ... ; `b` helpers are in src/b.ts
  ```
  Generated parser modules are the emitted code appended to `packages/beff-wasm/bundled-code/codegen-v2.js`
  (see `packages/beff-wasm/ts-node/bundle-to-disk.ts`, `finalizeParserV2File`) - only needed if your demo has to go end to end.
* Keep all scratch output inside `{wt}`. Do not leave background processes running.

## Deliverables (all under `{wt}/_seeded/`)

* `patch.diff` - `git -C {wt} diff -- packages` of your change ONLY (no demo files, no target dir). It must
  apply cleanly to a clean checkout of HEAD with `git apply`.
* the demonstration file(s), with a comment on top saying how to run them;
* `meta.json`: `{{"property": "{pid}", "summary": "<what was changed, where, and why it breaks the property>",
  "what_it_needs_to_manifest": "<the specific trigger; also what does NOT trigger it>", "files_changed": [...],
  "how_demonstrated": "<commands + observed outcome with and without the change>", "tests_pass_with_change": true}}`

When finished, leave the worktree with your change APPLIED to the working tree (not committed), demo files only in
`_seeded/`, and reply with a short report: the change, the trigger, the two demo outcomes, and the test-suite result line(s).
If after honest effort you cannot find such a change, say so plainly rather than delivering a weak or broad one.
"""
for pid, p in props.items():
    if pid not in ('C01','C02','C04','C07','C08','C09','C10','C13'): continue
    wt = f"/tmp/wt-{pid}-h"
    pt = f"**{pid} - {p['title']}**\n\n{p['statement']}\n\nQuantifier: {p['quantifier']['text']}\n\nWhere it lives (anchors): " + json.dumps(p['anchors'], indent=1)
    av = "\n".join(f"* {a} ..." for a in avoid.get(pid, []))
    open(f"{wt}/_seeded/TASK.md", "w").write(TEMPLATE.format(wt=wt, prop=pt, avoid=av, pid=pid))
print("ok")

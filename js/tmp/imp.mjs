import { Compiler } from "../lib/compiler.mjs";
import { loadModule, buildAll, ALL_SETTINGS } from "../lib/loader.mjs";
process.removeAllListeners("warning");
const text = `import parse from "./parser";
type M = Map<string, number>; type S = Set<string>; type D = Date; type U8 = Uint8Array; type F64 = Float64Array;
type Unk = unknown; type O = { a?: string }; type R = Record<string, unknown>; type A = unknown[]; type T = [unknown, ...unknown[]];
type UM = M | S | D | U8 | string; type UO = { m: M | null } | { s: S };
type IM = { m: M } & { m: Map<string, 1 | 2> };
type UU = unknown | { a: 1 }; type OU = { x: { a: 1 } | unknown };
type DU = { k: "a", m: M } | { k: "b", s: S };
type UU2 = { x: { a: 1, b?: unknown } | { a: 1, c?: unknown } };
export const P = parse.buildParsers<{M:M,S:S,D:D,U8:U8,F64:F64,Unk:Unk,O:O,R:R,A:A,T:T,UM:UM,UO:UO,IM:IM,UU:UU,OU:OU,DU:DU,UU2:UU2}>();`;
const comp = new Compiler();
const res = await comp.compile({ files: { "entry.ts": text }, settings: ALL_SETTINGS });
comp.close();
if (res.outcome !== "code") { console.log(JSON.stringify(res).slice(0,2000)); process.exit(1); }
const parsers = buildAll(loadModule(res.code, ALL_SETTINGS));
function* gen(){ yield 1; }
const mk = () => ({
  fakeMap: Object.create(Map.prototype), fakeSet: Object.create(Set.prototype), fakeDate: Object.create(Date.prototype),
  fakeU8: Object.create(Uint8Array.prototype), fakeF64: Object.create(Float64Array.prototype), fakeArray: Object.create(Array.prototype),
  fakeRegExp: Object.create(RegExp.prototype), fakePromise: Object.create(Promise.prototype), fakeError: Object.create(Error.prototype),
  fakeString: Object.create(String.prototype), fakeNumber: Object.create(Number.prototype), fakeBigInt: Object.create(BigInt.prototype), fakeSymbol: Object.create(Symbol.prototype),
  fakeFunction: Object.create(Function.prototype), fakeAB: Object.create(ArrayBuffer.prototype), fakeDV: Object.create(DataView.prototype),
  error: new Error("e"), regexp: /x/g, ab: new ArrayBuffer(4), sab: new SharedArrayBuffer(4), dv: new DataView(new ArrayBuffer(4)), weakmap: new WeakMap, weakset: new WeakSet,
  promise: Promise.resolve(1), genobj: gen(), args: (function(){return arguments})(1,2), url: new URL("http://a/b"), usp: new URLSearchParams("a=1"), weakref: new WeakRef({}),
  boxedBig: Object(1n), boxedSym: Object(Symbol("s")), mapIter: new Map([[1,2]]).entries(), classExtMap: new (class extends Map{})([["a",1]]), classExtSet: new (class extends Set{})(["a"]), classExtDate: new (class extends Date{})(0), classExtArr: new (class extends Array{})(2),
  mapOwnProps: Object.assign(new Map([["a",1]]), {a: "x", m: new Map}), arrOwnProps: Object.assign([1], {a:"x"}), fnProps: Object.assign(()=>1, {a:"x", k:"a"}), dateProps: Object.assign(new Date(0), {a: 1}),
  buffer: Buffer.from("ab"), detached: (()=>{ const a = new Uint8Array(4); structuredClone(a.buffer, {transfer:[a.buffer]}); return a; })(),
  nullProtoNested: Object.assign(Object.create(null), {x: Object.assign(Object.create(null), {a: 1})}),
  globalThis_: globalThis, math: Math, json: JSON, intl: new Intl.NumberFormat(), reflect: Reflect, atomics: Atomics, process_: process.versions,
});
const wrap = { raw: (v)=>v, inM: (v)=>({m:v}), inS: (v)=>({s:v}), inX: (v)=>({x:v}), inArr: (v)=>[v], asMapVal: (v)=>new Map([["k", v]]), asSetItem: (v)=>new Set([v]), k_a_m: (v)=>({k:"a", m:v}), k_b_s: (v)=>({k:"b", s:v}), x_a_b: (v)=>({x:{a:1,b:v,c:v}}) };
const seen = new Map();
const note = (sig, d) => { if (!seen.has(sig)) seen.set(sig, d); };
for (const [pn, p] of Object.entries(parsers)) for (const wn of Object.keys(wrap)) for (const vn of Object.keys(mk())) for (const o of [undefined, {disallowExtraProperties:true}, {objectKeyOrder:"sorted"}]) {
  const v = wrap[wn](mk()[vn]);
  const call = (f) => { try { return {ok:true, v:f()} } catch(e) { return {ok:false, e} } };
  const va = call(()=>p.validate(v,o)), sp = call(()=>p.safeParse(v,o)), pr = call(()=>p.parse(v,o));
  const cls = `${pn}|${wn}|${vn}`;
  if (!va.ok) { note(`validate-threw|${vn}|${String(va.e?.message).slice(0,60)}`, cls); continue; }
  if (!sp.ok) { note(`safeParse-threw|${vn}|${String(sp.e?.message).slice(0,60)}`, cls); continue; }
  if (va.v !== sp.v.success) { note(`validate-vs-safeParse|${vn}`, cls); continue; }
  if (va.v !== pr.ok) { note(`validate-vs-parse|${vn}|${pr.ok?"returned":String(pr.e?.message).slice(0,60)}`, cls); continue; }
  if (!pr.ok) { if (!(pr.e instanceof Error) || !String(pr.e.message).startsWith(`Failed to parse ${pn} - `)) note(`parse-threw-undocumented|${vn}|${String(pr.e?.message).slice(0,60)}`, cls);
     if (!(sp.v.errors?.length>=1 && sp.v.errors.length<=10)) note(`errors-count|${vn}|${sp.v.errors?.length}`, cls);
     const r1 = call(()=>JSON.stringify(sp.v.errors)); continue; }
  const data = sp.v.data;
  const v2 = call(()=>p.validate(data,o));
  if (!v2.ok || v2.v !== true) { note(`data-not-accepted|${vn}|${v2.ok?v2.v:String(v2.e?.message).slice(0,50)}`, cls); continue; }
  const p2 = call(()=>p.parse(data,o));
  if (!p2.ok) { note(`reparse-threw|${vn}`, cls); continue; }
}
for (const [k,v] of seen) console.log(k, "   <=", v);
console.log("distinct", seen.size);

#!/bin/bash
# usage: verify_rs.sh C09-e seeded_c09.rs   -> demo with change / without change / full suite with change
id=$1; demo=$2; wt=/tmp/wt-$id; name=${demo%.rs}
cd $wt || exit 2
export CARGO_NET_OFFLINE=true CARGO_TARGET_DIR=$wt/target
cp _seeded/$demo packages/beff-core/tests/$demo
echo "--- WITH change"; cargo test -p beff-core --test $name --offline 2>&1 | grep -E "^test result|^test .*FAILED|panicked" | head -8
git apply -R _seeded/patch.diff
echo "--- WITHOUT change"; cargo test -p beff-core --test $name --offline 2>&1 | grep -E "^test result|^test .*FAILED" | head -8
git apply _seeded/patch.diff
rm packages/beff-core/tests/$demo
echo "--- full suite WITH change"; cargo test --workspace --no-fail-fast --offline 2>&1 | grep -E "^test result" | awk '{p+=$4; f+=$6} END {print "passed="p" failed="f}'
git status --short | head -5

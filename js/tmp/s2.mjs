import { Compiler } from "../lib/compiler.mjs";
import { compileText } from "../lib/util.mjs";
import { rt } from "../lib/loader.mjs";
const ctx = { compiler: new Compiler() };
const text = `type R1 = { v: false; next?: R1 };
type T2 = { a: undefined; name?: 1 };
export const Parsers = parse.buildParsers<{
  P3: { kind?: R1 } & { items: { a_shape: "constructor_0"; _tag: "constructor" } | { kind?: T2 | R1 | 2 | T2; a_shape: "toString_1"; _tag: "toString" } | [{ name: "toString"; tag: "constructor" | "constructor2"; y?: R1 } | { tag: "a"; type?: Date } | { tag: "c" } | { tag: "A" }] | number | "A" | "y" | null | "x" };
}>();`;
const r = await compileText(ctx, text);
console.log(r.res.code);
for (const k of ["P3"]) {
  try { console.log(k, "flat", JSON.stringify(r.parsers[k].schema()).slice(0,1500)); } catch (e) { console.log(k, "flat threw", e.message); }
  try { const pc = new rt.SchemaPrintingContext({refPathTemplate:"#/$defs/{name}", definitionContainerKey:"$defs"}); console.log(k, "ctx", JSON.stringify(r.parsers[k].schemaWithContext(pc)).slice(0,300), JSON.stringify(pc.exportDefinitions()).slice(0,1400)); } catch (e) { console.log(k, "ctx threw", e.message); }
}
ctx.compiler.close();

#!/bin/bash
# usage: s.sh PROP seed [nshards]
cd /verif/harness
N=${3:-4}
for sh in $(seq 0 $((N-1))); do timeout 900 ./target/release/semmon $1 --seed $2 --tier quick --shard $sh --of 16 --out /tmp/s$sh.json 2>/tmp/s$sh.err & done; wait
python3 - $N <<'PY'
import json,collections,sys
N=int(sys.argv[1])
sig=collections.Counter(); det={}
tot=0; inc=collections.Counter(); cnt=collections.Counter(); dist=set(); wall=0
for sh in range(N):
    try: r=json.load(open(f'/tmp/s{sh}.json'))
    except Exception as e:
        print('shard',sh,'no result',open(f'/tmp/s{sh}.err').read()[-500:]); continue
    tot+=r['evaluations']; wall=max(wall,r['wall_s'])
    for k,v in r['inconclusive'].items(): inc[k]+=v
    for k,v in r['counters'].items(): cnt[k]+=v
    dist|=set(r['distinct'])
    for v in r['violations']:
        sig[v['signature']]+=v['count']; det.setdefault(v['signature'],v['detail'])
print('judged',tot,'distinct',len(dist),'wall',round(wall,1))
print('inconclusive',dict(inc))
print('counters',{k:v for k,v in cnt.items() if not k.startswith('kind:') and not k.startswith('materialised-kind')})
print(len(sig),'signatures')
for s,c in sorted(sig.items(), key=lambda x:-x[1])[:40]: print(c,s); print('    '+det[s][:1500].replace('\n','\n    '))
PY

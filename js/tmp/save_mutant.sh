#!/bin/bash
# usage: save_mutant.sh <id>   (copies /tmp/wt-<id>/_seeded into /verif/seeded/<id>, removes the worktree)
id=$1
mkdir -p /verif/seeded/$id && cp -r /tmp/wt-$id/_seeded/. /verif/seeded/$id/
if [ ! -s /verif/seeded/$id/patch.diff ]; then (cd /tmp/wt-$id && git diff -- packages > /verif/seeded/$id/patch.diff); fi
rm -rf /verif/seeded/$id/target
ls /verif/seeded/$id
git -C /repo worktree remove --force /tmp/wt-$id

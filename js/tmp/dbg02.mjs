import { Compiler } from "../lib/compiler.mjs";
import { compileText } from "../lib/util.mjs";
const compiler = new Compiler();
const text = 'export const Parsers = parse.buildParsers<{ A: Record<`k_${string}`, unknown>; B: { [key: `id-${number}`]: any } }>();\n';
const r = await compileText({ compiler }, text);
console.log(r.res.outcome, JSON.stringify(r.res.diagnostics||"").slice(0,300));
for (const n of ["A","B"]) { console.log(n, JSON.stringify(r.parsers[n].schema()), r.parsers[n].validate({zz:1}), r.parsers[n].validate({k_a:1})); }
process.exit(0);

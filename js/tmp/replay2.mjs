import fs from "node:fs";
import { Compiler } from "../lib/compiler.mjs";
import { compileText } from "../lib/util.mjs";
import { fromEjson, show } from "../lib/ejson.mjs";
const ctx = { compiler: new Compiler() };
const c = JSON.parse(fs.readFileSync(process.argv[2], "utf8")).original;
const r = await compileText(ctx, c.text);
const v = fromEjson(c.value);
console.log(show(v, 2000));
console.log(c.parser, r.parsers[c.parser].validate(v), JSON.stringify(r.parsers[c.parser].safeParse(v)).slice(0,1500));
console.log(r.res.code)
ctx.compiler.close();

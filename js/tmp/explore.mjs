import { Rng } from "../lib/rng.mjs";
import { Compiler } from "../lib/compiler.mjs";
import { loadModule, buildAll, ALL_SETTINGS } from "../lib/loader.mjs";
import { TypeGen } from "../gen/typegen.mjs";
import { ValGen, hostilePool } from "../gen/valgen.mjs";
import { renderProgram, renderType } from "../gen/ast.mjs";
import { Ref } from "../ref/member.mjs";
import { show } from "../lib/ejson.mjs";
import { localise, makeValidateJudge, coreProgramText } from "../lib/localise.mjs";
process.removeAllListeners("warning");
const seed = Number(process.argv[2] ?? 1), N = Number(process.argv[3] ?? 50);
const comp = new Compiler();
let judged=0, dis=0, unspecified=0, progs=0, fails=0; const sigs=new Map();
for (let i=0;i<N;i++){
  const rng = new Rng(seed, "explore"+i);
  const g = new TypeGen(rng.fork("t"));
  const p = g.program();
  const text = renderProgram(p);
  const res = await comp.compile({files:{"entry.ts":text}, settings: ALL_SETTINGS});
  progs++;
  if (res.outcome !== "code") { fails++; console.log("COMPILE", res.outcome, JSON.stringify(res.diagnostics?.map(d=>d.message+"@"+d.line_lo)??res.panic??res).slice(0,300)); console.log(text); continue; }
  let parsers; try { parsers = buildAll(loadModule(res.code, ALL_SETTINGS)); } catch(e){ console.log("LOADFAIL", e.message); console.log(text); continue;}
  const refm = new Ref(p.env); const vg = new ValGen(rng.fork("v"), p.env);
  for (const ps of p.parsers){
    const core = p.cores.get(ps.name);
    const vals = [...vg.members(core, 12)];
    const muts = vals.flatMap(v=>vg.mutants(v,2));
    for (const v of [...vals, ...muts, ...hostilePool()]){
      let impl; try { impl = parsers[ps.name].validate(v) ? "Y":"N"; } catch(e){ impl="T:"+e.message; }
      let r; try { r = refm.member(core, v);} catch(e){ r="E:"+e.message; }
      if (r==="U") {unspecified++; continue;}
      judged++;
      if (impl!==r){ dis++; const judge = makeValidateJudge(p.env, comp, refm); const loc = await localise(p.env, core, v, judge, {impl, ref:r}); const sig = loc.signature; if(!sigs.has(sig)){ sigs.set(sig, {n:0, v:show(loc.value,100), t: coreProgramText(p.env, loc.core).trim().split("\n").pop().slice(0,150)}); } sigs.get(sig).n++; }
    }
  }
}
comp.close();
console.log({progs,fails,judged,dis,unspecified});
for (const [k,v] of sigs) console.log(v.n, k, "\n      ", v.t, "\n      ", v.v);

import { Compiler } from "../lib/compiler.mjs";
import { compileText } from "../lib/util.mjs";
import { rt } from "../lib/loader.mjs";
const ctx = { compiler: new Compiler() };
const r = await compileText(ctx, `export const Parsers = parse.buildParsers<{ X: { items: [{ tag: "a"; type?: Date } | { tag: "c" }] | number }, Y: [{ tag: "a"; type?: Date } | { tag: "c" }], Z: { tag: "a"; type?: Date } | { tag: "c" } }>();`);
for (const k of ["X","Y","Z"]) {
  try { console.log(k, "flat", JSON.stringify(r.parsers[k].schema()).slice(0,300)); } catch (e) { console.log(k, "flat threw", e.message); }
  try { const pc = new rt.SchemaPrintingContext({refPathTemplate:"#/$defs/{name}", definitionContainerKey:"$defs"}); console.log(k, "ctx", JSON.stringify(r.parsers[k].schemaWithContext(pc)).slice(0,300), JSON.stringify(pc.exportDefinitions()).slice(0,400)); } catch (e) { console.log(k, "ctx threw", e.message); }
}
ctx.compiler.close();

#!/bin/bash
# usage: w.sh seed
cd /verif/harness
for sh in 0 1 2 3; do ./target/release/watchmon C14 --seed $1 --tier quick --shard $sh --of 16 --out /tmp/w$sh.json 2>/dev/null & done; wait
python3 - <<'PY'
import json,collections
sig=collections.Counter(); det={}
tot=0
for sh in range(4):
    r=json.load(open(f'/tmp/w{sh}.json'))
    tot+=r['evaluations']
    for v in r['violations']:
        sig[v['signature']]+=v['count']; det.setdefault(v['signature'],v['detail'])
print('judged',tot, r['counters'])
for s,c in sorted(sig.items()): print(c,s); print('    '+det[s].split('\n')[0])
PY

import fs from "node:fs";
import { Compiler } from "../lib/compiler.mjs";
import { compileText } from "../lib/util.mjs";
import { hashmod } from "../lib/loader.mjs";
const ctx = { compiler: new Compiler() };
const c = JSON.parse(fs.readFileSync(process.argv[2], "utf8"));
const W = hashmod.Hash256Writer.prototype;
const logs = [];
for (const m of ["updateTag","updateString","updateNumber","updateBoolean","updateNull"]) { const o = W[m]; W[m] = function(v){ logs.push(m.replace("update","")+":"+v); return o.call(this,v); }; }
const a = await compileText(ctx, c.original); const b = await compileText(ctx, c.rewritten);
logs.length=0; a.parsers[c.parser].hash256(); const la = logs.slice();
logs.length=0; b.parsers[c.parser].hash256(); const lb = logs.slice();
let i=0; while(i<la.length && la[i]===lb[i]) i++;
console.log(la.length, lb.length, "first diff at", i); console.log(la.slice(Math.max(0,i-8), i+8)); console.log(lb.slice(Math.max(0,i-8), i+8));
ctx.compiler.close();

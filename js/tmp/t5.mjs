import { client, rt } from "../lib/loader.mjs";
const { b, buntyped } = client;
const p = b.String();
const cyc = {}; cyc.self = cyc;
for (const v of [1n, cyc, Symbol("x"), ()=>1, undefined]) { try { p.parse(v); } catch (e) { console.log(e.constructor.name, e.message); } }
const u = buntyped.Union(b.String(), b.Object({a: b.Number()}));
for (const v of [1n, cyc, {a: 1n}, {a: cyc}]) { try { console.log(JSON.stringify(u.safeParse(v).errors.length)); u.parse(v) } catch (e) { console.log(e.constructor.name, e.message.slice(0,200)); } }
const m = rt.buildParserFromRuntype(new rt.MapRuntype(undefined, new rt.TypeofRuntype(undefined,"string"), new rt.TypeofRuntype(undefined,"string")), "M", false);
try { m.parse(new Map([[1n, 2n],[cyc, cyc]])) } catch (e) { console.log(e.constructor.name, e.message.slice(0,300)); }

import { Compiler } from "../lib/compiler.mjs";
import { programItems, valuesFor } from "../lib/corpus.mjs";
import * as A from "../gen/ast.mjs";
import { checkTriple } from "../props/C03.mjs";
import { show } from "../lib/ejson.mjs";
const compiler = new Compiler();
const ctx = { compiler, seed: 1, count() {} };
const L = { k: "set", el: A.kw("string") };
const decls = [{ d: "alias", name: "Base", params: [], t: A.obj([A.prop("p", L), A.prop("id", A.kw("string"))]) }];
const programs = [{ decls, parsers: [{ name: "NamedInline", t: A.inter([A.ref("Base"), A.obj([A.prop("p", L), A.prop("extra", A.kw("number"))])]) }] }];
for await (const item of programItems(ctx, programs, "x")) {
  const core = item.prog.cores.get("NamedInline");
  const vals = valuesFor(item, core, { members: 8, mutantsPer: 2, hostile: false });
  for (const { v, origin } of vals.slice(0, 12)) {
    let acc; try { acc = item.parsers.NamedInline.validate(v); } catch (e) { acc = "T"; }
    const f = checkTriple(item.parsers.NamedInline, "NamedInline", v, {}, core, item.ref);
    console.log(origin, show(v, 100), acc, JSON.stringify(f));
  }
}
process.exit(0);

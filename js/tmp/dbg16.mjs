import { Compiler } from "../lib/compiler.mjs";
import { compileText } from "../lib/util.mjs";
import { rt } from "../lib/loader.mjs";
const compiler = new Compiler();
const text = 'type Money = { amount: number; currency: string };\ntype Invoice = { /** Price of the item. */ price: Money };\ntype Refund = { /** Amount paid back. */ refund: Money };\ntype Total = { total: Money };\nexport const Parsers = parse.buildParsers<{ PI: Invoice; PR: Refund; PT: Total }>();\n';
const r = await compileText({ compiler }, text);
for (const order of [["PI","PR","PT"],["PT","PI","PR"],["PR","PI"]]) {
  const pc = new rt.SchemaPrintingContext({ refPathTemplate: "#/$defs/{name}", definitionContainerKey: "$defs" });
  for (const n of order) r.parsers[n].schemaWithContext(pc);
  console.log(order.join(">"), JSON.stringify(pc.exportDefinitions()).slice(0, 400));
}
process.exit(0);

import { Compiler } from "../lib/compiler.mjs";
import { compileProgram } from "../lib/util.mjs";
import { Ref } from "../ref/member.mjs";
import { localise, makeValidateJudge } from "../lib/localise.mjs";
import * as A from "../gen/ast.mjs";
const compiler = new Compiler();
const ctx = { compiler };
const prog = { decls: [], parsers: [{ name: "X", t: A.obj([A.prop("kind", A.lit("lit")), A.prop("v", A.lit(1e21))]) }] };
const r = await compileProgram(ctx, prog);
const v = { kind: "lit", v: 1e21 };
const core = r.cores.get("X");
const ref = new Ref(r.env);
const judge = makeValidateJudge(r.env, compiler, ref, undefined);
console.log("root", await judge(core, v));
const rr = r.env.resolve(core);
for (const p of rr.props) {
  try { console.log(p.name, JSON.stringify(p.t), v[p.name], await judge(p.t, v[p.name])); } catch (e) { console.log("judge threw", e.message); }
}
console.log(await localise(r.env, core, v, judge, { impl: "N", ref: "Y" }));
process.exit(0);

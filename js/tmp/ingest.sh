#!/bin/bash
# usage: ingest.sh C16-e   : copies the agent's deliverables from /tmp/wt-<id>/_seeded to /verif/seeded/<id>
id=$1; wt=/tmp/wt-$id; dst=/verif/seeded/$id
mkdir -p $dst
for f in $wt/_seeded/*; do b=$(basename $f); [ "$b" = TASK.md ] && continue; [ "$b" = loader.mjs ] && [ ! -s $f ] && continue; cp -r $f $dst/; done
git -C /repo apply --check $dst/patch.diff && echo "patch applies to /repo HEAD" || echo "PATCH DOES NOT APPLY"
git -C $wt status --short | head
git -C $wt diff --stat -- packages | tail -3

#!/bin/bash
# usage: once.sh '<ts source>'
python3 - "$1" <<'PY' > /tmp/once_req.json
import json,sys
print(json.dumps({"id":1,"files":{"entry.ts":sys.argv[1]},"settings":{"string_formats":[],"number_formats":[]}}))
PY
/verif/harness/target/release/beffc --once /tmp/once_req.json | python3 -c "
import json,sys
r=json.loads(sys.stdin.read())
print(r['outcome'], json.dumps(r.get('diagnostics'))[:600], r.get('panic'))
print((r.get('code') or '')[:3000])"

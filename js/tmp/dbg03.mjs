import { Compiler } from "../lib/compiler.mjs";
import { compileText } from "../lib/util.mjs";
const compiler = new Compiler();
const text = 'type Base = { p: Set<string>; id: string };\nexport const Parsers = parse.buildParsers<{ X: Base & { p: Set<string>; extra: number } }>();\n';
const r = await compileText({ compiler }, text);
console.log(r.res.outcome, (r.res.code||"").slice(0,900));
const v = { id: "x", extra: 1, p: new Set(["a","b"]) };
console.log(r.parsers.X.validate(v), r.parsers.X.parse(v));
process.exit(0);

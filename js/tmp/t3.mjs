import { Compiler } from "../lib/compiler.mjs";
import { compileText } from "../lib/util.mjs";
const ctx = { compiler: new Compiler() };
const text = process.argv[2];
const r = await compileText(ctx, text);
if (!r.parsers) { console.log(JSON.stringify(r.res).slice(0,1500)); process.exit(0); }
console.log(r.res.code);
const vals = JSON.parse(process.argv[3] ?? "[]");
for (const v of vals) for (const k of Object.keys(r.parsers)) console.log(k, JSON.stringify(v), r.parsers[k].validate(v), JSON.stringify(r.parsers[k].safeParse(v)).slice(0,300));
ctx.compiler.close();

import { Compiler } from "../lib/compiler.mjs";
const c = new Compiler();
for (const text of process.argv.slice(2)) {
  const r = await c.compile({files:{"entry.ts":text}, debug_types:true, settings:{string_formats:["even"],number_formats:["int"]}});
  console.log("----", text, "\n=>", r.outcome, r.types ?? JSON.stringify(r.diagnostics?.map(d=>d.message) ?? r.panic ?? r));
}
c.close();

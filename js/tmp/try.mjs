// usage: node try.mjs '<ts source with parse.buildParsers<{..}>()>' '<js expr giving an array of values>' [strict]
import { Compiler } from "../lib/compiler.mjs";
import { loadModule, buildAll, ALL_SETTINGS } from "../lib/loader.mjs";
import { show } from "../lib/ejson.mjs";
process.removeAllListeners("warning");
const src = process.argv[2];
const vals = eval(process.argv[3] ?? "[]");
const comp = new Compiler();
const text = /buildParsers/.test(src) ? src : `import parse from "./parser";\n${src}\nexport const P = parse.buildParsers<{T: T}>();`;
const res = await comp.compile({ files: { "entry.ts": text }, settings: ALL_SETTINGS });
comp.close();
if (res.outcome !== "code") {
  console.log(res.outcome, JSON.stringify(res.diagnostics ?? res.panic ?? res).slice(0, 1500));
  process.exit(0);
}
if (process.env.SHOWCODE) console.log(res.code);
const parsers = buildAll(loadModule(res.code, ALL_SETTINGS));
for (const [n, p] of Object.entries(parsers)) {
  console.log("==", n, "describe:", (() => { try { return p.describe(); } catch (e) { return "THROW " + e.message; } })());
  for (const v of vals) {
    const out = [];
    for (const o of [undefined, { disallowExtraProperties: true }]) {
      let a, b, c;
      try { a = p.validate(v, o); } catch (e) { a = "THROW " + e.constructor.name + ":" + e.message.slice(0, 80); }
      try { const r = p.safeParse(v, o); b = r.success ? "ok:" + show(r.data, 120) : "err:" + JSON.stringify(r.errors, (k, x) => typeof x === "bigint" ? x + "n" : x)?.slice(0, 300); } catch (e) { b = "THROW " + e.constructor.name + ":" + e.message.slice(0, 80); }
      try { c = "ret:" + show(p.parse(v, o), 80); } catch (e) { c = "THROW " + e.constructor.name + ":" + e.message.slice(0, 120); }
      out.push(`${o ? "strict" : "default"}: validate=${a} safeParse=${b} parse=${c}`);
    }
    console.log("  value", show(v, 100), "\n     ", out.join("\n      "));
  }
}

import { TypeGen } from "../gen/typegen.mjs";
import { renderProgram } from "../gen/ast.mjs";
import { Rng } from "../lib/rng.mjs";
let hits = 0, total = 0;
for (let i = 0; i < 2400; i++) {
  const g = new TypeGen(new Rng(1, "cnt" + i), { nonJson: true, onlyRepresentableNumbers: true });
  const p = g.program({ nDecls: 6, nParsers: 5 });
  const t = renderProgram(p);
  total++;
  const m = t.match(/Record<`[^`]*`, (unknown|any)>|\[key: `[^`]*`\]: (unknown|any)/g);
  if (m) hits += m.length;
}
console.log({ total, hits });

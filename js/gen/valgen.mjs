// Value generator: members by construction from the core type, one-edit mutants of values, and a
// fixed hostile pool applied to every type. Inputs whose own code throws (throwing getters, Proxy
// traps that throw) are deliberately not generated: an exception raised by the input is not beff
// throwing.
import { Point } from "../lib/ejson.mjs";
import { STRING_FORMATS, NUMBER_FORMATS } from "../lib/formats.mjs";

const NONE = Symbol("none");
const STRS = ["", "a", "b", "c", "abc", "x-y", "é", "a\nb", "0", "toString", "ok", "err", "A", "true", "a b", "12", "-1"];
const NUMS = [0, 1, -1, 1.5, 42, 2, 100, NaN, Infinity, -0, 7, 1e21];
const FMT_STRS = ["", "ab", "abcd", "AB", "aé", "abc", "Ab", "x", "éé"];
const FMT_NUMS = [1, 2, 50, -3, 0.5, 1000, Infinity, 0, -50, 99.5, NaN];

export function hostilePool() {
  class K {
    constructor() {
      this.a = "a";
    }
  }
  const ownProto = JSON.parse('{"__proto__": {"a": 1}, "a": "x"}');
  const sparse = [1, , 3];
  const withCtor = { constructor: "c", toString: "t", hasOwnProperty: 1 };
  const deep = (() => {
    let v = [];
    for (let i = 0; i < 200; i++) v = [v];
    return v;
  })();
  const deepObj = (() => {
    let v = {};
    for (let i = 0; i < 200; i++) v = { a: 1, next: v };
    return v;
  })();
  // an object that cannot be converted to a string (no toString / valueOf) and serialises to nothing
  const unstringable = Object.create(null);
  unstringable.toJSON = () => undefined;
  const cyclic = { a: "a" };
  cyclic.self = cyclic;
  const cyclicArr = [1];
  cyclicArr.push(cyclicArr);
  return [
    cyclic, cyclicArr, new Map([[1n, 2n]]), new Set([1n]), { a: 1n },
    undefined, null, true, false, 0, 1, -1, NaN, "", "a", [], {}, [null], [undefined], { a: undefined },
    new Date(0), new Date(NaN), new Map(), new Set(), new Map([["a", 1]]), new Set(["a"]), 1n,
    new Uint8Array(2), new Float64Array(1), new BigInt64Array(1), new Int8Array(0),
    () => 1, function named() {}, Symbol("s"), Object.create(null), new K(), new Point({ a: "a", b: 1 }),
    ownProto, withCtor, sparse, new String("a"), new Number(1), new Boolean(false),
    new Proxy({ a: "a" }, {}), deep, deepObj, { kind: "toString" }, { kind: "constructor" }, { type: "__proto__" },
    { kind: "a" }, { type: "a" }, { _tag: "a" }, { tag: "hasOwnProperty" }, [[]], [{}], { length: 0 }, "__proto__",
    Object.assign(Object.create({ inherited: 1 }), { a: "a" }),
    unstringable, new Map([[unstringable, "x"]]), new Set([unstringable]), [unstringable], { a: unstringable },
  ];
}

export class ValGen {
  constructor(rng, env) {
    this.rng = rng;
    this.env = env;
  }
  anyValue() {
    const r = this.rng;
    return r.pick([null, undefined, 1, "s", true, [], {}, { a: 1 }, [1, "a"], new Date(0), 1n]);
  }
  tplPartStr(p) {
    const r = this.rng;
    if (p.s != null) return p.s;
    if (p.alts) return this.tplPartStr(r.pick(p.alts));
    if (p.h === "string") return r.pick(["", "x", "ab c", "9", "zz"]);
    if (p.h === "number") return r.pick(["0", "12", "3.5", "7", "100"]);
    return r.pick(["true", "false"]);
  }
  keyFor(K) {
    const r = this.rng;
    K = this.env.resolve(K);
    switch (K.c) {
      case "prim":
        return K.p === "number" ? r.pick(["0", "1", "42"]) : r.pick(["k1", "zz", "other", "a-b", "0"]);
      case "lit":
        return String(K.v);
      case "tpl":
        return K.parts.map((p) => this.tplPartStr(p)).join("");
      case "union":
        return this.keyFor(r.pick(K.ts));
      case "fmt": {
        const v = this.member(K, 1);
        return typeof v === "string" ? v : "k";
      }
    }
    return "k";
  }
  // a value intended to be a member (the reference still classifies it)
  member(t, d) {
    const r = this.rng;
    switch (t.c) {
      case "ref": {
        const def = this.env.defs.get(t.key);
        if (def == null) return NONE;
        return this.member(def, d - 1);
      }
      case "any":
        return this.anyValue();
      case "never":
        return NONE;
      case "fn":
        return () => 1;
      case "prim":
        if (t.p === "string") return r.pick(STRS);
        if (t.p === "number") return r.pick(NUMS);
        if (t.p === "boolean") return r.chance(0.5);
        return r.pick([0n, 5n, -1n]);
      case "nullish":
        return r.chance(0.5) ? null : undefined;
      case "lit":
        return t.v;
      case "tpl":
        return t.parts.map((p) => this.tplPartStr(p)).join("");
      case "fmt": {
        const table = t.base === "string" ? STRING_FORMATS : NUMBER_FORMATS;
        const pool = r.shuffle(t.base === "string" ? FMT_STRS : FMT_NUMS);
        const ok = pool.find((x) => t.chain.every((f) => table[f] && table[f](x)));
        return ok === undefined ? NONE : ok;
      }
      case "date":
        return r.chance(0.8) ? new Date(r.below(1e6)) : new Date(NaN);
      case "typed": {
        const ctor = globalThis[t.name];
        return new ctor(r.below(3));
      }
      case "arr": {
        const n = d <= 0 ? 0 : r.wpick([[2, 0], [3, 1], [3, 2], [1, 4]]);
        const out = [];
        for (let i = 0; i < n; i++) {
          const x = this.member(t.el, d - 1);
          if (x === NONE) return [];
          out.push(x);
        }
        return out;
      }
      case "tuple": {
        const out = [];
        for (const it of t.items) {
          const x = this.member(it, d - 1);
          if (x === NONE) return NONE;
          out.push(x);
        }
        if (t.rest && d > 0) {
          const n = r.below(3);
          for (let i = 0; i < n; i++) {
            const x = this.member(t.rest, d - 1);
            if (x === NONE) break;
            out.push(x);
          }
        }
        return out;
      }
      case "map": {
        const m = new Map();
        const n = d <= 0 ? 0 : r.below(3);
        for (let i = 0; i < n; i++) {
          const k = this.member(t.key, d - 1);
          const v = this.member(t.val, d - 1);
          if (k === NONE || v === NONE) break;
          m.set(k, v);
        }
        return m;
      }
      case "set": {
        const s = new Set();
        const n = d <= 0 ? 0 : r.below(3);
        for (let i = 0; i < n; i++) {
          const v = this.member(t.el, d - 1);
          if (v === NONE) break;
          s.add(v);
        }
        return s;
      }
      case "union": {
        for (const x of r.shuffle(t.ts)) {
          if (d <= 0 && x.c === "ref" && t.ts.some((y) => y.c !== "ref")) continue;
          const v = this.member(x, d);
          if (v !== NONE) return v;
        }
        return NONE;
      }
      case "inter": {
        const vs = t.ts.map((x) => this.member(x, d));
        if (vs.some((v) => v === NONE)) return NONE;
        if (vs.every((v) => v !== null && typeof v === "object" && !Array.isArray(v) && Object.getPrototypeOf(v) === Object.prototype)) return Object.assign({}, ...vs);
        return r.pick(vs);
      }
      case "anyobj":
        return r.pick([{}, { a: 1 }, { "x-y": [1] }]);
      case "obj": {
        const o = {};
        for (const p of t.props) {
          if (p.opt) {
            const mode = d <= 0 ? 0 : r.below(4);
            if (mode === 0) continue;
            if (mode === 1) {
              o[p.name] = r.chance(0.5) ? null : undefined;
              continue;
            }
          }
          const v = this.member(p.t, d - 1);
          if (v === NONE) {
            if (p.opt) continue;
            return NONE;
          }
          Object.defineProperty(o, p.name, { value: v, enumerable: true, writable: true, configurable: true });
        }
        if (t.index && d > 0) {
          const n = r.below(3);
          for (let i = 0; i < n; i++) {
            const k = this.keyFor(t.index.key);
            if (Object.prototype.hasOwnProperty.call(o, k)) continue;
            const v = this.member(t.index.val, d - 1);
            if (v === NONE) break;
            Object.defineProperty(o, k, { value: v, enumerable: true, writable: true, configurable: true });
          }
        } else if (!t.index && r.chance(0.15)) {
          o[r.pick(["extra", "zzz", "constructor", "toString"])] = r.pick([1, "x", null]);
        }
        return o;
      }
    }
    return NONE;
  }

  members(t, n, depth = 4) {
    const out = [];
    for (let i = 0; i < n; i++) {
      const v = this.member(t, depth);
      if (v !== NONE) out.push(v);
    }
    return out;
  }

  // one-edit mutants of v (each a fresh structure; v is never modified)
  mutants(v, n) {
    const out = [];
    for (let i = 0; i < n; i++) {
      const m = this.mutateAt(v, 0);
      if (m !== NONE) out.push(m);
    }
    return out;
  }
  scalarMut(v) {
    const r = this.rng;
    // one character replaced by a neighbour in code-point order or by a character from the middle of
    // the ASCII ranges (what an accidental character class or range would let through)
    if (typeof v === "string" && v.length > 0 && r.chance(0.35)) {
      const i = r.below(v.length);
      const c = v.charCodeAt(i);
      const repl = r.pick([String.fromCharCode(c + 1), String.fromCharCode(Math.max(32, c - 1)), "5", "A", "=", ".", "+", "Q", "m", "@", "/"]);
      return v.slice(0, i) + repl + v.slice(i + 1);
    }
    if (typeof v === "string")
      return r.pick(["x" + v, v + "y", v.slice(0, Math.floor(v.length / 2)) + "~" + v.slice(Math.floor(v.length / 2)), v.toUpperCase() === v ? v.toLowerCase() + "q" : v.toUpperCase(), "", v + "\n", " " + v, v.length, "-" + v, v + v]);
    if (typeof v === "number") return r.pick([v + 1, -v - 1, v + 0.5, NaN, String(v), v * 2 + 3, null]);
    if (typeof v === "boolean") return r.pick([!v, String(v), v ? 1 : 0, null]);
    if (typeof v === "bigint") return r.pick([Number(v), String(v), v + 1n]);
    if (v == null) return r.pick([0, "", false, {}, []]);
    return NONE;
  }
  mutateAt(v, depth) {
    const r = this.rng;
    if (v === null || typeof v !== "object") return this.scalarMut(v);
    if (Array.isArray(v)) {
      const c = v.slice();
      const op = r.below(v.length ? 5 : 2);
      if (op === 0) c.push(v.length ? v[0] : "extra");
      else if (op === 1) c.push(r.pick([null, 1, "s", {}, []]));
      else if (op === 2) c.pop();
      else if (op === 3) {
        const i = r.below(c.length);
        c[i] = r.pick([null, undefined, 1, "s", {}, [], true]);
      } else {
        const i = r.below(c.length);
        const m = this.mutateAt(c[i], depth + 1);
        if (m === NONE) return NONE;
        c[i] = m;
      }
      return c;
    }
    if (v instanceof Date) return r.pick([v.getTime(), v.toISOString?.call(new Date(0)), {}, null]);
    if (v instanceof Map) {
      const m = new Map(v);
      if (r.chance(0.5) || m.size === 0) m.set(r.pick(["zz", 99, null, {}]), r.pick([null, 1, "s", {}]));
      else {
        const [k, x] = [...m][r.below(m.size)];
        const mu = this.mutateAt(x, depth + 1);
        m.set(k, mu === NONE ? null : mu);
      }
      return m;
    }
    if (v instanceof Set) {
      const s = new Set(v);
      s.add(r.pick(["zz", 99, null, {}]));
      return s;
    }
    if (ArrayBuffer.isView(v)) return r.pick([[...v].map(Number), {}, new Uint16Array(1), new Float32Array(1)]);
    if (Object.getPrototypeOf(v) !== Object.prototype) return NONE;
    const keys = Object.keys(v);
    const c = {};
    for (const k of keys) Object.defineProperty(c, k, { value: v[k], enumerable: true, writable: true, configurable: true });
    const op = r.below(keys.length ? 6 : 1);
    if (op === 0) {
      const k = r.pick(["extra", "zz", "constructor", "toString", "__proto__", "0", "k_9", "a-b"]);
      Object.defineProperty(c, k, { value: r.pick([1, "x", null, {}, true]), enumerable: true, writable: true, configurable: true });
    } else if (op === 1) delete c[r.pick(keys)];
    else if (op === 2) c[r.pick(keys)] = r.pick([null, undefined]);
    else if (op === 3) {
      const k = r.pick(keys);
      c[k] = r.pick([1, "s", true, {}, [], "toString", "constructor"]);
    } else {
      const k = r.pick(keys);
      const m = this.mutateAt(c[k], depth + 1);
      if (m === NONE) return NONE;
      Object.defineProperty(c, k, { value: m, enumerable: true, writable: true, configurable: true });
    }
    return c;
  }
}
export { NONE };

// containers with very many items of the wrong kind (reporting must not depend on gathering them all)
export function bulkValues(n = 200000) {
  const bad = Array(n).fill("x");
  const badNums = Array(n).fill(7);
  const obj = {};
  for (let i = 0; i < 60000; i++) obj["k" + i] = i % 2 ? "s" : 1;
  const map = new Map();
  const set = new Set();
  for (let i = 0; i < n; i++) {
    map.set("k" + i, i % 2 ? "s" : i);
    set.add(i % 2 ? "s" + i : i);
  }
  return [
    ["array-of-strings", bad], ["array-of-numbers", badNums], ["object-with-array-of-strings", { items: bad, a: bad }], ["object-with-array-of-numbers", { items: badNums, a: badNums }],
    ["wide-object", obj], ["big-map", map], ["big-set", set], ["tuple-like", ["a", ...badNums]], ["tuple-like-strings", [1, ...bad]],
  ];
}
export const BULK_PROGRAM = `export const Parsers = parse.buildParsers<{
  A: number[]; B: string[]; C: { items: number[] }; D: { items: string[]; a?: boolean[] }; E: [string, ...string[]]; F: [number, ...number[]];
  G: Record<string, number>; H: { a: number }; I: Map<string, number>; J: Set<number>; K: string | number[]; L: { items: (string | boolean[])[] } & { a: number[] };
}>();
`;

// Objects that only look like built-ins: they inherit from a built-in prototype without having its
// internal slots (walking them throws a TypeError), subclasses, built-ins with extra own
// properties, and built-ins beff has no type for. C03 offers them to validators of Map / Set / Date /
// typed arrays / unknown / object types, bare and wrapped; only the no-throw and agreement clauses
// are judged on them (whether they are members is left open).
export const IMPOSTOR_PROGRAM = `type M = Map<string, number>; type S = Set<string>; type D = Date; type U8 = Uint8Array; type F64 = Float64Array;
type Unk = unknown; type O = { a?: string }; type R = Record<string, unknown>; type A = unknown[]; type T = [unknown, ...unknown[]];
type UM = M | S | D | U8 | string; type UO = { m: M | null } | { s: S };
type IM = { m: M } & { m: Map<string, 1 | 2> };
type UU = unknown | { a: 1 }; type OU = { x: { a: 1 } | unknown };
type DU = { k: "a", m: M } | { k: "b", s: S };
type UU2 = { x: { a: 1, b?: unknown } | { a: 1, c?: unknown } };
type MM = Map<M, S>; type SS = Set<M | S | D>;
export const Parsers = parse.buildParsers<{M:M,S:S,D:D,U8:U8,F64:F64,Unk:Unk,O:O,R:R,A:A,T:T,UM:UM,UO:UO,IM:IM,UU:UU,OU:OU,DU:DU,UU2:UU2,MM:MM,SS:SS}>();
`;
export function impostorValues() {
  function* gen() {
    yield 1;
  }
  return {
    fakeMap: Object.create(Map.prototype), fakeSet: Object.create(Set.prototype), fakeDate: Object.create(Date.prototype),
    fakeU8: Object.create(Uint8Array.prototype), fakeF64: Object.create(Float64Array.prototype), fakeArray: Object.create(Array.prototype),
    fakeRegExp: Object.create(RegExp.prototype), fakePromise: Object.create(Promise.prototype), fakeError: Object.create(Error.prototype),
    fakeString: Object.create(String.prototype), fakeNumber: Object.create(Number.prototype), fakeBigInt: Object.create(BigInt.prototype), fakeSymbol: Object.create(Symbol.prototype),
    fakeFunction: Object.create(Function.prototype), fakeAB: Object.create(ArrayBuffer.prototype), fakeDV: Object.create(DataView.prototype),
    fakeWeakMap: Object.create(WeakMap.prototype), fakeTypedArray: Object.create(Object.getPrototypeOf(Uint8Array.prototype)),
    error: new Error("e"), regexp: /x/g, ab: new ArrayBuffer(4), sab: new SharedArrayBuffer(4), dv: new DataView(new ArrayBuffer(4)), weakmap: new WeakMap(), weakset: new WeakSet(),
    promise: Promise.resolve(1), genobj: gen(), args: (function () { return arguments; })(1, 2), url: new URL("http://a/b"), usp: new URLSearchParams("a=1"), weakref: new WeakRef({}),
    boxedBig: Object(1n), boxedSym: Object(Symbol("s")), mapIter: new Map([[1, 2]]).entries(), setIter: new Set([1]).values(),
    classExtMap: new (class extends Map {})([["a", 1]]), classExtSet: new (class extends Set {})(["a"]), classExtDate: new (class extends Date {})(0), classExtArr: new (class extends Array {})(2), classExtU8: new (class extends Uint8Array {})(2),
    mapOwnProps: Object.assign(new Map([["a", 1]]), { a: "x", m: new Map() }), arrOwnProps: Object.assign([1], { a: "x" }), fnProps: Object.assign(() => 1, { a: "x", k: "a" }), dateProps: Object.assign(new Date(0), { a: 1 }),
    buffer: Buffer.from("ab"), detached: (() => { const a = new Uint8Array(4); structuredClone(a.buffer, { transfer: [a.buffer] }); return a; })(),
    nullProtoNested: Object.assign(Object.create(null), { x: Object.assign(Object.create(null), { a: 1 }) }),
    math: Math, json: JSON, intl: new Intl.NumberFormat(), reflect: Reflect, atomics: Atomics,
    mapOfFakes: new Map([["k", Object.create(Map.prototype)]]), setOfFakes: new Set([Object.create(Set.prototype)]), realMapKeyedByFake: new Map([[Object.create(Map.prototype), new Set()]]),
  };
}
export const IMPOSTOR_WRAPS = { raw: (v) => v, inM: (v) => ({ m: v }), inS: (v) => ({ s: v }), inX: (v) => ({ x: v }), inArr: (v) => [v], asMapVal: (v) => new Map([["k", v]]), asMapKey: (v) => new Map([[v, new Set()]]), asSetItem: (v) => new Set([v]), k_a_m: (v) => ({ k: "a", m: v }), k_b_s: (v) => ({ k: "b", s: v }), x_a_b: (v) => ({ x: { a: 1, b: v, c: v } }) };

// Seeded, grammar-directed generator of well-formed programs in the supported TypeScript subset.
// Every generated type is evaluated by the reference normaliser while it is built; constructs
// that fall outside the reference's specified region (Unsupported) are re-drawn, so every parser
// of a generated program has a core type the oracle can judge.
import * as A from "./ast.mjs";
import { Env, Unsupported, C, canon } from "../ref/normalize.mjs";

const PLAIN_KEYS = ["a", "b", "c", "d", "id", "name", "value", "kind", "type", "tag", "x", "y", "items", "next"];
const HOSTILE_KEYS = ["a-b", "constructor", "toString", "0", "", "has space", "hasOwnProperty", "valueOf", "length", "1e3", "é", "007", "01", "00", "10", "0x10", "1.0", "-1", "1_000"];
const HOSTILE_NAMES = ["constructor", "valueOf", "toString", "hasOwnProperty", "__proto__", "Price$$", "A$$B", "$", "isPrototypeOf"];
const HOSTILE_LITS = ['say "hi"', 'C:\\dir\\"my file"', '"a"\n"b"', "it's", "back`tick", "${x}", "a\\b", "line\nbreak", "\u2028", "é€😀", "'\"", "*/", "</script>", "\\", "tab\there"];
const STR_LITS = ["a", "b", "c", "x", "y", "ok", "err", "A", "", "a b", "toString", "constructor", "0", "true", "null"];
const NUM_LITS = [0, 1, 2, -1, 1.5, 42, 100, 1e21];
const TYPED = ["Uint8Array", "Uint8ClampedArray", "Uint16Array", "Uint32Array", "Int8Array", "Int16Array", "Int32Array", "Float32Array", "Float64Array", "BigInt64Array", "BigUint64Array"];
const DISC_KEYS = ["kind", "type", "_tag", "tag"];
const DISC_VALS = ["a", "b", "c", "circle", "square", "ok", "err", "toString", "constructor", "x-y", "A"];
const QUASIS = ["a", "b", "-", "_", "id:", "x.", "(", ")", "[", "$", "^", "|", "/", "?", "+", "*", " ", "{", "}", "é", "\\", "`", "${x", "\n", "\\n", "\r"]; // (the last five need escaping inside a template: a backslash, a backtick, "${", a line break, backslash + n)

export const DEFAULT_FEATURES = {
  nonJson: true, // Date, bigint, Map, Set, typed arrays
  formats: true,
  templates: true,
  hostileKeys: true,
  protoKey: false, // a property literally named __proto__
  nonObjectInter: true, // intersections of non-object types
  namedInter: true, // intersections of named object types (runtime AllOf)
  records: true,
  numberKeyRecords: false,
  templateKeyRecords: true,
  recursion: true,
  generics: true,
  enums: true,
  typeofConst: true,
  utilities: true,
  keyofIndex: true,
  mapped: true,
  conditional: true,
  exclude: true,
  discriminated: true,
  indexWithProps: true,
  any: true,
  never: true,
  tuples: true,
  jsdoc: true,
  maxDepth: 4,
  cycleHeavy: false, // bias declarations and parsers toward recursive / mutually recursive types (C16)
  onlyRepresentableNumbers: false, // drop 1e21 (C01-lit-fixed-point) where it would only add noise
};

export class TypeGen {
  constructor(rng, features = {}) {
    this.rng = rng;
    this.f = { ...DEFAULT_FEATURES, ...features };
    this.decls = [];
    this.env = new Env([]);
    this.info = new Map(); // name -> {core, cls}
    this.counter = 0;
    this.usedHostile = new Set();
    this.stats = {};
  }
  bump(k) {
    this.stats[k] = (this.stats[k] || 0) + 1;
  }
  fresh(prefix) {
    // now and then a legal identifier that collides with a member of Object.prototype or carries
    // characters that are special in String.replace patterns / generated identifiers
    if ((prefix === "T" || prefix === "I") && this.f.hostileNames !== false && this.rng.chance(0.04)) {
      const free = HOSTILE_NAMES.filter((n) => !this.usedHostile.has(n));
      if (free.length) {
        const n = this.rng.pick(free);
        this.usedHostile.add(n);
        this.counter++;
        return n;
      }
    }
    return `${prefix}${this.counter++}`;
  }
  addDecl(d) {
    this.decls.push(d);
    this.env.decls.set(d.name, d);
  }
  removeDecl(d) {
    const i = this.decls.indexOf(d);
    if (i >= 0) this.decls.splice(i, 1);
    this.env.decls.delete(d.name);
  }
  // try to evaluate; returns core or null
  tryNorm(t) {
    try {
      return this.env.norm(t);
    } catch (e) {
      if (e.unsupported) {
        this.bump("unsupported:" + e.message.split(" ").slice(0, 3).join(" "));
        return null;
      }
      throw e;
    }
  }
  classify(core) {
    let r;
    try {
      r = this.env.resolve(core);
    } catch {
      return "other";
    }
    const s = (() => {
      try {
        return this.env.shapeOf(core);
      } catch {
        return null;
      }
    })();
    if (s && !s.index && s.props.length > 0) return "object";
    if (s && s.index) return "objectIdx";
    if (s) return "emptyObject";
    if (r.c === "union" && r.ts.every((x) => x.c === "lit" && typeof x.v === "string")) return "strLits";
    if (r.c === "lit" && typeof r.v === "string") return "strLits";
    if (r.c === "arr") return "array";
    if (r.c === "tuple") return "tuple";
    if (r.c === "lit" || r.c === "prim") return "scalar";
    if (r.c === "union" && r.ts.every((x) => x.c === "lit" || x.c === "prim")) return "scalarUnion";
    return "other";
  }
  register(d) {
    // evaluate a non-generic declaration; returns false (and removes it) when unsupported
    if (d.params && d.params.length) return true;
    if (d.d === "const") return true;
    const core = this.tryNorm(A.ref(d.name));
    if (core == null) {
      this.removeDecl(d);
      return false;
    }
    this.info.set(d.name, { core, cls: this.classify(core) });
    return true;
  }
  namesOf(cls) {
    return [...this.info.entries()].filter(([, i]) => (Array.isArray(cls) ? cls.includes(i.cls) : i.cls === cls)).map(([n]) => n);
  }

  // ---------------------------------------------------------------- leaves and small types
  key() {
    const r = this.rng;
    if (this.f.protoKey && r.chance(0.05)) return "__proto__";
    if (this.f.hostileKeys && r.chance(0.12)) return r.pick(HOSTILE_KEYS);
    return r.pick(PLAIN_KEYS);
  }
  strLit() {
    // now and then a literal that needs escaping wherever it is printed (emitted JavaScript, describe(), schema)
    if (this.f.hostileLits !== false && this.rng.chance(0.05)) return A.lit(this.rng.pick(HOSTILE_LITS));
    return A.lit(this.rng.pick(STR_LITS));
  }
  numLit() {
    return A.lit(this.rng.pick(this.f.onlyRepresentableNumbers ? NUM_LITS.filter((n) => Math.abs(n) < 2 ** 53) : NUM_LITS));
  }
  scalarLeaf() {
    const r = this.rng;
    return r.wpick([
      [5, () => A.kw("string")],
      [5, () => A.kw("number")],
      [3, () => A.kw("boolean")],
      [3, () => this.strLit()],
      [2, () => this.numLit()],
      [1, () => A.lit(r.chance(0.5))],
    ])();
  }
  leaf() {
    const r = this.rng;
    const opts = [
      [10, () => this.scalarLeaf()],
      [2, () => A.kw("null")],
      [1, () => A.kw("undefined")],
    ];
    if (this.f.any) opts.push([1, () => A.kw(r.pick(["any", "unknown"]))]);
    if (this.f.never) opts.push([0.3, () => A.kw("never")]);
    if (this.f.nonJson) {
      opts.push([1, () => A.kw("bigint")]);
      opts.push([1, () => ({ k: "builtin", name: "Date" })]);
      opts.push([0.6, () => ({ k: "builtin", name: r.pick(TYPED) })]);
      opts.push([0.3, () => ({ k: "fn" })]); // a function-typed member: validated with typeof, not printable as JSON Schema
    }
    if (this.f.formats) opts.push([1.5, () => this.fmt()]);
    if (this.f.templates) opts.push([2, () => this.template()]);
    const named = [...this.info.keys()];
    if (named.length) opts.push([6, () => A.ref(r.pick(named))]);
    if (this.f.enums) {
      const enums = this.decls.filter((d) => d.d === "enum");
      if (enums.length)
        opts.push([1, () => {
          const e = r.pick(enums);
          return { k: "enumMember", en: e.name, member: r.pick(e.members).name };
        }]);
    }
    return r.wpick(opts)();
  }
  fmt() {
    const r = this.rng;
    const base = r.pick(["string", "number"]);
    const pool = base === "string" ? ["even", "lower", "nonempty", "ascii"] : ["int", "pos", "finite", "small"];
    const n = r.wpick([[5, 1], [3, 2], [1, 3]]);
    return { k: "fmt", base, chain: r.shuffle(pool).slice(0, n) };
  }
  template() {
    const r = this.rng;
    const n = 1 + r.below(3);
    const parts = [];
    let holes = 0;
    for (let i = 0; i < n; i++) {
      if (r.chance(0.7)) parts.push(r.pick(QUASIS) + (r.chance(0.3) ? r.pick(QUASIS) : ""));
      const h = r.wpick([
        [4, () => A.kw("string")],
        [4, () => A.kw("number")],
        [2, () => A.kw("boolean")],
        [3, () => A.union(r.shuffle(["a", "b", "c", "x-y", "a.b", ""]).slice(0, 2 + r.below(2)).map((s) => A.lit(s)))],
        // alternatives that are single characters, regex metacharacters among them (a hole like that
        // invites a character class: `-` between two others, `^` first, `]`, `\\`)
        [2, () => A.union(r.shuffle([" ", "-", "_", "+", "~", "^", "]", "[", "\\", ".", "*", "a", "z", "0", "9", "!", ",", ""]).slice(0, 2 + r.below(4)).map((s) => A.lit(s)))],
        [1, () => {
          const names = this.namesOf("strLits");
          return names.length ? A.ref(r.pick(names)) : A.kw("string");
        }],
      ])();
      parts.push(h);
      holes++;
    }
    if (r.chance(0.5)) parts.push(r.pick(QUASIS));
    // avoid two adjacent holes without a quasi between them being ambiguous for the reader: allowed anyway
    return { k: "tpl", parts };
  }

  // ---------------------------------------------------------------- composite types
  props(depth, n, { allowOpt = true } = {}) {
    const r = this.rng;
    const used = new Set();
    const out = [];
    for (let i = 0; i < n; i++) {
      let name = this.key();
      if (used.has(name)) continue;
      used.add(name);
      const p = A.prop(name, this.type(depth - 1), allowOpt && r.chance(0.3));
      // an optional member that spells its missing value out as well: `a?: T | undefined`, `a?: T | null`
      if (p.opt && r.chance(0.2)) p.t = A.union([p.t, ...r.pick([[A.kw("undefined")], [A.kw("null")], [A.kw("null"), A.kw("undefined")]])]);
      if (r.chance(0.15)) p.ro = true;
      if (r.chance(0.1)) p.quote = true;
      if (this.f.jsdoc && r.chance(this.f.jsdocRate ?? 0.08)) p.doc = { kind: "jsdoc", text: r.pick(["the field", "a */ tricky doc", "multi word doc", "another wording", "price of the item", "amount paid back"]).replace("*/", "* /") };
      out.push(p);
    }
    return out;
  }
  objectType(depth) {
    const r = this.rng;
    const n = r.wpick([[1, 0], [3, 1], [4, 2], [3, 3], [1, 5]]);
    const o = A.obj(this.props(depth, n));
    if (this.f.records && this.f.indexWithProps && r.chance(0.08)) {
      // index signature next to properties: TypeScript requires property types assignable to the
      // index value type; use one shared value type for all of them
      const vt = this.type(Math.min(1, depth - 1));
      for (const p of o.props) {
        p.t = vt;
        p.opt = false;
      }
      o.index = { key: A.kw("string"), val: vt, pname: "k" };
    }
    return o;
  }
  recordType(depth) {
    const r = this.rng;
    // (records whose value is unknown / any are printed through a special case of the schema printer)
    const val = this.f.any && r.chance(0.15) ? A.kw(r.pick(["unknown", "any"])) : this.type(depth - 1);
    const keyOpts = [
      [5, () => A.kw("string")],
      [3, () => A.union(r.shuffle(["a", "b", "c", "x-y", "0"]).slice(0, 1 + r.below(3)).map((s) => A.lit(s)))],
    ];
    if (this.f.numberKeyRecords) keyOpts.push([2, () => A.kw("number")]);
    if (this.f.templateKeyRecords && this.f.templates) keyOpts.push([2, () => ({ k: "tpl", parts: [r.pick(["k_", "id-", "x"]), A.kw(r.pick(["string", "number"]))] })]);
    const names = this.namesOf("strLits");
    if (names.length) keyOpts.push([2, () => A.ref(r.pick(names))]);
    const key = r.wpick(keyOpts)();
    if (r.chance(0.25)) return { k: "obj", props: [], index: { key: key.k === "kw" || key.k === "tpl" ? key : A.kw("string"), val, pname: "key" } };
    return A.util("Record", [key, val]);
  }
  tupleType(depth) {
    const r = this.rng;
    const n = r.wpick([[1, 0], [3, 1], [4, 2], [2, 3]]);
    const items = [];
    for (let i = 0; i < n; i++) items.push(this.type(depth - 1));
    const t = A.tuple(items, r.chance(0.3) ? this.type(depth - 1) : null);
    if (r.chance(0.15)) t.ro = true;
    if (r.chance(0.2)) t.labels = true; // [m0: A, m1: B, ...rest: C[]]
    return t;
  }
  unionType(depth) {
    const r = this.rng;
    const n = 2 + r.below(3);
    const ts = [];
    for (let i = 0; i < n; i++) ts.push(this.type(depth - 1));
    return A.union(ts);
  }
  litUnion() {
    const r = this.rng;
    const kind = r.wpick([[5, "str"], [2, "num"], [2, "mixed"]]);
    const n = 2 + r.below(4);
    const ts = [];
    for (let i = 0; i < n; i++) {
      if (kind === "str") ts.push(this.strLit());
      else if (kind === "num") ts.push(this.numLit());
      else ts.push(r.wpick([[3, () => this.strLit()], [2, () => this.numLit()], [1, () => A.lit(r.chance(0.5))], [1, () => A.kw("null")]])());
    }
    return A.union(ts);
  }
  interType(depth) {
    const r = this.rng;
    const objNames = this.namesOf(["object"]);
    const mode = r.wpick([
      [4, "lits"],
      [this.f.namedInter && objNames.length >= 1 ? 4 : 0, "named"],
      [this.f.nonObjectInter ? 1.5 : 0, "scalar"],
      [this.f.records ? 1 : 0, "objrec"],
      [2, "optflip"],
      [this.f.utilities && objNames.length >= 1 ? 2 : 0, "utilmix"],
      [this.f.namedInter && objNames.length >= 1 ? 3 : 0, "namedshared"],
    ]);
    if (mode === "namedshared") {
      // a named object type intersected with an inline object that declares some of the same
      // properties again, with identical types (the projections of both members must be merged)
      const n = r.pick(objNames);
      const d = this.decls.find((x) => x.name === n);
      const own = d && d.d === "alias" && d.t.k === "obj" ? d.t.props : d && d.d === "iface" ? d.props : null;
      if (own && own.length) {
        const exotic = own.filter((q) => ["map", "set", "arr", "obj"].includes(q.t.k));
        const pool = exotic.length && r.chance(0.7) ? exotic : own;
        const shared = r.shuffle(pool).slice(0, 1 + r.below(2)).map((q) => ({ ...q, doc: undefined }));
        const extra = this.props(depth, r.below(2)).map((q) => ({ ...q, name: q.name + "_s" }));
        const b = A.obj([...shared, ...extra]);
        return A.inter(r.chance(0.5) ? [A.ref(n), b] : [b, A.ref(n)]);
      }
    }
    if (mode === "optflip") {
      // the same key declared in two members with the same or a different type / optionality
      const ps = this.props(depth, 1 + r.below(2));
      if (!ps.length) return this.objectType(depth);
      const p = ps[0];
      const twin = r.wpick([
        [4, () => ({ ...p, opt: !p.opt })],
        [1, () => ({ ...p })],
        [1, () => ({ ...p, t: this.scalarLeaf() })],
      ])();
      const other = this.props(depth, r.below(2)).filter((q) => !ps.some((x) => x.name === q.name));
      const a = A.obj(ps);
      const b = A.obj([twin, ...other]);
      return A.inter(r.chance(0.5) ? [a, b] : [b, a]);
    }
    if (mode === "utilmix") {
      const n = r.pick(objNames);
      const keys = this.env.shapeOf(this.info.get(n).core).props.map((q) => q.name);
      const k = A.lit(r.pick(keys));
      const picked = r.chance(0.5) ? A.util("Pick", [A.ref(n), k]) : A.util("Required", [A.util("Pick", [A.ref(n), k])]);
      const rest = r.pick([A.util("Partial", [A.ref(n)]), A.util("Omit", [A.ref(n), k]), A.util("Partial", [A.util("Pick", [A.ref(n), k])])]);
      return A.inter(r.chance(0.5) ? [picked, rest] : [rest, picked]);
    }
    if (mode === "lits") {
      // object literals with disjoint keys (or identical duplicated members)
      const k = 2 + r.below(2);
      const used = new Set();
      const ts = [];
      for (let i = 0; i < k; i++) {
        const ps = this.props(depth, 1 + r.below(2)).filter((p) => !used.has(p.name));
        ps.forEach((p) => used.add(p.name));
        ts.push(A.obj(ps));
      }
      if (r.chance(0.2) && ts[0].props.length) ts[1].props.push({ ...ts[0].props[0] });
      return A.inter(ts);
    }
    if (mode === "named") {
      const a = A.ref(r.pick(objNames));
      const b = r.chance(0.5) && objNames.length > 1 ? A.ref(r.pick(objNames)) : A.obj(this.props(depth, 1 + r.below(2)).map((p) => ({ ...p, name: p.name + "_n" })));
      return A.inter(r.chance(0.5) ? [a, b] : [b, a]);
    }
    if (mode === "scalar") {
      return r.wpick([
        [3, () => A.inter([A.union([A.lit("a"), A.lit("b")]), A.union([A.lit("b"), A.lit("c")])])],
        [2, () => A.inter([A.kw("string"), A.union([A.lit("a"), A.lit("b")])])],
        [2, () => A.inter([A.union([A.kw("string"), A.kw("number")]), A.union([A.kw("number"), A.kw("boolean")])])],
        [1, () => A.inter([A.kw("string"), A.kw("number")])],
      ])();
    }
    // object & record: the record's value type judges the object's own keys as well - any / unknown,
    // or a constrained type that a declared literal may or may not satisfy
    if (r.chance(0.5)) {
      const lits = r.shuffle(["on", "off", "auto", "x"]);
      const declared = A.union(lits.slice(0, 1 + r.below(2)).map((s) => A.lit(s)));
      const val = r.wpick([
        [3, () => A.union(r.shuffle(lits).slice(0, 2).map((s) => A.lit(s)))],
        [2, () => A.kw("string")],
        [1, () => ({ k: "tpl", parts: ["o", A.kw("string")] })],
        [1, () => A.union([A.kw("string"), A.kw("number")])],
      ])();
      return A.inter(r.shuffle([A.obj([A.prop("mode", declared, r.chance(0.3))]), A.util("Record", [A.kw("string"), val])]));
    }
    return A.inter([A.obj(this.props(depth, 1)), A.util("Record", [A.kw("string"), A.kw(r.pick(["any", "unknown"]))])]);
  }
  utilType(depth) {
    const r = this.rng;
    const objNames = this.namesOf("object");
    if (!objNames.length) return this.objectType(depth);
    const name = r.pick(objNames);
    const shape = this.env.shapeOf(this.info.get(name).core);
    const keys = shape.props.map((p) => p.name);
    const keySubset = () => {
      const ks = r.shuffle(keys).slice(0, 1 + r.below(Math.min(3, keys.length)));
      return ks.length === 1 ? A.lit(ks[0]) : A.union(ks.map((k) => A.lit(k)));
    };
    const target = r.chance(0.15) ? A.inter([A.ref(name), A.obj([A.prop("extra_u", this.scalarLeaf())])]) : A.ref(name);
    return r.wpick([
      [3, () => A.util("Partial", [target])],
      [2, () => A.util("Required", [target])],
      [2, () => A.util("Readonly", [target])],
      [3, () => A.util("Pick", [A.ref(name), keySubset()])],
      [3, () => A.util("Omit", [target, r.chance(0.85) ? keySubset() : A.lit("not_a_key")])],
      [this.f.keyofIndex ? 2 : 0, () => ({ k: "keyof", t: A.ref(name) })],
      [this.f.keyofIndex ? 2 : 0, () => ({ k: "index", obj: A.ref(name), idx: keySubset() })],
      [this.f.mapped ? 2 : 0, () => ({ k: "mapped", param: "K", constraint: { k: "keyof", t: A.ref(name) }, val: r.chance(0.6) ? { k: "index", obj: A.ref(name), idx: A.ref("K") } : this.scalarLeaf(), opt: r.chance(0.3), ro: r.chance(0.2), plus: r.chance(0.3) })],
      [this.f.mapped ? 1 : 0, () => ({ k: "mapped", param: "P", constraint: A.union([A.lit("p"), A.lit("q")]), val: r.chance(0.4) ? A.ref("P") : this.type(depth - 1), opt: r.chance(0.3), ro: false, plus: r.chance(0.3) })],
      [this.f.mapped && this.f.records ? 0.7 : 0, () => ({ k: "mapped", param: "P", constraint: A.kw("string"), val: this.type(depth - 1), opt: r.chance(0.3), ro: false, plus: r.chance(0.3) })],
    ])();
  }
  condType(depth) {
    const r = this.rng;
    const scalar = () =>
      r.wpick([
        [4, () => this.scalarLeaf()],
        [3, () => A.union([this.scalarLeaf(), this.scalarLeaf()])],
        [2, () => {
          const names = this.namesOf(["strLits", "scalar", "scalarUnion"]);
          return names.length ? A.ref(r.pick(names)) : this.scalarLeaf();
        }],
        [1, () => A.obj([A.prop("t", this.scalarLeaf())])],
      ])();
    // a named type against its own body written inline (and the other way round): must take the true branch
    const named = this.decls.filter((d) => d.d === "alias" && !(d.params || []).length && ["tuple", "arr", "obj"].includes(d.t.k));
    if (named.length && r.chance(0.25)) {
      const d = r.pick(named);
      const [check, ext] = r.chance(0.5) ? [A.ref(d.name), d.t] : [d.t, A.ref(d.name)];
      return { k: "cond", check, ext, a: this.type(depth - 1), b: this.type(depth - 1) };
    }
    // flat objects that differ in how a property may be missing: `a: T`, `a: T | undefined`, `a?: T`,
    // `a?: T | undefined`, `a: T | null`, or no `a` at all
    if (r.chance(0.2)) {
      const T = this.scalarLeaf();
      const side = () => {
        const k = r.below(6);
        const extra = r.chance(0.3) ? [A.prop("b", A.kw("number"))] : [];
        if (k === 5) return A.obj(extra);
        const t = k === 1 || k === 3 ? A.union([T, A.kw("undefined")]) : k === 4 ? A.union([T, A.kw("null")]) : T;
        return A.obj([A.prop("a", t, k === 2 || k === 3), ...extra]);
      };
      return { k: "cond", check: side(), ext: side(), a: A.lit("yes"), b: A.lit("no") };
    }
    return { k: "cond", check: scalar(), ext: scalar(), a: this.type(depth - 1), b: this.type(depth - 1) };
  }
  excludeType() {
    const r = this.rng;
    return r.wpick([
      [4, () => {
        const lits = r.shuffle(["a", "b", "c", "d"]).slice(0, 2 + r.below(3)).map((s) => A.lit(s));
        const rm = r.shuffle(lits).slice(0, 1 + r.below(2));
        return A.util("Exclude", [A.union(lits), rm.length === 1 ? rm[0] : A.union(rm)]);
      }],
      [3, () => A.util("Exclude", [A.union(r.shuffle([A.kw("string"), A.kw("number"), A.kw("boolean"), A.lit("z"), A.lit(7)]).slice(0, 3)), r.pick([A.kw("string"), A.kw("number"), A.kw("boolean")])])],
      [2, () => A.util("Exclude", [A.union([A.obj([A.prop("kind", A.lit("a")), A.prop("p", A.kw("string"))]), A.obj([A.prop("kind", A.lit("b")), A.prop("q", A.kw("number"))])]), A.obj([A.prop("kind", A.lit(r.pick(["a", "b"])))])])],
      [2, () => {
        const names = this.namesOf("strLits");
        return names.length ? A.util("Exclude", [A.ref(r.pick(names)), this.strLit()]) : A.util("Exclude", [A.kw("boolean"), A.lit(true)]);
      }],
      // any named (possibly recursive) type through the semantic path: Exclude<N | null, null>
      [this.decls.some((d) => d.d === "alias" && !(d.params || []).length && d.name.startsWith("R")) ? 3 : 0, () => {
        const d = r.pick(this.decls.filter((d) => d.d === "alias" && !(d.params || []).length && d.name.startsWith("R")));
        return A.util("Exclude", [A.union([A.ref(d.name), A.kw("null")]), A.kw("null")]);
      }],
      // the same for any named type (tuples, arrays, objects, unions behind an alias or interface)
      [this.decls.some((d) => (d.d === "alias" || d.d === "iface") && !(d.params || []).length) ? 3 : 0, () => {
        const d = r.pick(this.decls.filter((d) => (d.d === "alias" || d.d === "iface") && !(d.params || []).length));
        const extra = r.pick([A.kw("null"), A.kw("boolean"), A.lit("zz")]);
        return A.util("Exclude", [A.union([A.ref(d.name), extra]), extra]);
      }],
    ])();
  }
  discUnion(depth) {
    const r = this.rng;
    const key = r.pick(DISC_KEYS);
    const vals = r.shuffle(DISC_VALS).slice(0, 2 + r.below(3));
    const second = r.chance(0.25) ? r.pick(DISC_KEYS.filter((k) => k !== key).concat(["zz_mode", "a_shape"])) : null;
    const branches = vals.map((v, i) => {
      const ps = this.props(depth, r.below(3)).filter((p) => p.name !== key && p.name !== second);
      const dv = i === 0 && r.chance(0.2) ? A.union([A.lit(v), A.lit(v + "2")]) : A.lit(v);
      // (now and then the tag is optional in ONE member: such a key cannot be dispatched on)
      const all = [A.prop(key, dv, i === 1 && r.chance(0.12)), ...ps];
      // sometimes a second property that would qualify as discriminator as well
      if (second) all.push(A.prop(second, A.lit(`${v}_${i}`)));
      // sometimes a tagged member also carries an index signature (written inline or as an
      // intersection with a Record): the tag must be a string for the signature to admit it
      if (this.f.records && !second && r.chance(0.15)) {
        const val = r.pick([A.kw("string"), A.union([A.kw("string"), A.kw("number")]), A.kw("string")]);
        // (TypeScript requires every named property to be assignable to the index signature's value)
        const named = all.filter((p) => (p.t.k === "lit" && typeof p.t.v === "string") || (p.t.k === "kw" && p.t.name === "string") || (p.name === key && p.t.k !== "union") || (p.name === key && p.t.k === "union"));
        if (r.chance(0.5)) return A.obj(named, { key: A.kw("string"), val, pname: "k" });
        return A.inter([A.obj(named), A.util("Record", [A.kw("string"), val])]);
      }
      return A.obj(r.chance(0.5) ? all : r.shuffle(all));
    });
    // sometimes two variants carry the SAME tag value and overlap (optional members only differ)
    if (r.chance(0.15) && branches.length >= 2 && branches[0].k === "obj") {
      const twin = A.obj([A.prop(key, A.lit(vals[0])), A.prop("twin_label", A.kw("string"), true)]);
      branches.splice(1, 0, twin);
    }
    if (r.chance(0.2)) {
      // factor a shared base through an intersection
      const base = A.obj([A.prop("base_f", this.scalarLeaf())]);
      return A.inter([base, A.union(branches)]);
    }
    return A.union(branches);
  }
  type(depth) {
    const r = this.rng;
    if (depth <= 0) return this.leaf();
    const f = this.f;
    const t = r.wpick([
      [10, () => this.leaf()],
      [5, () => this.objectType(depth)],
      [3, () => A.arr(this.type(depth - 1), r.pick(["[]", "[]", "Array", "ReadonlyArray", "readonly[]"]))],
      [f.tuples ? 2 : 0, () => this.tupleType(depth)],
      [4, () => this.unionType(depth)],
      [2, () => this.litUnion()],
      [2, () => this.interType(depth)],
      [f.records ? 2 : 0, () => this.recordType(depth)],
      [f.utilities ? 2 : 0, () => this.utilType(depth)],
      [f.discriminated ? 2 : 0, () => this.discUnion(depth)],
      [f.conditional ? 1 : 0, () => this.condType(depth)],
      [f.exclude ? 1 : 0, () => this.excludeType()],
      [f.nonJson ? 1 : 0, () => (r.chance(0.5) ? { k: "map", key: this.scalarLeaf(), val: this.type(depth - 1) } : { k: "set", el: this.scalarLeaf() })],
      [f.generics ? 1.5 : 0, () => this.genericInstance(depth)],
      [f.generics ? 0.7 : 0, () => this.twoInstances(depth)],
      [f.discriminated ? 0.7 : 0, () => this.siblingDiscUnions(depth)],
      [0.5, () => ({ k: "paren", t: this.type(depth - 1) })],
    ])();
    return t;
  }
  // two different instances of one generic next to each other (same tags, different payloads)
  twoInstances(depth) {
    const gens = this.decls.filter((d) => (d.d === "alias" || d.d === "iface") && d.params && d.params.length);
    if (!gens.length) return this.siblingDiscUnions(depth);
    const g = this.rng.pick(gens);
    const inst = () => A.ref(g.name, g.params.map(() => this.scalarLeaf()));
    return A.obj([A.prop("first", inst()), A.prop("second", inst()), A.prop("third", inst(), true)]);
  }
  // two discriminated unions over the same key and tag values whose variants carry different payloads
  siblingDiscUnions(depth) {
    const r = this.rng;
    const key = r.pick(DISC_KEYS);
    const vals = r.shuffle(DISC_VALS).slice(0, 2 + r.below(2));
    const mk = () => A.union(vals.map((v) => A.obj([A.prop(key, A.lit(v)), A.prop("payload", this.scalarLeaf(), r.chance(0.2))])));
    return A.obj([A.prop("left", mk()), A.prop("right", mk())]);
  }
  genericInstance(depth) {
    const gens = this.decls.filter((d) => (d.d === "alias" || d.d === "iface") && d.params && d.params.length);
    if (!gens.length) return this.leaf();
    const g = this.rng.pick(gens);
    // (a union of scalars now and then: conditional types over the parameter distribute over it)
    const namedUnions = [...this.namesOf(["strLits", "scalarUnion"]), ...this.decls.filter((d) => d.d === "enum").map((d) => d.name)];
    const special = () => (namedUnions.length && this.rng.chance(0.6) ? A.ref(this.rng.pick(namedUnions)) : this.rng.chance(0.7) ? A.kw("boolean") : A.kw("never"));
    return A.ref(g.name, g.params.map(() => (this.rng.chance(0.12) ? special() : this.rng.chance(0.2) ? A.union([this.scalarLeaf(), this.scalarLeaf(), A.lit("a")]) : this.rng.chance(0.7) ? this.scalarLeaf() : this.type(Math.min(1, depth - 1)))));
  }
  // a type guaranteed to evaluate in the reference (re-draws on Unsupported)
  goodType(depth) {
    for (let i = 0; i < 8; i++) {
      const t = this.type(depth);
      if (this.tryNorm(t) != null) return t;
    }
    return this.scalarLeaf();
  }

  // ---------------------------------------------------------------- declarations
  declare() {
    const r = this.rng;
    const f = this.f;
    const depth = 1 + r.below(this.f.maxDepth - 1);
    const doc = f.jsdoc && r.chance(0.1) ? { kind: r.pick(["jsdoc", "line", "block"]), text: "doc of decl" } : undefined;
    const kind = r.wpick([
      [6, "objAlias"],
      [4, "iface"],
      [3, "litUnion"],
      [f.enums ? 2 : 0, "enum"],
      [f.generics ? 2 : 0, "generic"],
      [f.recursion ? (f.cycleHeavy ? 6 : 2) : 0, "recursive"],
      [f.recursion ? (f.cycleHeavy ? 4 : 1) : 0, "mutual"],
      [f.recursion && f.discriminated ? (f.cycleHeavy ? 6 : 1) : 0, "mutualDisc"],
      [f.discriminated ? 2 : 0, "disc"],
      [f.typeofConst ? 1.5 : 0, "const"],
      [4, "misc"],
    ]);
    const tryAdd = (d) => {
      this.addDecl(d);
      if (!this.register(d)) return false;
      this.bump("decl:" + kind);
      return true;
    };
    switch (kind) {
      case "objAlias":
        return tryAdd({ d: "alias", name: this.fresh("T"), params: [], t: this.objectType(depth), doc });
      case "iface": {
        const objNames = this.namesOf("object");
        const ext = [];
        if (objNames.length && r.chance(0.5)) {
          const used = new Set();
          for (const n of r.shuffle(objNames).slice(0, 1 + r.below(2))) {
            // avoid conflicting members between parents
            const ks = this.env.shapeOf(this.info.get(n).core).props.map((p) => p.name);
            if (ks.some((k) => used.has(k))) continue;
            ks.forEach((k) => used.add(k));
            ext.push(A.ref(n));
          }
          const own = this.props(depth, 1 + r.below(2)).filter((p) => !used.has(p.name));
          return tryAdd({ d: "iface", name: this.fresh("I"), params: [], ext, props: own, index: null, doc, splitAt: own.length >= 2 && r.chance(0.15) ? 1 : 0 });
        }
        const o = this.objectType(depth);
        return tryAdd({ d: "iface", name: this.fresh("I"), params: [], ext: [], props: o.props, index: o.index, doc, splitAt: o.props.length >= 2 && r.chance(0.15) ? 1 + r.below(o.props.length - 1) : 0 });
      }
      case "litUnion":
        return tryAdd({ d: "alias", name: this.fresh("L"), params: [], t: r.chance(0.7) ? A.union(r.shuffle(STR_LITS.filter((s) => s !== "")).slice(0, 2 + r.below(3)).map((s) => A.lit(s))) : this.litUnion(), doc });
      case "enum": {
        const str = r.chance(0.6);
        const n = 1 + r.below(4);
        const members = [];
        for (let i = 0; i < n; i++) members.push({ name: "M" + i, v: str ? r.pick(["a", "b", "c", "d", "x y", "A"]) + i : i * (r.chance(0.3) ? 10 : 1) });
        const en = this.fresh("E");
        const added = tryAdd({ d: "enum", name: en, members });
        // the enum as a value: typeof E is the object of its members, keyof typeof E their names
        if (added && f.typeofEnum !== false && r.chance(0.3)) {
          const tq = { k: "typeof", name: en, path: [], ofEnum: true };
          const t = r.wpick([
            [3, () => ({ k: "keyof", t: tq })],
            [2, () => tq],
            [2, () => ({ k: "index", obj: tq, idx: { k: "keyof", t: tq } })],
            [1, () => ({ k: "typeof", name: en, path: [members[0].name], ofEnum: true })],
          ])();
          tryAdd({ d: "alias", name: this.fresh("TE"), params: [], t });
        }
        return added;
      }
      case "generic": {
        const name = this.fresh("G");
        const two = r.chance(0.3);
        const params = two ? ["X", "Y"] : ["X"];
        const body = r.wpick([
          [4, () => A.obj([A.prop("value", A.ref("X")), A.prop("list", A.arr(A.ref(two ? "Y" : "X")), r.chance(0.4))])],
          [2, () => A.union([A.obj([A.prop("_tag", A.lit("Left")), A.prop("left", A.ref("X"))]), A.obj([A.prop("_tag", A.lit("Right")), A.prop("right", A.ref(two ? "Y" : "X"))])])],
          [2, () => A.union([A.ref("X"), A.kw("null")])],
          [1, () => A.ref("X")],
          [f.recursion ? 2 : 0, () => A.obj([A.prop("item", A.ref("X")), A.prop("next", A.ref(name, params.map((p) => A.ref(p))), true)])],
          [1, () => A.tuple([A.ref("X"), A.ref(two ? "Y" : "X")])],
          // a conditional type over the naked parameter (distributes over a union argument)
          [f.conditional !== false ? 2 : 0, () => ({ k: "cond", check: A.ref("X"), ext: r.pick([A.kw("string"), A.kw("number"), A.union([A.kw("string"), A.kw("null")]), A.lit("a")]), a: r.pick([A.lit("yes"), A.arr(A.ref("X")), A.ref("X"), A.obj([A.prop("hit", A.ref("X"))])]), b: r.pick([A.lit("no"), A.kw("never"), A.kw("null"), A.obj([A.prop("miss", A.lit(true))])]) })],
          // a distributive conditional whose branch instantiates ANOTHER distributive conditional with a
          // named union - the one the outer type is instantiated with right after its declaration
          [
            f.conditional !== false && this.decls.some((d) => d.d === "alias" && d.params && d.params.length === 1 && d.t.k === "cond" && d.t.check.k === "ref" && d.t.check.name === d.params[0]) && this.namesOf(["strLits", "scalarUnion"]).length ? 3 : 0,
            () => {
              const inner = r.pick(this.decls.filter((d) => d.d === "alias" && d.params && d.params.length === 1 && d.t.k === "cond" && d.t.check.k === "ref" && d.t.check.name === d.params[0]));
              const u = r.pick(this.namesOf(["strLits", "scalarUnion"]));
              this.pendingInstance = { of: name, arg: u };
              const hit = A.ref(inner.name, [A.ref(u)]);
              return { k: "cond", check: A.ref("X"), ext: r.pick([A.kw("string"), A.union([A.kw("string"), A.kw("number")]), A.lit("a")]), a: r.chance(0.7) ? hit : A.obj([A.prop("inner", hit)]), b: r.chance(0.5) ? A.lit("no") : hit };
            },
          ],
          // a generic instantiated inside another one whose parameter has the same name, with an
          // argument that differs from the outer parameter
          [
            this.decls.some((d) => d.params && d.params.length === 1 && (d.d === "alias" || d.d === "iface")) ? 3 : 0,
            () => {
              const inner = r.pick(this.decls.filter((d) => d.params && d.params.length === 1 && (d.d === "alias" || d.d === "iface")));
              const arg = r.wpick([
                [3, () => A.arr(A.ref("X"))],
                [2, () => A.obj([A.prop("x", A.ref("X"))])],
                [2, () => A.union([A.ref("X"), A.kw("null")])],
                [1, () => A.kw(r.pick(["string", "number", "boolean"]))],
                [1, () => A.tuple([A.ref("X"), A.ref("X")])],
              ])();
              return A.obj([A.prop("label", A.ref("X")), A.prop("inner", A.ref(inner.name, [arg]), r.chance(0.3))]);
            },
          ],
        ])();
        // a type parameter named like a declared type that another declaration mentions: inside that
        // other declaration the name still means the declared type (parameters are lexically scoped)
        {
          const plain = this.decls.filter((d) => (d.d === "alias" || d.d === "iface") && !(d.params || []).length);
          const pairs = [];
          for (const b of plain) {
            const mentioned = new Set();
            A.mapDecl(b, (x) => {
              if (x.k === "ref" && !(x.args || []).length) mentioned.add(x.name);
              return x;
            });
            for (const a of plain) if (a.name !== b.name && mentioned.has(a.name) && /^[A-Za-z_][A-Za-z0-9_]*$/.test(a.name)) pairs.push([a, b]);
          }
          if (pairs.length && r.chance(0.3)) {
            const [a, b] = r.pick(pairs);
            return tryAdd({ d: "alias", name, params: [a.name], t: A.obj([A.prop("items", A.arr(A.ref(b.name))), A.prop("cursor", A.ref(a.name)), A.prop("one", A.ref(b.name), true)]), doc });
          }
        }
        // a generic interface that extends another generic with (a transformation of) its own parameter
        const parents = this.decls.filter((d) => d.params && d.params.length === 1 && ((d.d === "iface" && !(d.ext || []).length) || (d.d === "alias" && d.t.k === "obj")));
        if (parents.length && r.chance(0.25)) {
          const parent = r.pick(parents);
          const taken = new Set((parent.d === "iface" ? parent.props : parent.t.props).map((p) => p.name));
          const arg = r.wpick([
            [3, () => A.ref("X")],
            [2, () => A.arr(A.ref("X"))],
            [1, () => A.union([A.ref("X"), A.kw("null")])],
          ])();
          const own = [A.prop("own_x", A.ref("X"), r.chance(0.3)), A.prop("own_n", this.scalarLeaf(), r.chance(0.3))].filter((q) => !taken.has(q.name));
          return tryAdd({ d: "iface", name, params: ["X"], ext: [A.ref(parent.name, [arg])], props: own, index: null, doc });
        }
        if (r.chance(0.4) && body.k === "obj") return tryAdd({ d: "iface", name, params, ext: [], props: body.props, index: null, doc });
        {
          const ok = tryAdd({ d: "alias", name, params, t: body, doc });
          const pi = this.pendingInstance;
          this.pendingInstance = null;
          if (ok && pi && pi.of === name && !two) tryAdd({ d: "alias", name: this.fresh("TO"), params: [], t: A.ref(name, [A.ref(pi.arg)]) });
          return ok;
        }
      }
      case "recursive": {
        const name = this.fresh("R");
        const self = A.ref(name);
        const t = r.wpick([
          [3, () => A.obj([A.prop("v", this.scalarLeaf()), A.prop("next", self, true)])],
          [3, () => A.obj([A.prop("v", this.scalarLeaf()), A.prop("kids", A.arr(self))])],
          [2, () => A.obj([A.prop("v", this.scalarLeaf()), A.prop("next", A.union([self, A.kw("null")]))])],
          [2, () => A.union([A.kw("string"), A.kw("number"), A.kw("boolean"), A.kw("null"), A.arr(self), A.obj([], { key: A.kw("string"), val: self, pname: "k" })])],
          [1, () => A.obj([A.prop("l", self, true), A.prop("r", self, true), A.prop("kind", A.lit("node"))])],
          [f.tuples ? 1 : 0, () => A.tuple([this.scalarLeaf()], self)],
          [1, () => A.union([A.obj([A.prop("kind", A.lit("leaf")), A.prop("v", this.scalarLeaf())]), A.obj([A.prop("kind", A.lit("node")), A.prop("kids", A.arr(self))])])],
          // aliases whose body is directly a Set / Map that leads back to the alias
          [f.nonJson ? 1.5 : 0, () => r.wpick([
            [2, () => ({ k: "set", el: self })],
            [2, () => ({ k: "set", el: A.union([self, this.scalarLeaf()]) })],
            [2, () => ({ k: "set", el: A.obj([A.prop("label", A.kw("string")), A.prop("below", self)]) })],
            [2, () => ({ k: "map", key: A.kw("string"), val: self })],
            [1, () => ({ k: "map", key: A.kw("string"), val: A.union([self, A.kw("null")]) })],
          ])()],
        ])();
        return tryAdd({ d: "alias", name, params: [], t, doc });
      }
      case "mutual": {
        const a = this.fresh("MA");
        const b = this.fresh("MB");
        const da = { d: "alias", name: a, params: [], t: A.obj([A.prop("b", A.ref(b), true), A.prop("v", this.scalarLeaf())]) };
        const db = r.chance(0.5)
          ? { d: "iface", name: b, params: [], ext: [], props: [A.prop("as", A.arr(A.ref(a))), A.prop("w", this.scalarLeaf(), true)], index: null }
          : { d: "alias", name: b, params: [], t: A.union([A.obj([A.prop("a", A.ref(a))]), A.kw("null")]) };
        this.addDecl(da);
        this.addDecl(db);
        const ok = this.register(da) && this.register(db);
        if (!ok) {
          this.removeDecl(da);
          this.removeDecl(db);
          this.info.delete(a);
          this.info.delete(b);
        } else this.bump("decl:mutual");
        return ok;
      }
      case "mutualDisc": {
        // a discriminated union with inline variants that lies on a cycle through another named type
        const a = this.fresh("XD");
        const b = this.fresh("XH");
        const key = r.pick(DISC_KEYS);
        const da = {
          d: "alias",
          name: a,
          params: [],
          t: A.union([
            A.obj([A.prop(key, A.lit("lit")), A.prop("v", this.scalarLeaf())]),
            A.obj([A.prop(key, A.lit("block")), A.prop("holder", r.chance(0.5) ? A.ref(b) : A.arr(A.ref(b)))]),
            ...(r.chance(0.4) ? [A.obj([A.prop(key, A.lit("pair")), A.prop("l", A.ref(a), true), A.prop("r", A.ref(b), true)])] : []),
          ]),
        };
        const db = { d: r.chance(0.5) ? "alias" : "iface", name: b, params: [], ext: [], props: [A.prop("e", A.ref(a)), A.prop("label", this.scalarLeaf(), true)], index: null };
        if (db.d === "alias") db.t = A.obj(db.props);
        this.addDecl(da);
        this.addDecl(db);
        const ok = this.register(da) && this.register(db);
        if (!ok) {
          this.removeDecl(da);
          this.removeDecl(db);
          this.info.delete(a);
          this.info.delete(b);
        } else this.bump("decl:mutualDisc");
        return ok;
      }
      case "disc":
        return tryAdd({ d: "alias", name: this.fresh("D"), params: [], t: this.discUnion(depth), doc });
      case "const": {
        const name = this.fresh("C");
        const asConst = r.chance(0.7);
        const val = (d) =>
          r.wpick([
            [4, () => ({ e: "str", v: r.pick(STR_LITS) })],
            [3, () => ({ e: "num", v: r.pick(NUM_LITS.filter((n) => n >= 0 && (!this.f.onlyRepresentableNumbers || n < 2 ** 53))) })],
            [2, () => ({ e: "bool", v: r.chance(0.5) })],
            [d > 0 && asConst ? 2 : 0, () => ({ e: "arr", items: [val(0), val(0)].slice(0, 1 + r.below(2)) })],
            [d > 0 ? 3 : 0, () => ({ e: "obj", props: r.shuffle(["p", "q", "r"]).slice(0, 1 + r.below(3)).map((n) => ({ name: n, v: val(d - 1) })) })],
          ])();
        const expr = { e: "obj", props: ["k1", "k2", "k3"].slice(0, 1 + r.below(3)).map((n) => ({ name: n, v: val(2) })) };
        this.addDecl({ d: "const", name, expr, asConst });
        const path = r.chance(0.3) ? [expr.props[0].name] : [];
        return tryAdd({ d: "alias", name: this.fresh("TC"), params: [], t: { k: "typeof", name, path }, doc });
      }
      default:
        return tryAdd({ d: "alias", name: this.fresh("T"), params: [], t: this.type(depth), doc });
    }
  }

  program({ nDecls, nParsers } = {}) {
    const r = this.rng;
    const nd = nDecls ?? 3 + r.below(8);
    for (let i = 0, tries = 0; i < nd && tries < nd * 4; tries++) if (this.declare()) i++;
    const np = nParsers ?? 3 + r.below(5);
    const parsers = [];
    const cores = new Map();
    for (let i = 0; i < np; i++) {
      const named = [...this.info.keys()];
      const cyc = named.filter((n) => /^(R|MA|MB|XD|XH)/.test(n));
      const t = this.f.cycleHeavy && cyc.length && r.chance(0.6)
        ? r.wpick([[3, () => A.ref(r.pick(cyc))], [1, () => A.obj([A.prop("items", A.arr(A.ref(r.pick(cyc))))])], [1, () => A.union([A.ref(r.pick(cyc)), A.kw("null")])]])()
        : r.chance(0.45) && named.length ? A.ref(r.pick(named)) : this.goodType(1 + r.below(this.f.maxDepth));
      const core = this.tryNorm(t);
      if (core == null) continue;
      const name = `P${i}`;
      parsers.push({ name, t });
      cores.set(name, core);
    }
    // near twins: two parsers whose types differ in ONE mark only (the optional mark of an index
    // signature's value, of a property, a rest element, readonly) - whatever shares sub-validators
    // between equal types (hoisting) must keep them apart
    if (this.f.records !== false && r.chance(0.12)) {
      const V = this.scalarLeaf();
      const K = r.pick([A.kw("string"), { k: "tpl", parts: ["x", A.kw("string")] }]);
      const twins = r.pick([
        [A.util("Record", [K, V]), A.util("Partial", [A.util("Record", [K, V])])],
        [A.obj([], { key: A.kw("string"), val: V, pname: "k" }), { k: "mapped", param: "P", constraint: A.kw("string"), val: V, opt: true, ro: false, plus: false }],
        [A.obj([A.prop("tw", V), A.prop("n", A.kw("number"))]), A.obj([A.prop("tw", V, true), A.prop("n", A.kw("number"))])],
        [A.tuple([V, A.kw("number")]), A.tuple([V, A.kw("number")], A.kw("string"))],
      ]);
      const order = r.chance(0.5) ? [0, 1] : [1, 0];
      for (const j of order) {
        const core = this.tryNorm(twins[j]);
        if (core == null) continue;
        const name = `TW${j}`;
        parsers.push({ name, t: twins[j] });
        cores.set(name, core);
      }
    }
    if (parsers.length === 0) {
      parsers.push({ name: "P0", t: A.kw("string") });
      cores.set("P0", C.string);
    }
    return { decls: this.decls.slice(), parsers, cores, env: this.env };
  }
}

// constructor kinds used by a type (for coverage histograms)
export function kindsOf(t, acc = new Set()) {
  A.mapType(t, (x) => {
    acc.add(x.k === "kw" ? "kw:" + x.name : x.k === "util" ? "util:" + x.name : x.k);
    return x;
  });
  return acc;
}
export function coreKinds(env, core, acc = new Set(), seen = new Set()) {
  const walk = (t) => {
    if (t == null) return;
    if (t.c === "ref") {
      if (seen.has(t.key)) {
        acc.add("recursive");
        return;
      }
      seen.add(t.key);
      walk(env.defs.get(t.key));
      seen.delete(t.key);
      return;
    }
    acc.add(t.c === "prim" ? "prim:" + t.p : t.c);
    if (t.el) walk(t.el);
    if (t.items) t.items.forEach(walk);
    if (t.rest) walk(t.rest);
    if (t.props) t.props.forEach((p) => walk(p.t));
    if (t.index) {
      acc.add("index");
      walk(t.index.key);
      walk(t.index.val);
    }
    if (t.ts) t.ts.forEach(walk);
    if (t.key && t.c === "map") walk(t.key);
    if (t.val) walk(t.val);
  };
  walk(core);
  return acc;
}

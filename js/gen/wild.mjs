// Hostile program generators for the totality monitor (C04) — no reference model attached:
// (a) a grammar over the whole TypeScript type syntax, supported or not; (b) token-level mutation
// of the repository's own test corpus; (c) multi-file projects with missing / cyclic / looping
// imports; (d) format settings.
import fs from "node:fs";
import path from "node:path";

const REPO = process.env.BEFF_REPO || "/repo";

// ---------------------------------------------------------------------------------- corpus
let CORPUS = null;
export function corpusPrograms() {
  if (CORPUS) return CORPUS;
  const out = [];
  const testsDir = path.join(REPO, "packages/beff-core/tests");
  for (const f of fs.readdirSync(testsDir).filter((f) => f.endsWith(".rs")).sort()) {
    const src = fs.readFileSync(path.join(testsDir, f), "utf8");
    for (const m of src.matchAll(/r#"([\s\S]*?)"#/g)) {
      const text = m[1];
      if (/buildParsers|export |type |interface |import /.test(text) && text.length < 6000) out.push({ origin: f, text });
    }
  }
  const e2e = path.join(REPO, "e2e-tests");
  if (fs.existsSync(e2e)) {
    for (const d of fs.readdirSync(e2e).sort()) {
      const srcDir = path.join(e2e, d, "src");
      if (!fs.existsSync(srcDir)) continue;
      for (const f of fs.readdirSync(srcDir).filter((f) => f.endsWith(".ts")).sort()) {
        const text = fs.readFileSync(path.join(srcDir, f), "utf8");
        if (text.length < 20000) out.push({ origin: `e2e/${d}/${f}`, text });
      }
    }
  }
  CORPUS = out;
  return out;
}

const tokenize = (s) => s.match(/[A-Za-z_$][\w$]*|\d+|\s+|[^\sA-Za-z_$\d]/g) || [];

export function mutateCorpus(rng) {
  const C = corpusPrograms();
  const base = rng.pick(C);
  let toks = tokenize(base.text);
  const n = 1 + rng.below(4);
  const idents = [...new Set(toks.filter((t) => /^[A-Za-z_$]/.test(t)))];
  for (let i = 0; i < n && toks.length > 3; i++) {
    const at = rng.below(toks.length);
    switch (rng.below(9)) {
      case 0:
        toks.splice(at, 1 + rng.below(3));
        break;
      case 1:
        toks.splice(at, 0, toks[at], toks[at]);
        break;
      case 2: {
        const b = rng.below(toks.length);
        [toks[at], toks[b]] = [toks[b], toks[at]];
        break;
      }
      case 3: {
        // rename a referenced identifier to another in-scope one (alias chains, self reference)
        const ids = toks.map((t, i) => [t, i]).filter(([t]) => /^[A-Z]/.test(t));
        if (ids.length && idents.length) toks[rng.pick(ids)[1]] = rng.pick(idents.filter((x) => /^[A-Z]/.test(x)).concat(["string"]));
        break;
      }
      case 4: {
        // splice a declaration from another program
        const other = rng.pick(C).text.split("\n").filter((l) => /^\s*(export\s+)?(type|interface|enum|const)\b/.test(l));
        if (other.length) toks.splice(0, 0, rng.pick(other) + "\n");
        break;
      }
      case 5:
        toks = toks.slice(0, Math.max(3, rng.below(toks.length)));
        break;
      case 6:
        toks.splice(at, 0, rng.pick(["﻿", "\r\n", "é", " ", "𝒳", "/* */", "//x\n", "\t", "\\", "`", "${", "'", '"']));
        break;
      case 7:
        toks.splice(at, 0, rng.pick(["keyof ", "typeof ", "readonly ", "unique symbol", "infer U", "?", "...", "<", ">", "|", "&", "[]", "[number]", "extends ", "never", "this", "Exclude<", "Record<", "Partial<", "Omit<", "Pick<"]));
        break;
      case 8: {
        const lits = toks.map((t, i) => [t, i]).filter(([t]) => /^\d+$/.test(t));
        if (lits.length) toks[rng.pick(lits)[1]] = rng.pick(["1e400", "0x10", "1_000", "-0", "9007199254740993", "1.5e-300", "0b11"]);
        break;
      }
    }
  }
  let text = toks.join("");
  if (!/buildParsers/.test(text) && rng.chance(0.7)) {
    const names = [...new Set([...text.matchAll(/(?:type|interface|enum)\s+([A-Za-z_$][\w$]*)/g)].map((m) => m[1]))];
    text += `\nparse.buildParsers<{ ${names.slice(0, 4).map((n, i) => `P${i}: ${n}`).join("; ") || "P0: string"} }>();\n`;
  }
  return { files: { "entry.ts": text }, label: "corpus:" + base.origin };
}

// ---------------------------------------------------------------------------------- wild grammar
const WILD_NAMES = ["A", "B", "C", "T", "U", "Foo", "Bar", "NotDeclared", "E"];
export function wildType(rng, d) {
  const sub = () => wildType(rng, d - 1);
  const leafs = [
    "string", "number", "boolean", "null", "undefined", "void", "any", "unknown", "never", "bigint", "symbol", "object", "this", "unique symbol",
    '"lit"', "1", "-1", "1n", "true", "`tpl`", "`a${string}`", "`${number}${boolean}`", "`\\u0041${string}`", "Date", "Function", "RegExp", "Promise<string>",
    "Uint8Array", "ArrayBuffer", "Map<string, number>", "Set<Date>", "WeakMap<object, string>", "Array<string>", "ReadonlyArray<number>", "Record<string, number>",
    "StringFormat<\"even\">", "StringFormat<\"unregistered\">", "NumberFormat<\"int\">", "StringFormatExtends<StringFormat<\"even\">, \"lower\">", "NumberFormatExtends<number, \"int\">",
    "typeof X", "typeof X.a", "typeof import(\"./other\")", "import(\"./other\").Foo", "import(\"./missing\").Foo", "E.M0", "E", "A", "B", "C", "T", "NotDeclared", "globalThis",
  ];
  if (d <= 0) return rng.pick(leafs);
  return rng.wpick([
    [8, () => rng.pick(leafs)],
    [4, () => `${sub()}[]`],
    [3, () => `[${[sub(), sub()].slice(0, 1 + rng.below(2)).join(", ")}${rng.chance(0.3) ? ", ..." + sub() + "[]" : ""}${rng.chance(0.15) ? ", " + sub() + "?" : ""}]`],
    [2, () => `[a: ${sub()}, b?: ${sub()}]`],
    [5, () => `{ a: ${sub()}; b?: ${sub()}${rng.chance(0.2) ? "; [k: string]: " + sub() : ""}${rng.chance(0.1) ? "; [k: number]: " + sub() : ""}${rng.chance(0.1) ? "; m(): void" : ""}${rng.chance(0.1) ? "; get g(): string" : ""}${rng.chance(0.1) ? "; new (): A" : ""}${rng.chance(0.1) ? "; (x: number): string" : ""}${rng.chance(0.1) ? "; readonly [Symbol.iterator]: 1" : ""}${rng.chance(0.1) ? '; "quoted-key": 1; 0: string' : ""} }`],
    [4, () => `${sub()} | ${sub()}`],
    [3, () => `${sub()} & ${sub()}`],
    [2, () => `(${sub()})`],
    [2, () => `keyof ${sub()}`],
    [2, () => `${sub()}[${rng.pick(['"a"', "number", "keyof A", '"a" | "b"', "0", "string"])}]`],
    [2, () => `{ [K in ${rng.pick(['"a" | "b"', "keyof A", "string", "number", "A", "`k${number}`"])}]${rng.pick(["", "?", "-?", "+?"])}: ${sub()} }`],
    [1, () => `{ [K in keyof A as \`x\${K & string}\`]: A[K] }`],
    [2, () => `${sub()} extends ${sub()} ? ${sub()} : ${sub()}`],
    [1, () => `${sub()} extends Array<infer U> ? U : never`],
    [2, () => `${rng.pick(["Partial", "Required", "Readonly", "NonNullable", "Awaited", "ReturnType", "Parameters", "Uppercase"])}<${sub()}>`],
    [2, () => `${rng.pick(["Pick", "Omit", "Exclude", "Extract", "Record"])}<${sub()}, ${sub()}>`],
    [1, () => `(a: ${sub()}) => ${sub()}`],
    [1, () => `new () => ${sub()}`],
    [1, () => `readonly ${sub()}[]`],
    [2, () => `${rng.pick(["Set", "ReadonlySet", "Array", "ReadonlyArray", "Promise"])}<${sub()}>`],
    [1.5, () => `${rng.pick(["Map", "ReadonlyMap", "Record"])}<${rng.pick(["string", "number", sub()])}, ${sub()}>`],
    [1, () => `${rng.pick(WILD_NAMES)}<${sub()}>`],
    [1, () => `${rng.pick(WILD_NAMES)}<${sub()}, ${sub()}>`],
    [1, () => `asserts x is ${sub()}`],
    [1, () => `Partial<${sub()}>["a"]`],
  ])();
}

export function wildProgram(rng) {
  const decls = [];
  const n = rng.below(6);
  for (let i = 0; i < n; i++) {
    const name = rng.pick(["A", "B", "C", "T", "U", "Foo"]);
    decls.push(
      rng.wpick([
        [6, () => `${rng.chance(0.3) ? "export " : ""}type ${name}${rng.chance(0.25) ? "<X" + (rng.chance(0.3) ? " extends string = string" : "") + ">" : ""} = ${wildType(rng, 3)};`],
        [3, () => `${rng.chance(0.3) ? "export " : ""}interface ${name}${rng.chance(0.2) ? "<X>" : ""}${rng.chance(0.3) ? " extends " + rng.pick(WILD_NAMES) : ""} { a: ${wildType(rng, 2)}; b?: ${wildType(rng, 2)} }`],
        [1, () => `enum E { M0${rng.chance(0.7) ? ' = "a"' : ""}, M1${rng.chance(0.5) ? " = 2" : ""}, "quoted" = 3 }`],
        [1, () => `const enum E { M0 = 1 << 2, M1 = M0 | 1 }`],
        [1, () => `${rng.chance(0.5) ? "export " : ""}const X = ${rng.pick(['{ a: 1, b: "x" } as const', "[1, 2] as const", '"s"', "{ a: { b: [1, { c: null }] } }", "1 + 2", "`t${1}`", "foo()", "{ ...Y }", "class {}", "() => 1", "{ [k]: 1 }", "X", "-1", "/re/", "{ a: 1 } satisfies object"])};`],
        [1, () => `declare const X: ${wildType(rng, 2)};`],
        [1, () => `class ${name} { a: string = ""; }`],
        [1, () => `namespace ${name} { export type Inner = ${wildType(rng, 1)}; }`],
        [1, () => `declare module "m" { export type Z = 1 }`],
        [1, () => `export default ${rng.pick(["X", name, "{ a: 1 }", `interface ${name} {}`, "class {}"])};`],
        [1, () => `import ${rng.pick(["{ Foo }", "* as ns", "D", "type { Foo }", "{ default as Q }", "D, { Foo as F }"])} from ${rng.pick(['"./other"', '"./missing"', '"pkg"', '"./entry"'])};`],
        [1, () => `export ${rng.pick(["*", "* as ns", "{ Foo }", "{ Foo as default }", "type { Foo }"])} from ${rng.pick(['"./other"', '"./missing"', '"./entry"'])};`],
        [1, () => `abstract class ${name}<T> { abstract m(): T }`],
        [1, () => `function f<T extends ${wildType(rng, 1)}>(x: T): asserts x is T {}`],
        [1, () => `@dec class ${name} {}`],
      ])(),
    );
  }
  const parsers = [];
  const np = rng.wpick([[1, 0], [6, 1], [3, 2], [2, 4]]);
  for (let i = 0; i < np; i++) parsers.push(`${rng.chance(0.05) ? '"quoted"' : "P" + i}${rng.chance(0.05) ? "?" : ""}: ${wildType(rng, 1 + rng.below(3))}`);
  const call = rng.wpick([
    [12, () => `export const P = parse.buildParsers<{ ${parsers.join("; ")} }>();`],
    [1, () => `parse.buildParsers<${wildType(rng, 2)}>();`],
    [1, () => `parse.buildParsers();`],
    [1, () => `parse.buildParsers<{ A: string }, { B: number }>();`],
    [1, () => `parse.buildParsers<{ A: string }>(); parse.buildParsers<{ B: number }>();`],
    [1, () => `buildParsers<{ ${parsers.join("; ")} }>();`],
    [1, () => `parse.buildParsers<{ m(): void; [k: string]: 1 }>();`],
  ])();
  const files = { "entry.ts": decls.join("\n") + "\n" + call + "\n" };
  if (rng.chance(0.6))
    files["other.ts"] = rng.pick([
      "export type Foo = { a: string };\nexport const X = 1;\nexport default Foo;\n",
      'export * from "./entry";\nexport type Foo = number;\n',
      'export * from "./other";\nexport { Foo } from "./other";\n',
      "export interface Foo { a: Foo }\nexport default interface D { d: 1 }\n",
      "export default 1;\nexport default 2;\n",
      "export type Foo = {{{",
      'import { A } from "./entry";\nexport type Foo = A;\n',
      "export enum Foo { A = 'a' }\nexport namespace ns { export type Q = 1 }\n",
    ]);
  return { files, label: "wild" };
}

// ---------------------------------------------------------------------------------- multi-file
export function multiFileProject(rng) {
  const files = {};
  const n = 2 + rng.below(4);
  const names = ["entry.ts", "a.ts", "b.ts", "dir/c.ts", "dir/index.ts", "d.d.ts", "e.tsx"].slice(0, n + 1);
  const spec = (from, to) => {
    const f = path.posix.relative(path.posix.dirname(from), to).replace(/(\.d)?\.tsx?$/, "").replace(/\/index$/, "");
    return f.startsWith(".") ? f : "./" + f;
  };
  for (const f of names) {
    const lines = [];
    const others = names.filter((x) => x !== f);
    const k = rng.below(4);
    for (let i = 0; i < k; i++) {
      const to = rng.chance(0.85) ? rng.pick(others) : "missing.ts";
      const s = JSON.stringify(spec(f, to));
      lines.push(
        rng.wpick([
          [4, () => `import { T${i} } from ${s};`],
          [2, () => `import type { T${i} as R${i} } from ${s};`],
          [2, () => `import * as ns${i} from ${s};`],
          [2, () => `import D${i} from ${s};`],
          [3, () => `export * from ${s};`],
          [2, () => `export { T${i} as X${i} } from ${s};`],
          [1, () => `export { default } from ${s};`],
          [1, () => `export { default as T${i} } from ${s};`],
          [1, () => `export * as sub${i} from ${s};`],
        ])(),
      );
    }
    const nd = 1 + rng.below(3);
    for (let i = 0; i < nd; i++)
      lines.push(
        rng.wpick([
          [5, () => `export type T${i} = ${rng.pick(["string", "{ a: number }", `T${(i + 1) % 3}`, `ns0.T${i}`, `D0`, `R0 | null`, `T${i}[]`, `{ self: T${i} }`, `T${i} | "x"`, `import(${JSON.stringify(spec(f, rng.pick(others)))}).T0`, `typeof import(${JSON.stringify(spec(f, rng.pick(others)))})`, "typeof V"])};`],
          [2, () => `export interface T${i} { p: ${rng.pick(["string", `T${(i + 1) % 3}`, "ns0.T1"])} }`],
          [1, () => `export const V = ${rng.pick(['{ a: 1 } as const', '"v"', "[1,2]"])};`],
          [1, () => `export default ${rng.pick(["T0", "V", "{ k: 1 }", "interface DD { z: 1 }"])};`],
          [1, () => `type T${i} = number;`],
          [1, () => `export enum T${i} { A = "a", B = "b" }`],
        ])(),
      );
    files[f] = lines.join("\n") + "\n";
  }
  files["entry.ts"] += `export const P = parse.buildParsers<{ A: T0; B: ${rng.pick(["T1", "ns0.T0", "D0", "R0", "X0", "typeof V", "sub0.T0", "string", "typeof ns0", "typeof ns1", "typeof ns0.V", "typeof ns0.sub0", "typeof ns1.sub1"])} }>();\n`;
  if (rng.chance(0.15)) delete files[rng.pick(names.filter((x) => x !== "entry.ts"))];
  if (rng.chance(0.1)) files[rng.pick(names)] = "export type T0 = {{{ broken";
  return { files, label: "multifile" };
}

export function randomSettings(rng) {
  return rng.wpick([
    [6, () => ({ string_formats: ["even", "lower", "nonempty", "ascii"], number_formats: ["int", "pos", "finite", "small"] })],
    [2, () => ({ string_formats: [], number_formats: [] })],
    [1, () => ({ string_formats: ["", "a b", "__proto__", "even"], number_formats: ["constructor", "int"] })],
  ])();
}

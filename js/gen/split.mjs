// Distributes the declarations of a single-file program over several files connected by a mix of
// import / export styles (C09). The single-file program is the oracle for the split project.
import * as A from "./ast.mjs";
import { renderDecl, renderType, mapType, mapDecl } from "./ast.mjs";
import path from "node:path";

const FILE_POOL = ["a.ts", "b.ts", "lib/c.ts", "lib/deep/d.ts", "types.d.ts", "view.tsx", "lib/index.ts"];

function spec(from, to) {
  let rel = path.posix.relative(path.posix.dirname(from), to).replace(/\.d\.ts$|\.tsx?$/, "");
  if (rel.endsWith("/index")) rel = rel.slice(0, -"/index".length);
  if (rel === "index") rel = ".";
  return rel.startsWith(".") ? rel : "./" + rel;
}

export function refsOfDecl(d) {
  const out = new Set();
  const f = (x) => {
    if (x.k === "ref") out.add(x.name);
    if (x.k === "enumMember") out.add(x.en);
    if (x.k === "typeof") out.add(x.name);
    return x;
  };
  if (d.d === "alias" || d.d === "iface") mapDecl(d, f);
  for (const p of d.params || []) out.delete(p);
  return out;
}
export function refsOfType(t) {
  const out = new Set();
  mapType(t, (x) => {
    if (x.k === "ref") out.add(x.name);
    if (x.k === "enumMember") out.add(x.en);
    if (x.k === "typeof") out.add(x.name);
    return x;
  });
  return out;
}

export function renameIn(t, map) {
  return mapType(t, (x) => {
    if (x.k === "ref" && map.has(x.name)) return { ...x, name: map.get(x.name) };
    if (x.k === "enumMember" && map.has(x.en)) return { ...x, en: map.get(x.en) };
    if (x.k === "typeof" && map.has(x.name)) return { ...x, name: map.get(x.name) };
    return x;
  });
}
export function renameDecl(d, map) {
  // type parameters shadow
  const m = new Map(map);
  for (const p of d.params || []) m.delete(p);
  if (d.d === "alias") return { ...d, t: renameIn(d.t, m) };
  if (d.d === "iface")
    return {
      ...d,
      ext: (d.ext || []).map((e) => renameIn(e, m)),
      props: d.props.map((p) => ({ ...p, t: renameIn(p.t, m) })),
      index: d.index ? { ...d.index, key: renameIn(d.index.key, m), val: renameIn(d.index.val, m) } : null,
    };
  return d;
}

// names (transitively) reachable from the parsers
export function reachable(prog) {
  const byName = new Map(prog.decls.map((d) => [d.name, d]));
  const seen = new Set();
  const stack = [];
  for (const p of prog.parsers) for (const n of refsOfType(p.t)) stack.push(n);
  while (stack.length) {
    const n = stack.pop();
    if (seen.has(n) || !byName.has(n)) continue;
    seen.add(n);
    for (const m of refsOfDecl(byName.get(n))) stack.push(m);
  }
  return seen;
}

export function splitProgram(prog, rng, { collide = false } = {}) {
  const declared = new Set(prog.decls.map((d) => d.name));
  const nFiles = 1 + rng.below(5);
  const files = ["entry.ts", ...rng.shuffle(FILE_POOL).slice(0, nFiles)];
  // .d.ts holds type declarations only
  const home = new Map();
  for (const d of prog.decls) {
    let f = rng.chance(0.2) ? "entry.ts" : rng.pick(files);
    if (f.endsWith(".d.ts") && (d.d === "const" || d.d === "enum")) f = files.find((x) => !x.endsWith(".d.ts") && x !== "entry.ts") ?? "entry.ts";
    home.set(d.name, f);
  }
  const byFile = new Map(files.map((f) => [f, []]));
  for (const d of prog.decls) byFile.get(home.get(d.name)).push(d);

  // optional name collision: a second, different type declared under an already used name in another file
  let collision = null;
  if (collide) {
    const cands = prog.decls.filter((d) => (d.d === "alias" || d.d === "iface" || d.d === "enum") && !(d.params || []).length);
    for (const b of rng.shuffle(cands)) {
      const fb = home.get(b.name);
      const inFb = new Set(byFile.get(fb).map((d) => d.name));
      const refsInFb = new Set(byFile.get(fb).flatMap((d) => [...refsOfDecl(d)]));
      if (fb === "entry.ts") for (const p of prog.parsers) for (const n of refsOfType(p.t)) refsInFb.add(n);
      const a = rng.shuffle(cands).find((a) => a.name !== b.name && home.get(a.name) !== fb && !inFb.has(a.name) && !refsInFb.has(a.name));
      if (a) {
        collision = { original: b.name, as: a.name, file: fb };
        break;
      }
    }
  }

  const defaultOf = new Map(); // file -> decl name exported as default
  for (const f of files) {
    const cands = byFile.get(f).filter((d) => d.d === "alias" || d.d === "iface");
    if (f !== "entry.ts" && cands.length && rng.chance(0.4)) defaultOf.set(f, rng.pick(cands).name);
  }
  const exported = new Map(files.map((f) => [f, new Set()]));
  const reexports = new Map(files.map((f) => [f, []])); // file -> lines
  const texts = {};
  const links = [];
  let nsCounter = 0;
  const usedAsHop = new Set();
  const reexportedNames = new Map();
  // barrel mode: a module all.ts that `export *`s every other module (some of them reachable along
  // two paths), from which names are imported
  const barrelMode = !collide && files.length >= 3 && rng.chance(0.3);
  let barrelUsed = false;

  for (const f of files) {
    const decls = byFile.get(f);
    const needed = new Set();
    for (const d of decls) for (const n of refsOfDecl(d)) if (declared.has(n) && home.get(n) !== f) needed.add(n);
    if (f === "entry.ts") for (const p of prog.parsers) for (const n of refsOfType(p.t)) if (declared.has(n) && home.get(n) !== f) needed.add(n);
    const usersOf = (n) => [...decls.filter((d) => refsOfDecl(d).has(n)).map((d) => d.name), ...(f === "entry.ts" && prog.parsers.some((p) => refsOfType(p.t).has(n)) ? ["<parsers>"] : [])];
    const importLines = [];
    const rename = new Map();
    const nsFor = new Map();
    const inExtends = new Set();
    for (const d of decls) if (d.d === "iface") for (const e of d.ext || []) inExtends.add(e.name);
    for (const n of [...needed].sort()) {
      const g = home.get(n);
      const decl = prog.decls.find((d) => d.name === n);
      const exportedName = collision && collision.original === n ? collision.as : n;
      const isValue = decl.d === "const" || decl.d === "enum";
      let style = rng.wpick([
        [4, "named"],
        [3, "renamed"],
        [3, "namespace"],
        [isValue ? 0 : 2, "typeonly"],
        [defaultOf.get(g) === n ? 6 : 0, "default"],
        [isValue || g.endsWith(".tsx") ? 0 : 1.5, "importType"],
        [3, "reexport"],
        [barrelMode && !isValue && g !== "entry.ts" && defaultOf.get(g) !== n ? 8 : 0, "barrel"],
      ]);
      if (collision && collision.original === n && style === "named") style = "renamed";
      if (collision && (collision.original === n || collision.as === n) && style === "reexport") style = "renamed";
      // an `extends` clause takes an identifier (beff: ExtendsShouldBeIdent; import types are not TypeScript there)
      if (inExtends.has(n) && (style === "namespace" || style === "importType")) style = "renamed";
      let source = g;
      let importedName = exportedName;
      if (style === "barrel") {
        barrelUsed = true;
        source = "all.ts";
      }
      if (style === "reexport") {
        // one or two hops through other files
        const hops = 1 + rng.below(2);
        let cur = g;
        let curName = exportedName;
        for (let h = 0; h < hops; h++) {
          const declaredIn = (x) => new Set([...byFile.get(x).map((d) => (collision && collision.original === d.name ? collision.as : d.name)), ...(reexportedNames.get(x) || [])]);
          const viaCands = files.filter((x) => x !== cur && x !== f && !x.endsWith(".d.ts") && !usedAsHop.has(x + "<-" + cur) && !declaredIn(x).has(curName) && !(collision && (x === collision.file || declaredIn(x).has(collision.as))));
          if (!viaCands.length) break;
          const via = rng.pick(viaCands);
          usedAsHop.add(cur + "<-" + via); // never re-export back along the same edge (export * cycles are C04's finding)
          const how = rng.wpick([
            [3, "list"],
            [collision ? 0 : 2, "star"],
            [2, "renamed"],
          ]);
          exported.get(cur).add(curName === exportedName && cur === g ? n : null);
          if (!reexportedNames.has(via)) reexportedNames.set(via, new Set());
          reexportedNames.get(via).add(curName);
          if (how === "star") reexports.get(via).push(`export * from ${JSON.stringify(spec(via, cur))};`);
          else if (how === "list") reexports.get(via).push(`export { ${curName} } from ${JSON.stringify(spec(via, cur))};`);
          else {
            const nn = `${curName}_re${h}`;
            reexports.get(via).push(`export { ${curName} as ${nn} } from ${JSON.stringify(spec(via, cur))};`);
            curName = nn;
          }
          cur = via;
        }
        source = cur;
        importedName = curName;
        style = rng.pick(["named", "renamed"]);
        links.push({ from: f, name: n, style: "reexport->" + style, via: source, users: usersOf(n) });
      } else links.push({ from: f, name: n, style, via: g, users: usersOf(n) });
      exported.get(g).add(n);
      const s = JSON.stringify(spec(f, source));
      if (style === "barrel") {
        if (rng.chance(0.5)) importLines.push(`import { ${importedName} } from ${s};`);
        else {
          const local = `${n}_imp`;
          importLines.push(`import { ${importedName} as ${local} } from ${s};`);
          rename.set(n, local);
        }
      } else if (style === "named") {
        if (importedName !== n) {
          importLines.push(`import { ${importedName} as ${n} } from ${s};`);
        } else importLines.push(`import { ${n} } from ${s};`);
      } else if (style === "renamed") {
        const local = `${n}_imp`;
        importLines.push(`import { ${importedName} as ${local} } from ${s};`);
        rename.set(n, local);
      } else if (style === "typeonly") {
        if (importedName !== n) importLines.push(`import type { ${importedName} as ${n} } from ${s};`);
        else importLines.push(`import type { ${n} } from ${s};`);
      } else if (style === "namespace") {
        let ns = nsFor.get(source);
        if (!ns) {
          ns = `ns${nsCounter++}`;
          nsFor.set(source, ns);
          importLines.push(`import * as ${ns} from ${s};`);
        }
        rename.set(n, `${ns}.${importedName}`);
      } else if (style === "default") {
        const local = rng.chance(0.5) ? n : `${n}_def`;
        importLines.push(`import ${local} from ${s};`);
        if (local !== n) rename.set(n, local);
      } else if (style === "importType") {
        rename.set(n, `import(${s}).${importedName}`);
      }
    }
    texts[f] = { importLines, rename, decls };
  }

  // scopes of their own inside a module: a function body and a namespace that declare / export types
  // named like what the module imports or declares (nothing of this is visible at module level)
  const noise = new Map();
  for (const f of files) {
    if (f.endsWith(".d.ts")) continue;
    const names = [...new Set([...texts[f].decls.filter((d) => d.d === "alias" || d.d === "iface").map((d) => d.name), ...[...texts[f].rename.values()].filter((x) => /^[A-Za-z_$][\w$]*$/.test(x))])];
    const ls = [];
    if (names.length && rng.chance(0.2)) ls.push(`function noise_${ls.length}() { type ${rng.pick(names)} = number; return 0; }`);
    if (names.length && rng.chance(0.15)) ls.push(`namespace Noise { export type ${rng.pick(names)} = boolean; export const inner = 1; }`);
    noise.set(f, ls);
  }

  const out = {};
  for (const f of files) {
    const { importLines, rename, decls } = texts[f];
    const lines = [...importLines, ...(noise.get(f) || [])];
    // some modules export through a list at the end instead of `export` on the declaration:
    // `export { A, B }`, `export type { A, B }` (also for values, which a `typeof` query may still
    // use) or `export { type A, B }`
    const listMode = !collision && rng.chance(0.3) ? rng.pick(["plain", "type", "inline-type", "mixed"]) : null;
    const exportList = [];
    for (const d0 of decls) {
      let d = renameDecl(d0, rename);
      if (collision && collision.original === d.name) d = { ...d, name: collision.as };
      let isExported = exported.get(f).has(d0.name);
      if (isExported && listMode && !(listMode === "mixed" && rng.chance(0.5))) {
        exportList.push(d.name);
        isExported = false;
      }
      const dtsDeclare = f.endsWith(".d.ts");
      let text = renderDecl({ ...d, exported: isExported });
      if (dtsDeclare && d.d === "const") text = text.replace(/^(export )?const/, "$1declare const");
      lines.push(text);
      if (defaultOf.get(f) === d0.name) lines.push(`export default ${d.name};`);
    }
    if (exportList.length) {
      if (listMode === "type") lines.push(`export type { ${exportList.join(", ")} };`);
      else if (listMode === "inline-type") lines.push(`export { ${exportList.map((n) => `type ${n}`).join(", ")} };`);
      else lines.push(`export { ${exportList.join(", ")} };`);
    }
    // rename inside a file that hosts the collided declaration: its own references to the original name
    lines.push(...reexports.get(f));
    if (f === "entry.ts") {
      const entries = prog.parsers.map((x) => `  ${x.name}: ${renderType(renameIn(x.t, rename))};`);
      lines.push(`export const Parsers = parse.buildParsers<{\n${entries.join("\n")}\n}>();`);
    }
    out[f] = lines.join("\n") + "\n";
  }
  // the collided declaration is referenced inside its own file under the new name
  if (collision) {
    const f = collision.file;
    const { importLines, rename, decls } = texts[f];
    const rn = new Map(rename);
    rn.set(collision.original, collision.as);
    const lines = [...importLines, ...(noise.get(f) || [])];
    for (const d0 of decls) {
      let d = renameDecl(d0, rn);
      if (collision.original === d.name) d = { ...d, name: collision.as };
      lines.push(renderDecl({ ...d, exported: exported.get(f).has(d0.name) }));
      if (defaultOf.get(f) === d0.name) lines.push(`export default ${d.name};`);
    }
    lines.push(...reexports.get(f));
    if (f === "entry.ts") {
      const entries = prog.parsers.map((x) => `  ${x.name}: ${renderType(renameIn(x.t, rn))};`);
      lines.push(`export const Parsers = parse.buildParsers<{\n${entries.join("\n")}\n}>();`);
    }
    out[f] = lines.join("\n") + "\n";
  }
  if (barrelUsed) {
    const others = files.filter((f) => f !== "entry.ts");
    // diamonds: an earlier module also re-exports a later one, so the barrel reaches it twice
    for (let i = 0; i < others.length; i++)
      for (let j = i + 1; j < others.length; j++)
        if (rng.chance(0.35) && reexports.get(others[j]).length === 0 && !others[i].endsWith(".d.ts")) {
          out[others[i]] += `export * from ${JSON.stringify(spec(others[i], others[j]))};\n`;
        }
    out["all.ts"] = rng.shuffle(others).map((f) => `export * from ${JSON.stringify(spec("all.ts", f))};`).join("\n") + "\n";
  }
  return { files: out, links, collision, home: Object.fromEntries(home), fileList: files };
}

// break one link that a parser really depends on: the project must then yield a diagnostic
export function breakLink(split, prog, rng) {
  const live = reachable(prog);
  // the link must be used by a declaration that a parser reaches (beff resolves lazily, like a bundler)
  const cands = split.links.filter((l) => l.users.some((u) => u === "<parsers>" || live.has(u)));
  if (!cands.length) return null;
  const l = rng.pick(cands);
  const files = { ...split.files };
  const kind = rng.pick(["unexport", "delete-file", "drop-specifier"]);
  const homeFile = split.home[l.name];
  if (kind === "unexport") {
    const declName = split.collision && split.collision.original === l.name ? split.collision.as : l.name;
    const re = new RegExp(`^export ((?:type|interface|enum|const|declare const) ${declName}\\b)`, "gm"); // (all declarations of a merged interface)
    if (!new RegExp(re.source, "m").test(files[homeFile])) return null;
    files[homeFile] = files[homeFile].replace(re, "$1").replace(new RegExp(`^export default ${declName};\\n`, "m"), "");
    // other routes to the same declaration (export lists elsewhere) would keep it resolvable
    if (Object.values(files).some((t) => new RegExp(`export \\{[^}]*\\b${declName}\\b`).test(t))) return null;
    if (Object.values(files).some((t) => /export \* from/.test(t))) return null;
    return { files, kind, link: l, lost: split.links.filter((x) => x.name === l.name) };
  }
  if (kind === "delete-file") {
    // only a file that hosts the declaration itself and is nobody's re-export hop
    if (l.via === "entry.ts" || l.via !== homeFile || /^export (\*|\{)[^\n]* from /m.test(files[l.via])) return null;
    if (Object.values(files).some((t) => new RegExp(`export (\\*|\\{[^}]*\\}) from "[^"]*${l.via.replace(/\.d\.ts$|\.tsx?$/, "").split("/").pop()}"`).test(t))) return null;
    delete files[l.via];
    const lost = split.links.filter((x) => split.home[x.name] === l.via);
    return { files, kind, link: l, lost };
  }
  // drop the import statement that brings the name into the importing file
  const lines = files[l.from].split("\n");
  // the statement that binds the local name of this link (under a name collision another import may mention the same identifier as its exported name)
  const i = lines.findIndex((x) => new RegExp(`^import (type )?\\{ (\\S+ as )?${l.name}(_imp)? \\} from `).test(x) || new RegExp(`^import ${l.name}(_def)? from `).test(x));
  if (i < 0) return null;
  lines.splice(i, 1);
  files[l.from] = lines.join("\n");
  return { files, kind, link: l, lost: [l] };
}

// single-file counterpart of a broken project: the users that lost a name refer to an undeclared one
export function counterpart(prog, lost) {
  const per = new Map(); // user -> Map(name -> missing)
  for (const l of lost) for (const u of l.users) {
    if (!per.has(u)) per.set(u, new Map());
    per.get(u).set(l.name, `Missing__${l.name}`);
  }
  return {
    decls: prog.decls.map((d) => (per.has(d.name) ? renameDecl(d, per.get(d.name)) : d)),
    parsers: prog.parsers.map((p) => (per.has("<parsers>") ? { ...p, t: renameIn(p.t, per.get("<parsers>")) } : p)),
  };
}

// ---- how beff walks export tables (model used to ATTRIBUTE a rejected split project, never to judge it)
// Parses the export statements this module writes and follows a name the way the compiler does:
// a module's own entries first, then its `export *` targets depth-first (first hit wins, files
// already being searched are skipped). Returns "found", "missing" or "cycle" (the chain of named
// re-exports comes back to an entry it is already resolving: TypeScript skips such a circular
// candidate and keeps searching the other `export *` targets, beff reports the name as unresolvable).
export function exportWalk(files, startFile, startName) {
  const resolveSpec = (from, spec) => {
    const base = path.posix.normalize(path.posix.join(path.posix.dirname(from), spec));
    for (const c of [base + ".ts", base + ".tsx", base + ".d.ts", base + "/index.ts", base === "." ? "index.ts" : null]) if (c && Object.prototype.hasOwnProperty.call(files, c)) return c;
    return null;
  };
  const table = (f) => {
    const own = new Map(); // exported name -> {local:true} | {file, name}
    const stars = [];
    for (const line of files[f].split("\n")) {
      let m;
      if ((m = /^export \* from "([^"]+)";/.exec(line))) {
        const t = resolveSpec(f, m[1]);
        if (t) stars.push(t);
      } else if ((m = /^export \{ (\w+)(?: as (\w+))? \} from "([^"]+)";/.exec(line))) {
        const t = resolveSpec(f, m[3]);
        if (t && !own.has(m[2] || m[1])) own.set(m[2] || m[1], { file: t, name: m[1] });
      } else if ((m = /^export (?:declare )?(?:type|interface|enum|const) (\w+)/.exec(line))) own.set(m[1], { local: true });
    }
    return { own, stars };
  };
  const tables = new Map();
  const T = (f) => tables.get(f) || (tables.set(f, table(f)), tables.get(f));
  const lookup = (f, name, following) => {
    const t = T(f);
    if (t.own.has(name)) return t.own.get(name);
    for (const g of t.stars) {
      if (following.includes(g)) continue;
      following.push(g);
      const r = lookup(g, name, following);
      if (r) return r;
    }
    return null;
  };
  const visiting = new Set();
  let file = startFile,
    name = startName;
  for (let i = 0; i < 100; i++) {
    const key = file + "::" + name;
    if (visiting.has(key)) return "cycle";
    visiting.add(key);
    if (!Object.prototype.hasOwnProperty.call(files, file)) return "missing";
    const e = lookup(file, name, []);
    if (!e) return "missing";
    if (e.local) return "found";
    file = e.file;
    name = e.name;
  }
  return "cycle";
}

// Catalog of meaning-preserving rewrites of a program AST (C08, C13, C15): every rewrite yields a
// program to which TypeScript assigns the identical types (DESIGN.md appendix B). Each rewrite is a
// pure function (program, rng) -> program | null (null = not applicable).
import * as A from "./ast.mjs";
import { mapType, mapDecl } from "./ast.mjs";

const clone = (x) => structuredClone(x);

function allTypeSlots(prog) {
  // [{get, set}] for every top-level type position (decl bodies of non-generic decls, parser types)
  const slots = [];
  prog.decls.forEach((d, i) => {
    if (d.params && d.params.length) return;
    if (d.d === "alias") slots.push({ where: `decl:${d.name}`, get: () => prog.decls[i].t, set: (t) => (prog.decls[i].t = t) });
    if (d.d === "iface") d.props.forEach((p, j) => slots.push({ where: `iface:${d.name}.${p.name}`, get: () => prog.decls[i].props[j].t, set: (t) => (prog.decls[i].props[j].t = t) }));
  });
  prog.parsers.forEach((p, i) => slots.push({ where: `parser:${p.name}`, get: () => prog.parsers[i].t, set: (t) => (prog.parsers[i].t = t) }));
  return slots;
}

// skipDecl: declarations to leave untouched (a type parameter of theirs shadows / would capture a name)
function mapAllTypes(prog, f, skipDecl = null) {
  const p = clone(prog);
  p.decls = p.decls.map((d) => {
    if (skipDecl && skipDecl(d)) return d;
    const m = mapDecl(d, f);
    // an `extends` clause only takes (possibly generic) names: keep entries that stopped being one
    if (m.d === "iface" && m.ext) m.ext = m.ext.map((e, i) => (e.k === "ref" ? e : d.ext[i]));
    return m;
  });
  p.parsers = p.parsers.map((x) => ({ ...x, t: mapType(x.t, f) }));
  return p;
}

function freshName(prog, prefix) {
  const used = new Set(prog.decls.map((d) => d.name));
  for (let i = 0; ; i++) if (!used.has(`${prefix}${i}`)) return `${prefix}${i}`;
}

function typeParamsInScope(prog) {
  const s = new Set();
  for (const d of prog.decls) for (const p of d.params || []) s.add(p);
  s.add("K");
  s.add("P");
  return s;
}

function mentions(t, names) {
  let hit = false;
  mapType(t, (x) => {
    if (x.k === "ref" && names.has(x.name)) hit = true;
    return x;
  });
  return hit;
}

function reachesItself(prog, name) {
  const seen = new Set();
  const visit = (n) => {
    const d = prog.decls.find((x) => x.name === n);
    if (!d || seen.has(n)) return false;
    seen.add(n);
    let hit = false;
    const f = (x) => {
      if (x.k === "ref") {
        if (x.name === name) hit = true;
        else if (visit(x.name)) hit = true;
      }
      if (x.k === "typeof" || x.k === "enumMember") return x;
      return x;
    };
    mapDecl(d, f);
    return hit;
  };
  return visit(name);
}

export const REWRITES = {
  permuteUnionMembers(prog, rng) {
    let n = 0;
    const p = mapAllTypes(prog, (x) => {
      if ((x.k === "union" || x.k === "inter") && x.ts.length > 1 && rng.chance(0.7)) {
        n++;
        return { ...x, ts: rng.shuffle(x.ts) };
      }
      return x;
    });
    return n ? p : null;
  },
  permuteProperties(prog, rng) {
    let n = 0;
    const p = mapAllTypes(prog, (x) => {
      if (x.k === "obj" && x.props.length > 1 && rng.chance(0.7)) {
        n++;
        return { ...x, props: rng.shuffle(x.props) };
      }
      return x;
    });
    p.decls = p.decls.map((d) => {
      if (d.d === "iface" && d.props.length > 1 && rng.chance(0.7)) {
        n++;
        return { ...d, props: rng.shuffle(d.props) };
      }
      return d;
    });
    return n ? p : null;
  },
  permuteDeclarations(prog, rng) {
    if (prog.decls.length < 2 && prog.parsers.length < 2) return null;
    const p = clone(prog);
    // consts must stay before nothing in particular (hoisting-free TS types); keep them first for readability only
    p.decls = rng.shuffle(p.decls);
    p.parsers = rng.shuffle(p.parsers);
    return p;
  },
  introduceAlias(prog, rng) {
    const p = clone(prog);
    const params = typeParamsInScope(p);
    const slots = allTypeSlots(p);
    if (!slots.length) return null;
    const slot = rng.pick(slots);
    // candidate sub-terms of the slot's type that mention no type parameter
    const cands = [];
    mapType(slot.get(), (x) => {
      if (!mentions(x, params) && !["paren"].includes(x.k)) cands.push(x);
      return x;
    });
    if (!cands.length) return null;
    const target = rng.pick(cands);
    const name = freshName(p, "Z");
    let done = false;
    slot.set(
      mapType(slot.get(), (x) => {
        if (!done && x === target) {
          done = true;
          return A.ref(name);
        }
        return x;
      }),
    );
    if (!done) {
      // identity lost through mapType's rebuilding: compare structurally
      const key = JSON.stringify(target);
      slot.set(
        mapType(slot.get(), (x) => {
          if (!done && JSON.stringify(x) === key) {
            done = true;
            return A.ref(name);
          }
          return x;
        }),
      );
    }
    if (!done) return null;
    p.decls.push({ d: "alias", name, params: [], t: target });
    return p;
  },
  inlineAlias(prog, rng) {
    const cands = prog.decls.filter((d) => d.d === "alias" && (!d.params || !d.params.length) && !reachesItself(prog, d.name));
    if (!cands.length) return null;
    const d = rng.pick(cands);
    let n = 0;
    // names the body mentions: a declaration with a type parameter of that name would capture it
    const free = new Set([d.name]);
    mapType(d.t, (x) => {
      if (x.k === "ref") free.add(x.name);
      return x;
    });
    const p = mapAllTypes(
      prog,
      (x) => {
        if (x.k === "ref" && x.name === d.name && x.args.length === 0) {
          n++;
          return { k: "paren", t: clone(d.t) };
        }
        return x;
      },
      (decl) => (decl.params || []).some((q) => free.has(q)),
    );
    return n ? p : null;
  },
  renameDeclaration(prog, rng) {
    const cands = prog.decls.filter((d) => d.d === "alias" || d.d === "iface");
    if (!cands.length) return null;
    const d = rng.pick(cands);
    const to = freshName(prog, rng.pick(["Aaa", "Zzz", "Mmm", "A_", "z"]));
    // (inside a declaration that has a type parameter of this name, the name means the parameter)
    const p = mapAllTypes(prog, (x) => (x.k === "ref" && x.name === d.name ? { ...x, name: to } : x), (decl) => (decl.params || []).includes(d.name));
    p.decls = p.decls.map((x) => (x.name === d.name ? { ...x, name: to } : x));
    return p;
  },
  // alpha-renaming of a type parameter inside its own declaration (parameter names are local)
  renameTypeParameter(prog, rng) {
    const cands = prog.decls.filter((d) => (d.d === "alias" || d.d === "iface") && d.params && d.params.length);
    if (!cands.length) return null;
    const d = rng.pick(cands);
    const from = rng.pick(d.params);
    const taken = new Set([...prog.decls.map((x) => x.name), ...d.params]);
    const to = ["Q", "T", "Elem", "P_1", "Zz"].find((n) => !taken.has(n));
    if (!to) return null;
    const ren = (x) => (x.k === "ref" && x.name === from && !(x.args || []).length ? { ...x, name: to } : x);
    const p = clone(prog);
    p.decls = p.decls.map((x) => (x.name === d.name ? { ...mapDecl(x, ren), params: x.params.map((q) => (q === from ? to : q)) } : x));
    return p;
  },
  wrapInIdentityGeneric(prog, rng) {
    const p = clone(prog);
    const params = typeParamsInScope(p);
    const slots = allTypeSlots(p).filter((s) => !mentions(s.get(), params));
    if (!slots.length) return null;
    const slot = rng.pick(slots);
    const idName = p.decls.find((d) => d.name === "Id__") ? "Id__" : "Id__";
    if (!p.decls.find((d) => d.name === idName)) p.decls.push({ d: "alias", name: idName, params: ["X"], t: A.ref("X") });
    slot.set(A.ref(idName, [slot.get()]));
    return p;
  },
  parenthesise(prog, rng) {
    let n = 0;
    const p = mapAllTypes(prog, (x) => {
      if (["union", "inter", "arr", "lit", "kw", "ref", "obj"].includes(x.k) && rng.chance(0.15)) {
        n++;
        return { k: "paren", t: x };
      }
      return x;
    });
    return n ? p : null;
  },
  readonlyModifiers(prog, rng) {
    let n = 0;
    const p = mapAllTypes(prog, (x) => {
      if (x.k === "obj" && x.props.length && rng.chance(0.5)) {
        n++;
        return { ...x, props: x.props.map((q) => ({ ...q, ro: !q.ro })) };
      }
      if (x.k === "arr" && rng.chance(0.5)) {
        n++;
        return { ...x, style: rng.pick(["[]", "Array", "ReadonlyArray", "readonly[]"].filter((s) => s !== x.style)) };
      }
      if (x.k === "tuple" && rng.chance(0.5)) {
        n++;
        return { ...x, ro: !x.ro };
      }
      return x;
    });
    return n ? p : null;
  },
  comments(prog, rng) {
    const p = clone(prog);
    let n = 0;
    const doc = () => ({ kind: rng.pick(["line", "block", "jsdoc"]), text: rng.pick(["note", "explains the member", "TODO x", "a * / b"]) });
    p.decls = p.decls.map((d) => {
      if ((d.d === "alias" || d.d === "iface") && rng.chance(0.5)) {
        n++;
        return { ...d, doc: d.doc ? undefined : doc() };
      }
      return d;
    });
    const q = mapAllTypes(p, (x) => {
      if (x.k === "obj" && x.props.length && rng.chance(0.4)) {
        n++;
        return { ...x, props: x.props.map((pp) => (rng.chance(0.5) ? { ...pp, doc: pp.doc ? undefined : doc() } : pp)) };
      }
      // a comment directly before a member of a union (`| /** doc */ { kind: "a" }`)
      if (x.k === "union" && x.ts.length >= 2 && rng.chance(0.35)) {
        n++;
        return { ...x, ts: x.ts.map((m) => (rng.chance(0.5) ? { ...m, mdoc: m.mdoc ? undefined : doc() } : m)) };
      }
      return x;
    });
    return n ? q : null;
  },
  interfaceToAlias(prog, rng) {
    const cands = prog.decls.filter((d) => d.d === "iface" && (!d.params || !d.params.length) && (!d.ext || d.ext.length === 0));
    if (!cands.length) return null;
    const d = rng.pick(cands);
    const p = clone(prog);
    p.decls = p.decls.map((x) => (x.name === d.name ? { d: "alias", name: d.name, params: [], t: A.obj(x.props, x.index), doc: x.doc } : x));
    return p;
  },
  aliasToInterface(prog, rng) {
    const cands = prog.decls.filter((d) => d.d === "alias" && (!d.params || !d.params.length) && d.t.k === "obj");
    if (!cands.length) return null;
    const d = rng.pick(cands);
    const p = clone(prog);
    p.decls = p.decls.map((x) => (x.name === d.name ? { d: "iface", name: d.name, params: [], ext: [], props: x.t.props, index: x.t.index, doc: x.doc } : x));
    return p;
  },
  extendsToIntersection(prog, rng) {
    // interface I extends J { own } <-> type I = J & { own }   (no index signatures; members do not conflict by construction)
    const cands = prog.decls.filter((d) => d.d === "iface" && (!d.params || !d.params.length) && d.ext && d.ext.length > 0 && !d.index);
    if (!cands.length) return null;
    const d = rng.pick(cands);
    const p = clone(prog);
    p.decls = p.decls.map((x) => (x.name === d.name ? { d: "alias", name: d.name, params: [], t: A.inter([...x.ext, A.obj(x.props)]), doc: x.doc } : x));
    return p;
  },
  intersectWithSupertype(prog, rng) {
    // T  ->  W & T  where W is a new alias that every value of T satisfies: a subset of T's
    // properties, literal-typed ones widened (one more literal, `| undefined`), some made optional.
    // The intersection with a supertype has exactly the values of T. (Only references that stand as
    // union members, property / element types or parser types are replaced - not operands of
    // utility types.)
    const cands = prog.decls.filter((d) => (d.d === "alias" ? d.t.k === "obj" && !d.t.index : d.d === "iface" && !d.index && !(d.ext || []).length) && !(d.params || []).length && (d.d === "alias" ? d.t.props : d.props).length > 0 && !reachesItself(prog, d.name));
    if (!cands.length) return null;
    const d = rng.pick(cands);
    const props = d.d === "alias" ? d.t.props : d.props;
    const isStrLits = (t) => (t.k === "lit" && typeof t.v === "string") || (t.k === "union" && t.ts.every((m) => m.k === "lit" && typeof m.v === "string"));
    const kept = props.filter((q) => isStrLits(q.t) || rng.chance(0.5));
    if (!kept.length) return null;
    const wname = freshName(prog, rng.chance(0.5) ? "AW" : "ZW");
    const wprops = kept.map((q) => {
      let t = q.t;
      if (isStrLits(t)) {
        const members = t.k === "union" ? t.ts : [t];
        t = rng.wpick([
          [3, () => A.union([...members, A.kw("undefined")])],
          [2, () => A.union([...members, A.lit("zz_w")])],
          [2, () => t],
          [1, () => A.union([A.kw("undefined"), ...members, A.lit("zz_w")])],
        ])();
      }
      return { ...q, t, opt: q.opt || rng.chance(0.3), doc: undefined };
    });
    let n = 0;
    const wrap = (x) => {
      n++;
      return rng.chance(0.5) ? A.inter([A.ref(wname), x]) : A.inter([x, A.ref(wname)]);
    };
    const isT = (x) => x.k === "ref" && x.name === d.name && !(x.args || []).length;
    const shallow = (t, depth = 0) => {
      if (depth > 6) return t;
      if (isT(t)) return rng.chance(0.7) ? wrap(t) : t;
      if (t.k === "union") return { ...t, ts: t.ts.map((m) => shallow(m, depth + 1)) };
      if (t.k === "arr") return { ...t, el: shallow(t.el, depth + 1) };
      if (t.k === "obj") return { ...t, props: t.props.map((q) => ({ ...q, t: shallow(q.t, depth + 1) })) };
      return t;
    };
    const p = clone(prog);
    p.decls = p.decls.map((x) => (x.name === d.name || (x.params || []).length ? x : x.d === "alias" ? { ...x, t: shallow(x.t) } : x.d === "iface" ? { ...x, props: x.props.map((q) => ({ ...q, t: shallow(q.t) })) } : x));
    p.parsers = p.parsers.map((x) => ({ ...x, t: shallow(x.t) }));
    if (!n) return null;
    const at = p.decls.findIndex((x) => x.name === d.name);
    p.decls.splice(at + 1, 0, { d: "alias", name: wname, params: [], t: A.obj(wprops) });
    return p;
  },
  intersectMemberWithSupertype(prog, rng) {
    // the same for an INLINE object member of a union (typically a tagged one): m -> W & m, where the
    // new alias W repeats some of m's properties with wider types
    const isStrLits = (t) => (t.k === "lit" && typeof t.v === "string") || (t.k === "union" && t.ts.every((m) => m.k === "lit" && typeof m.v === "string"));
    const sites = [];
    const scan = (t, depth = 0) => {
      if (depth > 8 || !t) return;
      if (t.k === "union") {
        const objs = t.ts.filter((m) => m.k === "obj" && !m.index && m.props.some((q) => isStrLits(q.t)));
        if (objs.length >= 2) sites.push(t);
        t.ts.forEach((m) => scan(m, depth + 1));
      } else if (t.k === "arr") scan(t.el, depth + 1);
      else if (t.k === "obj") t.props.forEach((q) => scan(q.t, depth + 1));
    };
    const p = clone(prog);
    p.decls.forEach((d) => {
      if ((d.params || []).length) return;
      if (d.d === "alias") scan(d.t);
      if (d.d === "iface") d.props.forEach((q) => scan(q.t));
    });
    p.parsers.forEach((x) => scan(x.t));
    if (!sites.length) return null;
    const u = rng.pick(sites);
    const idxs = u.ts.map((m, i) => (m.k === "obj" && !m.index && m.props.some((q) => isStrLits(q.t)) ? i : -1)).filter((i) => i >= 0);
    const at = rng.pick(idxs);
    const m = u.ts[at];
    const wname = freshName(p, rng.chance(0.5) ? "AW" : "ZW");
    const wprops = m.props
      .filter((q) => isStrLits(q.t) || rng.chance(0.4))
      .map((q) => {
        let t = q.t;
        if (isStrLits(t)) {
          const members = t.k === "union" ? t.ts : [t];
          t = rng.wpick([
            [4, () => A.union([...members, A.kw("undefined")])],
            [2, () => A.union([...members, A.lit("zz_w")])],
            [1, () => t],
          ])();
        }
        return { ...q, t, opt: q.opt || rng.chance(0.2), doc: undefined };
      });
    // half of the time the member itself becomes a named type as well (two named parts: their order
    // inside the intersection is then the order of their names)
    let part = m;
    if (rng.chance(0.5)) {
      const mname = freshName(p, "MW");
      p.decls.unshift({ d: "alias", name: mname, params: [], t: m });
      part = A.ref(mname);
    }
    u.ts[at] = rng.chance(0.5) ? A.inter([A.ref(wname), part]) : A.inter([part, A.ref(wname)]);
    p.decls.unshift({ d: "alias", name: wname, params: [], t: A.obj(wprops) });
    return p;
  },
  nestLiteralUnion(prog, rng) {
    let n = 0;
    const p = mapAllTypes(prog, (x) => {
      if (x.k === "union" && x.ts.length >= 3 && rng.chance(0.6)) {
        n++;
        const k = 1 + rng.below(x.ts.length - 2);
        return { ...x, ts: [A.union(x.ts.slice(0, k + 1)), ...x.ts.slice(k + 1)] };
      }
      return x;
    });
    return n ? p : null;
  },
};

// rewrites that must leave hash256 / hash unchanged according to C13's statement (names, alias
// boundaries, property order, member order, comments)
export const HASH_PRESERVING = ["permuteUnionMembers", "permuteProperties", "permuteDeclarations", "introduceAlias", "inlineAlias", "renameDeclaration", "renameTypeParameter", "wrapInIdentityGeneric", "parenthesise", "readonlyModifiers", "comments", "interfaceToAlias", "aliasToInterface", "nestLiteralUnion"];
export const ALL_REWRITES = Object.keys(REWRITES);

// apply a list of [name, seed] steps; inapplicable steps are skipped; returns {prog, applied}
export function applySteps(prog, steps, RngClass) {
  let cur = prog;
  const applied = [];
  for (const [name, seed] of steps) {
    const r = REWRITES[name](cur, new RngClass(seed, "rw:" + name));
    if (r) {
      cur = r;
      applied.push(name);
    }
  }
  return { prog: cur, applied };
}

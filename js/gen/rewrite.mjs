// Catalog of meaning-preserving rewrites of a program AST (C08, C13, C15): every rewrite yields a
// program to which TypeScript assigns the identical types (DESIGN.md appendix B). Each rewrite is a
// pure function (program, rng) -> program | null (null = not applicable).
import * as A from "./ast.mjs";
import { mapType, mapDecl } from "./ast.mjs";

const clone = (x) => structuredClone(x);

function allTypeSlots(prog) {
  // [{get, set}] for every top-level type position (decl bodies of non-generic decls, parser types)
  const slots = [];
  prog.decls.forEach((d, i) => {
    if (d.params && d.params.length) return;
    if (d.d === "alias") slots.push({ where: `decl:${d.name}`, get: () => prog.decls[i].t, set: (t) => (prog.decls[i].t = t) });
    if (d.d === "iface") d.props.forEach((p, j) => slots.push({ where: `iface:${d.name}.${p.name}`, get: () => prog.decls[i].props[j].t, set: (t) => (prog.decls[i].props[j].t = t) }));
  });
  prog.parsers.forEach((p, i) => slots.push({ where: `parser:${p.name}`, get: () => prog.parsers[i].t, set: (t) => (prog.parsers[i].t = t) }));
  return slots;
}

// skipDecl: declarations to leave untouched (a type parameter of theirs shadows / would capture a name)
function mapAllTypes(prog, f, skipDecl = null) {
  const p = clone(prog);
  p.decls = p.decls.map((d) => {
    if (skipDecl && skipDecl(d)) return d;
    const m = mapDecl(d, f);
    // an `extends` clause only takes (possibly generic) names: keep entries that stopped being one
    if (m.d === "iface" && m.ext) m.ext = m.ext.map((e, i) => (e.k === "ref" ? e : d.ext[i]));
    return m;
  });
  p.parsers = p.parsers.map((x) => ({ ...x, t: mapType(x.t, f) }));
  return p;
}

function freshName(prog, prefix) {
  const used = new Set(prog.decls.map((d) => d.name));
  for (let i = 0; ; i++) if (!used.has(`${prefix}${i}`)) return `${prefix}${i}`;
}

function typeParamsInScope(prog) {
  const s = new Set();
  for (const d of prog.decls) for (const p of d.params || []) s.add(p);
  s.add("K");
  s.add("P");
  return s;
}

function mentions(t, names) {
  let hit = false;
  mapType(t, (x) => {
    if (x.k === "ref" && names.has(x.name)) hit = true;
    return x;
  });
  return hit;
}

function reachesItself(prog, name) {
  const seen = new Set();
  const visit = (n) => {
    const d = prog.decls.find((x) => x.name === n);
    if (!d || seen.has(n)) return false;
    seen.add(n);
    let hit = false;
    const f = (x) => {
      if (x.k === "ref") {
        if (x.name === name) hit = true;
        else if (visit(x.name)) hit = true;
      }
      if (x.k === "typeof" || x.k === "enumMember") return x;
      return x;
    };
    mapDecl(d, f);
    return hit;
  };
  return visit(name);
}

export const REWRITES = {
  permuteUnionMembers(prog, rng) {
    let n = 0;
    const p = mapAllTypes(prog, (x) => {
      if ((x.k === "union" || x.k === "inter") && x.ts.length > 1 && rng.chance(0.7)) {
        n++;
        return { ...x, ts: rng.shuffle(x.ts) };
      }
      return x;
    });
    return n ? p : null;
  },
  permuteProperties(prog, rng) {
    let n = 0;
    const p = mapAllTypes(prog, (x) => {
      if (x.k === "obj" && x.props.length > 1 && rng.chance(0.7)) {
        n++;
        return { ...x, props: rng.shuffle(x.props) };
      }
      return x;
    });
    p.decls = p.decls.map((d) => {
      if (d.d === "iface" && d.props.length > 1 && rng.chance(0.7)) {
        n++;
        return { ...d, props: rng.shuffle(d.props) };
      }
      return d;
    });
    return n ? p : null;
  },
  permuteDeclarations(prog, rng) {
    if (prog.decls.length < 2 && prog.parsers.length < 2) return null;
    const p = clone(prog);
    // consts must stay before nothing in particular (hoisting-free TS types); keep them first for readability only
    p.decls = rng.shuffle(p.decls);
    p.parsers = rng.shuffle(p.parsers);
    return p;
  },
  introduceAlias(prog, rng) {
    const p = clone(prog);
    const params = typeParamsInScope(p);
    const slots = allTypeSlots(p);
    if (!slots.length) return null;
    const slot = rng.pick(slots);
    // candidate sub-terms of the slot's type that mention no type parameter
    const cands = [];
    mapType(slot.get(), (x) => {
      if (!mentions(x, params) && !["paren"].includes(x.k)) cands.push(x);
      return x;
    });
    if (!cands.length) return null;
    const target = rng.pick(cands);
    const name = freshName(p, "Z");
    let done = false;
    slot.set(
      mapType(slot.get(), (x) => {
        if (!done && x === target) {
          done = true;
          return A.ref(name);
        }
        return x;
      }),
    );
    if (!done) {
      // identity lost through mapType's rebuilding: compare structurally
      const key = JSON.stringify(target);
      slot.set(
        mapType(slot.get(), (x) => {
          if (!done && JSON.stringify(x) === key) {
            done = true;
            return A.ref(name);
          }
          return x;
        }),
      );
    }
    if (!done) return null;
    p.decls.push({ d: "alias", name, params: [], t: target });
    return p;
  },
  inlineAlias(prog, rng) {
    const cands = prog.decls.filter((d) => d.d === "alias" && (!d.params || !d.params.length) && !reachesItself(prog, d.name));
    if (!cands.length) return null;
    const d = rng.pick(cands);
    let n = 0;
    // names the body mentions: a declaration with a type parameter of that name would capture it
    const free = new Set([d.name]);
    mapType(d.t, (x) => {
      if (x.k === "ref") free.add(x.name);
      return x;
    });
    const p = mapAllTypes(
      prog,
      (x) => {
        if (x.k === "ref" && x.name === d.name && x.args.length === 0) {
          n++;
          return { k: "paren", t: clone(d.t) };
        }
        return x;
      },
      (decl) => (decl.params || []).some((q) => free.has(q)),
    );
    return n ? p : null;
  },
  renameDeclaration(prog, rng) {
    const cands = prog.decls.filter((d) => d.d === "alias" || d.d === "iface");
    if (!cands.length) return null;
    const d = rng.pick(cands);
    const to = freshName(prog, rng.pick(["Aaa", "Zzz", "Mmm", "A_", "z"]));
    // (inside a declaration that has a type parameter of this name, the name means the parameter)
    const p = mapAllTypes(prog, (x) => (x.k === "ref" && x.name === d.name ? { ...x, name: to } : x), (decl) => (decl.params || []).includes(d.name));
    p.decls = p.decls.map((x) => (x.name === d.name ? { ...x, name: to } : x));
    return p;
  },
  // alpha-renaming of a type parameter inside its own declaration (parameter names are local)
  renameTypeParameter(prog, rng) {
    const cands = prog.decls.filter((d) => (d.d === "alias" || d.d === "iface") && d.params && d.params.length);
    if (!cands.length) return null;
    const d = rng.pick(cands);
    const from = rng.pick(d.params);
    const taken = new Set([...prog.decls.map((x) => x.name), ...d.params]);
    const to = ["Q", "T", "Elem", "P_1", "Zz"].find((n) => !taken.has(n));
    if (!to) return null;
    const ren = (x) => (x.k === "ref" && x.name === from && !(x.args || []).length ? { ...x, name: to } : x);
    const p = clone(prog);
    p.decls = p.decls.map((x) => (x.name === d.name ? { ...mapDecl(x, ren), params: x.params.map((q) => (q === from ? to : q)) } : x));
    return p;
  },
  wrapInIdentityGeneric(prog, rng) {
    const p = clone(prog);
    const params = typeParamsInScope(p);
    const slots = allTypeSlots(p).filter((s) => !mentions(s.get(), params));
    if (!slots.length) return null;
    const slot = rng.pick(slots);
    const idName = p.decls.find((d) => d.name === "Id__") ? "Id__" : "Id__";
    if (!p.decls.find((d) => d.name === idName)) p.decls.push({ d: "alias", name: idName, params: ["X"], t: A.ref("X") });
    slot.set(A.ref(idName, [slot.get()]));
    return p;
  },
  parenthesise(prog, rng) {
    let n = 0;
    const p = mapAllTypes(prog, (x) => {
      if (["union", "inter", "arr", "lit", "kw", "ref", "obj"].includes(x.k) && rng.chance(0.15)) {
        n++;
        return { k: "paren", t: x };
      }
      return x;
    });
    return n ? p : null;
  },
  readonlyModifiers(prog, rng) {
    let n = 0;
    const p = mapAllTypes(prog, (x) => {
      if (x.k === "obj" && x.props.length && rng.chance(0.5)) {
        n++;
        return { ...x, props: x.props.map((q) => ({ ...q, ro: !q.ro })) };
      }
      if (x.k === "arr" && rng.chance(0.5)) {
        n++;
        return { ...x, style: rng.pick(["[]", "Array", "ReadonlyArray", "readonly[]"].filter((s) => s !== x.style)) };
      }
      if (x.k === "tuple" && rng.chance(0.5)) {
        n++;
        return { ...x, ro: !x.ro };
      }
      return x;
    });
    return n ? p : null;
  },
  comments(prog, rng) {
    const p = clone(prog);
    let n = 0;
    const doc = () => ({ kind: rng.pick(["line", "block", "jsdoc"]), text: rng.pick(["note", "explains the member", "TODO x", "a * / b"]) });
    p.decls = p.decls.map((d) => {
      if ((d.d === "alias" || d.d === "iface") && rng.chance(0.5)) {
        n++;
        return { ...d, doc: d.doc ? undefined : doc() };
      }
      return d;
    });
    const q = mapAllTypes(p, (x) => {
      if (x.k === "obj" && x.props.length && rng.chance(0.4)) {
        n++;
        return { ...x, props: x.props.map((pp) => (rng.chance(0.5) ? { ...pp, doc: pp.doc ? undefined : doc() } : pp)) };
      }
      return x;
    });
    return n ? q : null;
  },
  interfaceToAlias(prog, rng) {
    const cands = prog.decls.filter((d) => d.d === "iface" && (!d.params || !d.params.length) && (!d.ext || d.ext.length === 0));
    if (!cands.length) return null;
    const d = rng.pick(cands);
    const p = clone(prog);
    p.decls = p.decls.map((x) => (x.name === d.name ? { d: "alias", name: d.name, params: [], t: A.obj(x.props, x.index), doc: x.doc } : x));
    return p;
  },
  aliasToInterface(prog, rng) {
    const cands = prog.decls.filter((d) => d.d === "alias" && (!d.params || !d.params.length) && d.t.k === "obj");
    if (!cands.length) return null;
    const d = rng.pick(cands);
    const p = clone(prog);
    p.decls = p.decls.map((x) => (x.name === d.name ? { d: "iface", name: d.name, params: [], ext: [], props: x.t.props, index: x.t.index, doc: x.doc } : x));
    return p;
  },
  extendsToIntersection(prog, rng) {
    // interface I extends J { own } <-> type I = J & { own }   (no index signatures; members do not conflict by construction)
    const cands = prog.decls.filter((d) => d.d === "iface" && (!d.params || !d.params.length) && d.ext && d.ext.length > 0 && !d.index);
    if (!cands.length) return null;
    const d = rng.pick(cands);
    const p = clone(prog);
    p.decls = p.decls.map((x) => (x.name === d.name ? { d: "alias", name: d.name, params: [], t: A.inter([...x.ext, A.obj(x.props)]), doc: x.doc } : x));
    return p;
  },
  nestLiteralUnion(prog, rng) {
    let n = 0;
    const p = mapAllTypes(prog, (x) => {
      if (x.k === "union" && x.ts.length >= 3 && rng.chance(0.6)) {
        n++;
        const k = 1 + rng.below(x.ts.length - 2);
        return { ...x, ts: [A.union(x.ts.slice(0, k + 1)), ...x.ts.slice(k + 1)] };
      }
      return x;
    });
    return n ? p : null;
  },
};

// rewrites that must leave hash256 / hash unchanged according to C13's statement (names, alias
// boundaries, property order, member order, comments)
export const HASH_PRESERVING = ["permuteUnionMembers", "permuteProperties", "permuteDeclarations", "introduceAlias", "inlineAlias", "renameDeclaration", "renameTypeParameter", "wrapInIdentityGeneric", "parenthesise", "readonlyModifiers", "comments", "interfaceToAlias", "aliasToInterface", "nestLiteralUnion"];
export const ALL_REWRITES = Object.keys(REWRITES);

// apply a list of [name, seed] steps; inapplicable steps are skipped; returns {prog, applied}
export function applySteps(prog, steps, RngClass) {
  let cur = prog;
  const applied = [];
  for (const [name, seed] of steps) {
    const r = REWRITES[name](cur, new RngClass(seed, "rw:" + name));
    if (r) {
      cur = r;
      applied.push(name);
    }
  }
  return { prog: cur, applied };
}

// Source-level AST of the TypeScript subset (my own, never beff's IR) and its renderer.
//
// Type nodes:
//  {k:'kw', name}                      string number boolean null undefined void any unknown never bigint object
//  {k:'lit', v}                        string | number | boolean literal
//  {k:'tpl', parts:[string | typeNode]}   template literal: strings are quasis, nodes are ${...}
//  {k:'arr', el, style}                style: '[]' | 'Array' | 'ReadonlyArray' | 'readonly[]'
//  {k:'tuple', items:[...], rest:null|node, ro:boolean}
//  {k:'obj', props:[{name,t,opt,ro,doc}], index:null|{key,val,pname}}
//  {k:'union', ts}, {k:'inter', ts}, {k:'paren', t}
//  {k:'ref', name, args:[...]}         alias / interface / enum / type parameter / generic instance
//  {k:'enumMember', en, member}
//  {k:'typeof', name, path:[...]}      typeof CONST  /  typeof CONST.a.b
//  {k:'keyof', t}, {k:'index', obj, idx}
//  {k:'mapped', param, constraint, val, opt:boolean, ro:boolean}
//  {k:'cond', check, ext, a, b}
//  {k:'util', name, args}              Partial Required Readonly Pick Omit Record Exclude
//  {k:'builtin', name}                 Date + typed arrays
//  {k:'map', key, val}, {k:'set', el}
//  {k:'fmt', base:'string'|'number', chain:[names]}
//  {k:'importType', file, name}        import("./f").X        (C09)
// Declarations:
//  {d:'alias', name, params:[], t, doc, exported}
//  {d:'iface', name, params:[], ext:[refNodes], props, index, doc, exported}
//  {d:'enum', name, members:[{name, v}], exported, isConst}
//  {d:'const', name, expr, asConst, exported}     expr: value AST below
// Value expressions (for typeof): {e:'str'|'num'|'bool'|'null', v} {e:'arr', items} {e:'obj', props:[{name, v}]}

export const kw = (name) => ({ k: "kw", name });
export const lit = (v) => ({ k: "lit", v });
export const ref = (name, args = []) => ({ k: "ref", name, args });
export const union = (ts) => ({ k: "union", ts });
export const inter = (ts) => ({ k: "inter", ts });
export const arr = (el, style = "[]") => ({ k: "arr", el, style });
export const tuple = (items, rest = null) => ({ k: "tuple", items, rest, ro: false });
export const obj = (props, index = null) => ({ k: "obj", props, index });
export const prop = (name, t, opt = false) => ({ name, t, opt, ro: false });
export const util = (name, args) => ({ k: "util", name, args });

const IDENT = /^[A-Za-z_$][A-Za-z0-9_$]*$/;

export function renderKey(name, forceQuote = false) {
  if (!forceQuote && IDENT.test(name)) return name;
  return JSON.stringify(name);
}

function renderDoc(doc, indent = "") {
  if (doc == null) return "";
  if (doc.kind === "line") return `${indent}// ${doc.text}\n`;
  if (doc.kind === "block") return `${indent}/* ${doc.text} */\n`;
  return `${indent}/** ${doc.text} */\n`;
}

export function renderTpl(parts) {
  let s = "`";
  for (const p of parts) {
    // (a raw carriage return inside a template literal is read as a line feed: it is written as an escape)
    if (typeof p === "string") s += p.replace(/[`\\]/g, (c) => "\\" + c).replace(/\$\{/g, "\\${").replace(/\r/g, "\\r");
    else s += "${" + renderType(p) + "}";
  }
  return s + "`";
}

function needsParenIn(t, ctx) {
  // ctx: 'union' | 'inter' | 'postfix'
  if (t.k === "union") return ctx !== "union";
  if (t.k === "inter") return ctx === "postfix";
  if (t.k === "cond" || t.k === "keyof") return true;
  if (t.k === "typeof") return ctx === "postfix";
  if (t.k === "arr" && (t.style === "readonly[]")) return ctx === "postfix";
  if (t.k === "tuple" && t.ro) return ctx === "postfix";
  return false;
}
function wrap(t, ctx) {
  const s = renderType(t);
  return needsParenIn(t, ctx) ? `(${s})` : s;
}

export function renderProps(props, index) {
  const parts = [];
  for (const p of props) {
    // beff reads a JSDoc comment as the description of the member that starts on the NEXT line; half of
    // the time it is put there, otherwise on the same line (where it is an ordinary comment)
    const own = p.doc && p.doc.kind === "jsdoc" && (p.name.length + String(p.doc.text).length) % 2 === 0;
    const doc = p.doc ? (p.doc.kind === "line" ? renderDoc(p.doc) : own ? "\n" + renderDoc(p.doc) : renderDoc(p.doc).trimEnd() + " ") : "";
    parts.push(`${doc}${p.ro ? "readonly " : ""}${renderKey(p.name, p.quote)}${p.opt ? "?" : ""}: ${renderType(p.t)}`);
  }
  if (index) parts.push(`[${index.pname || "key"}: ${renderType(index.key)}]: ${renderType(index.val)}`);
  return parts;
}

export function renderType(t) {
  switch (t.k) {
    case "kw":
      return t.name;
    case "lit":
      return typeof t.v === "string" ? JSON.stringify(t.v) : String(t.v);
    case "tpl":
      return renderTpl(t.parts);
    case "arr":
      if (t.style === "Array") return `Array<${renderType(t.el)}>`;
      if (t.style === "ReadonlyArray") return `ReadonlyArray<${renderType(t.el)}>`;
      if (t.style === "readonly[]") return `readonly ${wrap(t.el, "postfix")}[]`;
      return `${wrap(t.el, "postfix")}[]`;
    case "tuple": {
      const items = t.items.map((x, i) => (t.labels ? `m${i}: ` : "") + renderType(x));
      if (t.rest) items.push(t.labels ? `...rest: ${wrap(t.rest, "postfix")}[]` : `...${wrap(t.rest, "postfix")}[]`);
      return `${t.ro ? "readonly " : ""}[${items.join(", ")}]`;
    }
    case "obj": {
      const parts = renderProps(t.props, t.index);
      return parts.length === 0 ? "{}" : `{ ${parts.join("; ")} }`;
    }
    case "union":
      // a member may carry a comment of its own: `| /** doc */ { ... }`
      return t.ts.map((x) => (x.mdoc ? (x.mdoc.kind === "line" ? `\n// ${x.mdoc.text}\n` : renderDoc(x.mdoc).trimEnd() + " ") : "") + wrap(x, "union")).join(" | ");
    case "inter":
      return t.ts.map((x) => wrap(x, "inter")).join(" & ");
    case "paren":
      return `(${renderType(t.t)})`;
    case "ref":
      return t.args.length ? `${t.name}<${t.args.map(renderType).join(", ")}>` : t.name;
    case "enumMember":
      return `${t.en}.${t.member}`;
    case "typeof":
      return `typeof ${[t.name, ...t.path].join(".")}`;
    case "keyof":
      return `keyof ${wrap(t.t, "postfix")}`;
    case "fn":
      return "(() => void)";
    case "index":
      return `${wrap(t.obj, "postfix")}[${renderType(t.idx)}]`;
    case "mapped":
      // `plus`: the explicit spellings +readonly / +? of the same modifiers
      return `{ ${t.ro ? (t.plus ? "+readonly " : "readonly ") : ""}[${t.param} in ${renderType(t.constraint)}]${t.opt ? (t.plus ? "+?" : "?") : ""}: ${renderType(t.val)} }`;
    case "cond":
      return `${wrap(t.check, "postfix")} extends ${wrap(t.ext, "postfix")} ? ${renderType(t.a)} : ${renderType(t.b)}`;
    case "util":
      return `${t.name}<${t.args.map(renderType).join(", ")}>`;
    case "builtin":
      return t.name;
    case "map":
      return `Map<${renderType(t.key)}, ${renderType(t.val)}>`;
    case "set":
      return `Set<${renderType(t.el)}>`;
    case "fmt": {
      const T = t.base === "string" ? "StringFormat" : "NumberFormat";
      let acc = `${T}<${JSON.stringify(t.chain[0])}>`;
      for (const c of t.chain.slice(1)) acc = `${T}Extends<${acc}, ${JSON.stringify(c)}>`;
      return acc;
    }
    case "importType":
      return `import(${JSON.stringify(t.file)}).${t.name}`;
    case "raw":
      return t.text;
  }
  throw new Error("renderType: unknown node " + JSON.stringify(t));
}

export function renderExpr(e) {
  switch (e.e) {
    case "str":
      return JSON.stringify(e.v);
    case "num":
    case "bool":
      return String(e.v);
    case "null":
      return "null";
    case "arr":
      return `[${e.items.map(renderExpr).join(", ")}]`;
    case "obj":
      return `{ ${e.props.map((p) => `${renderKey(p.name)}: ${renderExpr(p.v)}`).join(", ")} }`;
  }
  throw new Error("renderExpr");
}

export function renderDecl(d) {
  const ex = d.exported ? "export " : "";
  const params = d.params && d.params.length ? `<${d.params.join(", ")}>` : "";
  switch (d.d) {
    case "alias":
      return `${renderDoc(d.doc)}${ex}type ${d.name}${params} = ${renderType(d.t)};`;
    case "iface": {
      const ext = d.ext && d.ext.length ? ` extends ${d.ext.map(renderType).join(", ")}` : "";
      // splitAt: the same interface written as two declarations that merge (props before / from that index)
      if (d.splitAt > 0 && d.splitAt < d.props.length) {
        const first = renderProps(d.props.slice(0, d.splitAt), null);
        const second = renderProps(d.props.slice(d.splitAt), d.index);
        return `${renderDoc(d.doc)}${ex}interface ${d.name}${params}${ext} { ${first.join("; ")} }\n${ex}interface ${d.name}${params} { ${second.join("; ")} }`;
      }
      const parts = renderProps(d.props, d.index);
      return `${renderDoc(d.doc)}${ex}interface ${d.name}${params}${ext} { ${parts.join("; ")} }`;
    }
    case "enum":
      return `${ex}${d.isConst ? "const " : ""}enum ${d.name} { ${d.members
        .map((m) => `${m.name} = ${typeof m.v === "string" ? JSON.stringify(m.v) : m.v}`)
        .join(", ")} }`;
    case "const":
      return `${ex}const ${d.name} = ${renderExpr(d.expr)}${d.asConst ? " as const" : ""};`;
    case "raw":
      return d.text;
  }
  throw new Error("renderDecl");
}

// program: {decls, parsers:[{name,t}]}  ->  single-file text
export function renderProgram(p) {
  const lines = p.decls.map(renderDecl);
  const entries = p.parsers.map((x) => `  ${x.name}: ${renderType(x.t)};`);
  lines.push(`export const Parsers = parse.buildParsers<{\n${entries.join("\n")}\n}>();`);
  return lines.join("\n") + "\n";
}

// generic structural traversal helpers -------------------------------------------------------
export function mapType(t, f) {
  // bottom-up rebuild; f(node) -> node
  const m = (x) => mapType(x, f);
  let r;
  switch (t.k) {
    case "tpl":
      r = { ...t, parts: t.parts.map((p) => (typeof p === "string" ? p : m(p))) };
      break;
    case "arr":
      r = { ...t, el: m(t.el) };
      break;
    case "tuple":
      r = { ...t, items: t.items.map(m), rest: t.rest ? m(t.rest) : null };
      break;
    case "obj":
      r = {
        ...t,
        props: t.props.map((p) => ({ ...p, t: m(p.t) })),
        index: t.index ? { ...t.index, key: m(t.index.key), val: m(t.index.val) } : null,
      };
      break;
    case "union":
    case "inter":
      r = { ...t, ts: t.ts.map(m) };
      break;
    case "paren":
      r = { ...t, t: m(t.t) };
      break;
    case "ref":
      r = { ...t, args: t.args.map(m) };
      break;
    case "keyof":
      r = { ...t, t: m(t.t) };
      break;
    case "index":
      r = { ...t, obj: m(t.obj), idx: m(t.idx) };
      break;
    case "mapped":
      r = { ...t, constraint: m(t.constraint), val: m(t.val) };
      break;
    case "cond":
      r = { ...t, check: m(t.check), ext: m(t.ext), a: m(t.a), b: m(t.b) };
      break;
    case "util":
      r = { ...t, args: t.args.map(m) };
      break;
    case "map":
      r = { ...t, key: m(t.key), val: m(t.val) };
      break;
    case "set":
      r = { ...t, el: m(t.el) };
      break;
    default:
      r = { ...t };
  }
  return f(r);
}

export function mapDecl(d, f) {
  switch (d.d) {
    case "alias":
      return { ...d, t: mapType(d.t, f) };
    case "iface":
      return {
        ...d,
        ext: (d.ext || []).map((e) => mapType(e, f)),
        props: d.props.map((p) => ({ ...p, t: mapType(p.t, f) })),
        index: d.index ? { ...d.index, key: mapType(d.index.key, f), val: mapType(d.index.val, f) } : null,
      };
    default:
      return { ...d };
  }
}

export function typeSize(t) {
  let n = 0;
  mapType(t, (x) => {
    n++;
    return x;
  });
  return n;
}

// Reference semantics, part 1: evaluation of the source AST to a small closed core language,
// following TypeScript's rules (aliases, generics by substitution, interfaces, enums, typeof,
// utility / keyof / indexed-access / mapped / conditional / Exclude). Shares no code with beff.
// Anything outside the region where TypeScript's answer is uncontroversial throws Unsupported;
// generators then pick something else (the case is never judged).
//
// Core: {c:'any'|'never'|'nullish'|'date'|'anyobj'|'fn'} {c:'prim',p} {c:'lit',v}
//       {c:'tpl',parts:[{s}|{h}|{alts:[part]}], esc} {c:'arr',el} {c:'tuple',items,rest}
//       {c:'obj',props:[{name,t,opt}],index:null|{key,val,opt}} {c:'union',ts} {c:'inter',ts}
//       {c:'typed',name} {c:'map',key,val} {c:'set',el} {c:'fmt',base,chain} {c:'ref',key}

export class Unsupported extends Error {
  constructor(msg) {
    super(msg);
    this.unsupported = true;
  }
}
const unsup = (m) => {
  throw new Unsupported(m);
};

export const C = {
  any: { c: "any" },
  never: { c: "never" },
  nullish: { c: "nullish" },
  string: { c: "prim", p: "string" },
  number: { c: "prim", p: "number" },
  boolean: { c: "prim", p: "boolean" },
  bigint: { c: "prim", p: "bigint" },
  lit: (v) => ({ c: "lit", v }),
  union: (ts) => {
    const flat = [];
    for (const t of ts) {
      if (t.c === "union") flat.push(...t.ts);
      else if (t.c !== "never") flat.push(t);
    }
    const seen = new Set();
    const out = [];
    for (const t of flat) {
      const k = canon(t);
      if (!seen.has(k)) {
        seen.add(k);
        out.push(t);
      }
    }
    if (out.length === 0) return C.never;
    if (out.length === 1) return out[0];
    return { c: "union", ts: out };
  },
};

export function canon(t) {
  return JSON.stringify(t, (k, v) => (typeof v === "number" && !Number.isFinite(v) ? String(v) : v));
}

export class Env {
  constructor(decls) {
    this.decls = new Map();
    for (const d of decls) this.decls.set(d.name, d);
    this.defs = new Map(); // key -> core | null (in progress)
  }

  resolve(t, fuel = 50) {
    while (t.c === "ref") {
      if (fuel-- <= 0) unsup("ref chain");
      const d = this.defs.get(t.key);
      if (d == null) unsup("reference to a definition still in progress");
      t = d;
    }
    return t;
  }

  // members of a (possibly nested / aliased) union, with `boolean` kept as is
  unionMembers(t) {
    t = this.resolve(t);
    if (t.c === "union") return t.ts.flatMap((x) => this.unionMembers(x));
    if (t.c === "never") return [];
    return [t];
  }

  // string literal keys denoted by a key type, or a marker for infinite key sets
  keyList(t) {
    const lits = [];
    const infinite = [];
    for (const m of this.unionMembers(t)) {
      if (m.c === "lit" && typeof m.v === "string") lits.push(m.v);
      else if (m.c === "prim" && (m.p === "string" || m.p === "number")) infinite.push(m);
      else if (m.c === "tpl") infinite.push(m);
      else unsup("key type member " + m.c);
    }
    return { lits, infinite };
  }

  // property list of an object-like type: {props:[{name,t,opt}], index}
  shapeOf(t) {
    t = this.resolve(t);
    if (t.c === "obj") return { props: t.props, index: t.index };
    if (t.c === "inter") {
      const props = [];
      let index = null;
      for (const m of t.ts) {
        const s = this.shapeOf(m);
        if (s == null) return null;
        if (s.index) {
          if (index) return null;
          index = s.index;
        }
        for (const p of s.props) {
          const e = props.find((x) => x.name === p.name);
          if (e) {
            if (canon(e.t) !== canon(p.t) || e.opt !== p.opt) return null; // conflicting members
          } else props.push(p);
        }
      }
      return { props, index };
    }
    return null;
  }

  norm(t, scope = new Map()) {
    switch (t.k) {
      case "kw":
        switch (t.name) {
          case "string":
          case "number":
          case "boolean":
          case "bigint":
            return { c: "prim", p: t.name };
          // validators conflate null / undefined / void (member() reads them alike); the semantic engine
          // does not, so the spelling is kept for Exclude / conditional types
          case "null":
            return { c: "nullish", w: "null" };
          case "undefined":
            return { c: "nullish", w: "undefined" };
          case "void":
            return { c: "nullish", w: "void" };
          case "any":
          case "unknown":
            return C.any;
          case "never":
            return C.never;
          case "object":
            return { c: "anyobj" };
        }
        return unsup("keyword " + t.name);
      case "lit":
        return C.lit(t.v);
      case "paren":
        return this.norm(t.t, scope);
      case "tpl": {
        const parts = [];
        let esc = false;
        for (const p of t.parts) {
          if (typeof p === "string") {
            if (p.includes("\\") || p.includes("`") || p.includes("${")) esc = true;
            if (p.length > 0) parts.push({ s: p });
          } else parts.push(this.tplPart(this.norm(p, scope)));
        }
        if (parts.every((p) => p.s != null)) return C.lit(parts.map((p) => p.s).join(""));
        return { c: "tpl", parts, esc };
      }
      case "arr":
        return { c: "arr", el: this.norm(t.el, scope) };
      case "tuple":
        return {
          c: "tuple",
          items: t.items.map((x) => this.norm(x, scope)),
          rest: t.rest ? this.norm(t.rest, scope) : null,
        };
      case "obj":
        return this.normObj(t.props, t.index, scope);
      case "union":
        return C.union(t.ts.map((x) => this.norm(x, scope)));
      case "inter": {
        const ts = t.ts.map((x) => this.norm(x, scope));
        return ts.length === 1 ? ts[0] : { c: "inter", ts };
      }
      case "ref":
        return this.normRef(t, scope);
      case "enumMember": {
        const d = this.decls.get(t.en);
        if (!d || d.d !== "enum") unsup("enum member of non-enum");
        const m = d.members.find((x) => x.name === t.member);
        if (!m) unsup("no such enum member");
        return C.lit(m.v);
      }
      case "typeof":
        return this.normTypeof(t);
      case "keyof": {
        const s = this.shapeOf(this.norm(t.t, scope));
        if (s == null) unsup("keyof of non object-like");
        if (s.index) unsup("keyof with index signature");
        return C.union(s.props.map((p) => C.lit(p.name)));
      }
      case "index":
        return this.normIndex(this.norm(t.obj, scope), this.norm(t.idx, scope));
      case "mapped":
        return this.normMapped(t, scope);
      case "cond": {
        // distributive over a union bound to a naked type parameter: F<A | B> = F<A> | F<B>
        if (t.check.k === "ref" && !(t.check.args || []).length && scope && scope.has(t.check.name)) {
          const ms = this.expandBool(this.unionMembers(scope.get(t.check.name)));
          if (ms.length !== 1) {
            const parts = ms.map((m) => {
              const inner = new Map(scope);
              inner.set(t.check.name, m);
              return this.norm(t, inner);
            });
            return this.recombineBool(parts.flatMap((x) => this.unionMembers(x)));
          }
        }
        const a = this.norm(t.check, scope);
        const b = this.norm(t.ext, scope);
        const r = this.assignable(a, b);
        if (r == null) unsup("conditional outside the decidable fragment");
        return this.norm(r ? t.a : t.b, scope);
      }
      case "util":
        return this.normUtil(t, scope);
      case "fn":
        return { c: "fn" };
      case "builtin":
        if (t.name === "Date") return { c: "date" };
        return { c: "typed", name: t.name };
      case "map":
        return { c: "map", key: this.norm(t.key, scope), val: this.norm(t.val, scope) };
      case "set":
        return { c: "set", el: this.norm(t.el, scope) };
      case "fmt":
        return { c: "fmt", base: t.base, chain: t.chain.slice() };
    }
    return unsup("node " + t.k);
  }

  tplPart(c) {
    c = this.resolve(c);
    if (c.c === "prim" && ["string", "number", "boolean"].includes(c.p)) return { h: c.p };
    if (c.c === "lit" && typeof c.v === "string") return { s: c.v };
    if (c.c === "union") return { alts: c.ts.map((x) => this.tplPart(x)) };
    return unsup("template part " + c.c);
  }

  normObj(props, index, scope) {
    const out = [];
    for (const p of props) {
      if (out.some((x) => x.name === p.name)) unsup("duplicate property");
      out.push({ name: p.name, t: this.norm(p.t, scope), opt: !!p.opt });
    }
    let idx = null;
    if (index) idx = { key: this.norm(index.key, scope), val: this.norm(index.val, scope), opt: false };
    return { c: "obj", props: out, index: idx };
  }

  normRef(t, scope) {
    if (t.args.length === 0 && scope.has(t.name)) return scope.get(t.name);
    const d = this.decls.get(t.name);
    if (!d) unsup("unknown name " + t.name);
    if (d.d === "enum") return C.union(d.members.map((m) => C.lit(m.v)));
    if (d.d === "const") unsup("value used as type");
    const params = d.params || [];
    if (params.length !== t.args.length) unsup("type argument count");
    const args = t.args.map((a) => this.norm(a, scope));
    const key = `${t.name}<${args.map(canon).join(",")}>`;
    if (this.defs.has(key)) return { c: "ref", key };
    this.defs.set(key, null);
    const inner = new Map();
    params.forEach((p, i) => inner.set(p, args[i]));
    let body;
    try {
      if (d.d === "alias") body = this.norm(d.t, inner);
      else {
        const own = this.normObj(d.props, d.index, inner);
        if (d.ext && d.ext.length) {
          const exts = d.ext.map((e) => this.norm(e, inner));
          body = { c: "inter", ts: [...exts, own] };
        } else body = own;
      }
    } catch (e) {
      this.defs.delete(key);
      throw e;
    }
    this.defs.set(key, body);
    return { c: "ref", key };
  }

  exprType(e, asConst) {
    switch (e.e) {
      case "str":
        return asConst ? C.lit(e.v) : C.string;
      case "num":
        return asConst ? C.lit(e.v) : C.number;
      case "bool":
        return asConst ? C.lit(e.v) : C.boolean;
      case "null":
        return C.nullish;
      case "arr":
        if (!asConst) unsup("typeof of a non-const array (TypeScript widens to an array type)");
        return { c: "tuple", items: e.items.map((x) => this.exprType(x, true)), rest: null };
      case "obj":
        return { c: "obj", props: e.props.map((p) => ({ name: p.name, t: this.exprType(p.v, asConst), opt: false })), index: null };
    }
    return unsup("expr");
  }

  normTypeof(t) {
    const d = this.decls.get(t.name);
    // the value an enum declaration creates: an object with one property per member
    if (d && d.d === "enum") {
      let cur = { c: "obj", props: d.members.map((m) => ({ name: m.name, t: C.lit(m.v), opt: false })), index: null };
      for (const seg of t.path) {
        const p = cur.c === "obj" && cur.props.find((x) => x.name === seg);
        if (!p) unsup("typeof path missing");
        cur = p.t;
      }
      return cur;
    }
    if (!d || d.d !== "const") unsup("typeof of non-const");
    let cur = this.exprType(d.expr, d.asConst);
    for (const seg of t.path) {
      if (cur.c !== "obj") unsup("typeof path through non-object");
      const p = cur.props.find((x) => x.name === seg);
      if (!p) unsup("typeof path missing");
      cur = p.t;
    }
    return cur;
  }

  normIndex(o, i) {
    const ro = this.resolve(o);
    const keys = this.unionMembers(i);
    if (ro.c === "arr") {
      if (keys.length === 1 && keys[0].c === "prim" && keys[0].p === "number") return ro.el;
      unsup("array index");
    }
    if (ro.c === "tuple") {
      if (keys.length === 1 && keys[0].c === "prim" && keys[0].p === "number")
        return C.union([...ro.items, ...(ro.rest ? [ro.rest] : [])]);
      unsup("tuple index");
    }
    const s = this.shapeOf(ro);
    if (s == null || s.index) unsup("indexed access on non object-like");
    if (keys.length === 0) unsup("index never");
    const out = [];
    for (const k of keys) {
      if (!(k.c === "lit" && typeof k.v === "string")) unsup("index key kind");
      const p = s.props.find((x) => x.name === k.v);
      if (!p) unsup("index key not a property");
      out.push(p.opt ? C.union([p.t, C.nullish]) : p.t);
    }
    return C.union(out);
  }

  normMapped(t, scope) {
    const k = this.keyList(this.norm(t.constraint, scope));
    const props = [];
    for (const name of k.lits) {
      if (props.some((p) => p.name === name)) continue;
      const inner = new Map(scope);
      inner.set(t.param, C.lit(name));
      props.push({ name, t: this.norm(t.val, inner), opt: !!t.opt });
    }
    let index = null;
    if (k.infinite.length) {
      const key = C.union(k.infinite);
      const inner = new Map(scope);
      inner.set(t.param, key);
      index = { key, val: this.norm(t.val, inner), opt: !!t.opt };
    }
    return { c: "obj", props, index };
  }

  normUtil(t, scope) {
    const a = t.args.map((x) => this.norm(x, scope));
    switch (t.name) {
      case "Readonly":
        return a[0];
      case "Partial": {
        const s = this.shapeOf(a[0]);
        if (!s) unsup("Partial of non object-like");
        return {
          c: "obj",
          props: s.props.map((p) => ({ ...p, opt: true })),
          index: s.index ? { ...s.index, opt: true } : null,
        };
      }
      case "Required": {
        const s = this.shapeOf(a[0]);
        if (!s || s.index) unsup("Required operand");
        // `-?` takes `undefined` - and only `undefined`, not `null` - out of the type of a member that
        // was optional (through aliases as well): Required<{ a?: string | undefined | null }> = { a: string | null }
        return { c: "obj", props: s.props.map((p) => ({ ...p, t: p.opt ? this.withoutUndefined(p.t) : p.t, opt: false })), index: null };
      }
      case "Pick": {
        const s = this.shapeOf(a[0]);
        if (!s || s.index) unsup("Pick operand");
        const k = this.keyList(a[1]);
        if (k.infinite.length) unsup("Pick keys");
        for (const name of k.lits) if (!s.props.some((p) => p.name === name)) unsup("Pick key not in type");
        return { c: "obj", props: s.props.filter((p) => k.lits.includes(p.name)), index: null };
      }
      case "Omit": {
        const s = this.shapeOf(a[0]);
        if (!s || s.index) unsup("Omit operand");
        const k = this.keyList(a[1]);
        if (k.infinite.length) unsup("Omit keys");
        return { c: "obj", props: s.props.filter((p) => !k.lits.includes(p.name)), index: null };
      }
      case "Record": {
        const k = this.keyList(a[0]);
        const props = [];
        for (const name of k.lits) if (!props.some((p) => p.name === name)) props.push({ name, t: a[1], opt: false });
        const index = k.infinite.length ? { key: C.union(k.infinite), val: a[1], opt: false } : null;
        return { c: "obj", props, index };
      }
      case "Exclude": {
        const out = [];
        for (const m of this.expandBool(this.unionMembers(a[0]))) {
          const r = this.assignable(m, a[1]);
          if (r === true) continue;
          if (r === false && this.disjoint(m, a[1]) === true) {
            out.push(m);
            continue;
          }
          unsup("Exclude member neither inside nor disjoint");
        }
        return this.recombineBool(out);
      }
    }
    return unsup("utility " + t.name);
  }

  withoutUndefined(t0) {
    const t = this.resolve(t0);
    if (t.c === "nullish") {
      if (t.w === "undefined") return C.never ?? { c: "never" };
      if (t.w === "null") return t0;
      unsup("Required over a member of type void / computed nullish");
    }
    if (t.c !== "union") return t0;
    const flat = [];
    const walk = (x) => {
      const r = this.resolve(x);
      if (r.c === "union") r.ts.forEach(walk);
      else flat.push([x, r]);
    };
    walk(t0);
    if (!flat.some(([, r]) => r.c === "nullish" && r.w !== "null")) return t0;
    if (flat.some(([, r]) => r.c === "nullish" && r.w !== "null" && r.w !== "undefined")) unsup("Required over a member of type void / computed nullish");
    const rest = flat.filter(([, r]) => !(r.c === "nullish" && r.w === "undefined")).map(([, r]) => r);
    return rest.length === 0 ? (C.never ?? { c: "never" }) : rest.length === 1 ? rest[0] : C.union(rest);
  }
  mentionsNullish(t) {
    t = this.resolve(t);
    if (t.c === "nullish" || t.c === "any") return true;
    if (t.c === "union") return t.ts.some((x) => this.mentionsNullish(x));
    return false;
  }

  expandBool(ms) {
    return ms.flatMap((m) => (m.c === "prim" && m.p === "boolean" ? [C.lit(true), C.lit(false)] : [m]));
  }
  recombineBool(ms) {
    const hasT = ms.some((m) => m.c === "lit" && m.v === true);
    const hasF = ms.some((m) => m.c === "lit" && m.v === false);
    if (hasT && hasF) {
      return C.union([...ms.filter((m) => !(m.c === "lit" && typeof m.v === "boolean")), C.boolean]);
    }
    return C.union(ms);
  }

  // TypeScript assignability on the fragment {literals, string/number/boolean/bigint, unions of
  // those, flat object types}; null = outside the fragment (never guessed)
  assignable(a, b) {
    const bs = this.expandBool(this.unionMembers(b));
    const as = this.expandBool(this.unionMembers(a));
    if (as.some((m) => m.c === "any")) return null;
    if (bs.some((m) => m.c === "any")) return true;
    let all = true;
    for (const m of as) {
      let some = false;
      for (const n of bs) {
        const r = this.assignable1(m, n);
        if (r == null) return null;
        if (r) {
          some = true;
          break;
        }
      }
      if (!some) all = false;
    }
    return all;
  }
  assignable1(a, b) {
    this._fuel = (this._fuel ?? 0) + 1;
    try {
      if (this._fuel > 40) return null; // recursive definitions: undecided rather than unbounded
      return this.assignable1x(a, b);
    } finally {
      this._fuel--;
    }
  }
  // kinds of values that no beff validator confuses: a member of one kind is never a member of another
  static kindOf(x) {
    if (x.c === "lit") return typeof x.v;
    if (x.c === "prim") return x.p;
    if (x.c === "nullish") return "nullish";
    if (x.c === "arr" || x.c === "tuple") return "array";
    if (x.c === "tpl") return "string";
    return null; // objects, records, intersections, maps, ...: not classified here
  }
  assignable1x(a, b) {
    const ka = Env.kindOf(a),
      kb = Env.kindOf(b);
    if (ka && kb && ka !== kb) return false;
    if (a.c === "nullish" && b.c === "nullish") {
      if (!a.w || !b.w) return null;
      return a.w === b.w || (a.w === "undefined" && b.w === "void");
    }
    if ((ka === "nullish" && b.c === "obj") || (a.c === "obj" && kb === "nullish")) return false;
    if ((a.c === "tuple" || a.c === "arr") && (b.c === "tuple" || b.c === "arr")) {
      const all = (pairs) => {
        let undecided = false;
        for (const [x, y] of pairs) {
          const r = this.assignable(x, y);
          if (r === false) return false;
          if (r == null) undecided = true;
        }
        return undecided ? null : true;
      };
      if (a.c === "arr" && b.c === "arr") return all([[a.el, b.el]]);
      if (a.c === "tuple" && b.c === "arr") return all([...a.items, ...(a.rest ? [a.rest] : [])].map((x) => [x, b.el]));
      if (a.c === "arr" && b.c === "tuple") return b.items.length > 0 ? false : b.rest ? all([[a.el, b.rest]]) : null;
      if (!a.rest && !b.rest) return a.items.length !== b.items.length ? false : all(a.items.map((x, i) => [x, b.items[i]]));
      return null;
    }
    if (a.c === "lit" && b.c === "lit") return a.v === b.v;
    if (a.c === "lit" && b.c === "prim") return typeof a.v === b.p;
    if (a.c === "prim" && b.c === "prim") return a.p === b.p;
    if (a.c === "prim" && b.c === "lit") return false;
    const scalar = (x) => x.c === "lit" || x.c === "prim";
    if (a.c === "obj" && b.c === "obj") {
      if (a.index || b.index) return null;
      for (const q of b.props) {
        const p = a.props.find((x) => x.name === q.name);
        if (!p) {
          if (q.opt) continue;
          return false;
        }
        if (p.opt && !q.opt) return false;
        // an optional target property also takes `undefined` (no exactOptionalPropertyTypes): what the
        // source may hold there - its type, and `undefined` if it is optional itself - is compared
        // with the target's type or undefined
        const r = this.assignable(p.t, q.opt ? C.union([q.t, { c: "nullish", w: "undefined" }]) : q.t);
        if (r == null) return null;
        if (!r) return false;
      }
      return true;
    }
    if (scalar(a) && b.c === "obj") return b.props.length === 0 && !b.index ? null : false;
    if (a.c === "obj" && scalar(b)) return false;
    return null;
  }
  // no common value (under open object reading); null = unknown
  disjoint(a, b) {
    const as = this.expandBool(this.unionMembers(a));
    const bs = this.expandBool(this.unionMembers(b));
    for (const m of as)
      for (const n of bs) {
        const r = this.disjoint1(m, n);
        if (r !== true) return r;
      }
    return true;
  }
  disjoint1(a, b) {
    const ka = Env.kindOf(a),
      kb = Env.kindOf(b);
    if (ka && kb && ka !== kb) return true;
    if ((ka === "nullish" && b.c === "obj") || (a.c === "obj" && kb === "nullish")) return true;
    if (a.c === "nullish" && b.c === "nullish") {
      if (!a.w || !b.w) return null;
      const same = (x) => (x === "void" ? "undefined" : x);
      return same(a.w) !== same(b.w) ? true : false;
    }
    if (a.c === "tuple" && b.c === "tuple" && !a.rest && !b.rest) {
      if (a.items.length !== b.items.length) return true;
      this._fuel = (this._fuel ?? 0) + 1;
      try {
        if (this._fuel > 40) return null;
        for (let i = 0; i < a.items.length; i++) if (this.disjoint(a.items[i], b.items[i]) === true) return true;
      } finally {
        this._fuel--;
      }
      return null;
    }
    if (a.c === "tpl" || b.c === "tpl") return null;
    const scalar = (x) => x.c === "lit" || x.c === "prim";
    const base = (x) => (x.c === "lit" ? typeof x.v : x.p);
    if (scalar(a) && scalar(b)) {
      if (base(a) !== base(b)) return true;
      if (a.c === "lit" && b.c === "lit") return a.v !== b.v;
      return false;
    }
    if ((scalar(a) && b.c === "obj") || (a.c === "obj" && scalar(b))) return true;
    if (a.c === "obj" && b.c === "obj") {
      for (const p of a.props) {
        const q = b.props.find((x) => x.name === p.name);
        if (q && !p.opt && !q.opt) {
          const r = this.disjoint(p.t, q.t);
          if (r === true) return true;
        }
      }
      return null;
    }
    return null;
  }
}

// Reference semantics, part 2: three-valued membership of a JavaScript value in a core type,
// under the conventions stated in property C01 (null ~ undefined, optional may be absent or
// nullish, undeclared properties ignored in default mode), and its strict-mode counterpart (C11).
// 'Y' member, 'N' non-member, 'U' unspecified (counted, never judged). See DESIGN.md appendix A.
import { types as utypes } from "node:util";
import { STRING_FORMATS, NUMBER_FORMATS } from "../lib/formats.mjs";

export const Y = "Y",
  N = "N",
  U = "U";
export const and = (a, b) => (a === N || b === N ? N : a === Y && b === Y ? Y : U);
export const or = (a, b) => (a === Y || b === Y ? Y : a === N && b === N ? N : U);

const hasOwn = (o, k) => Object.prototype.hasOwnProperty.call(o, k);
const isBoxed = (v) =>
  v instanceof String || v instanceof Number || v instanceof Boolean || (typeof BigInt !== "undefined" && Object.prototype.toString.call(v) === "[object BigInt]") || Object.prototype.toString.call(v) === "[object Symbol]";

function classifyNumberSlot(s) {
  if (s === "") return N;
  if (/^-?\d+(\.\d+)?$/.test(s)) return Y;
  if (!Number.isFinite(+s)) return N;
  return U; // "1e3", " 1", "0x1", ".5", "1.", "+1", " " ... TypeScript accepts, grammar disputed
}

// best outcome (Y > U > N) over all ways of matching parts[pi..] against s[i..]
function tplMatch(parts, pi, s, i, memo) {
  const key = pi * 100003 + i;
  if (memo.has(key)) return memo.get(key);
  let res;
  if (pi === parts.length) res = i === s.length ? Y : N;
  else {
    res = N;
    const p = parts[pi];
    const alts = p.alts ? p.alts : [p];
    outer: for (const a of alts) {
      if (a.alts) {
        // nested alternative: flatten by recursion on a synthetic part list
        const r = tplMatch([a, ...parts.slice(pi + 1)], 0, s.slice(i), 0, new Map());
        res = or(res, r);
        if (res === Y) break;
        continue;
      }
      if (a.s != null) {
        if (s.startsWith(a.s, i)) res = or(res, tplMatch(parts, pi + 1, s, i + a.s.length, memo));
      } else if (a.h === "string") {
        for (let j = i; j <= s.length; j++) {
          res = or(res, tplMatch(parts, pi + 1, s, j, memo));
          if (res === Y) break outer;
        }
      } else if (a.h === "boolean") {
        for (const w of ["true", "false"])
          if (s.startsWith(w, i)) res = or(res, tplMatch(parts, pi + 1, s, i + w.length, memo));
      } else if (a.h === "number") {
        for (let j = i; j <= s.length; j++) {
          const c = classifyNumberSlot(s.slice(i, j));
          if (c === N) continue;
          res = or(res, and(c, tplMatch(parts, pi + 1, s, j, memo)));
          if (res === Y) break outer;
        }
      }
      if (res === Y) break;
    }
  }
  memo.set(key, res);
  return res;
}

export function tplMember(t, v) {
  if (typeof v !== "string") return N;
  if (t.esc) return U;
  if (v.length > 64) return U;
  return tplMatch(t.parts, 0, v, 0, new Map());
}

export class Ref {
  constructor(env) {
    this.env = env;
  }

  keyMember(K, k) {
    K = this.env.resolve(K);
    switch (K.c) {
      case "any":
        return Y;
      case "prim":
        if (K.p === "string") return Y;
        if (K.p === "number") {
          if (String(Number(k)) === k && k !== "NaN") return Y;
          return U;
        }
        return U;
      case "lit":
        return typeof K.v === "string" ? (K.v === k ? Y : U) : U;
      case "tpl": {
        const r = tplMember(K, k);
        return r === Y ? Y : U; // a key the index signature does not admit is undeclared: left unjudged
      }
      case "union":
        return K.ts.reduce((a, x) => or(a, this.keyMember(x, k)), N) === Y ? Y : U;
      case "fmt": {
        const r = this.member(K, k);
        return r === Y ? Y : U;
      }
    }
    return U;
  }

  member(t, v, strict = false) {
    if (utypes.isProxy(v)) return U;
    switch (t.c) {
      case "ref": {
        const d = this.env.defs.get(t.key);
        if (d == null) return U;
        return this.member(d, v, strict);
      }
      case "any":
        return Y;
      case "never":
        return N;
      case "fn":
        return typeof v === "function" ? Y : N;
      case "prim":
        return typeof v === t.p ? Y : N;
      case "nullish":
        return v == null ? Y : N;
      case "lit":
        return v === t.v ? Y : N;
      case "tpl":
        return tplMember(t, v);
      case "fmt": {
        if (typeof v !== t.base) return N;
        const table = t.base === "string" ? STRING_FORMATS : NUMBER_FORMATS;
        for (const f of t.chain) {
          if (!table[f]) return U;
          if (!table[f](v)) return N;
        }
        return Y;
      }
      case "date":
        return v instanceof Date ? Y : N;
      case "typed":
        return v instanceof globalThis[t.name] ? Y : N;
      case "arr": {
        if (!Array.isArray(v)) return N;
        let r = Y;
        for (let i = 0; i < v.length; i++) {
          r = and(r, this.member(t.el, v[i], strict));
          if (r === N) return N;
        }
        return r;
      }
      case "tuple": {
        if (!Array.isArray(v)) return N;
        const n = t.items.length;
        if (v.length > n && !t.rest) return N;
        let r = Y;
        for (let i = 0; i < Math.max(n, v.length); i++) {
          const it = i < n ? t.items[i] : t.rest;
          if (i >= v.length) {
            // too short: TypeScript rejects; beff reads the missing slot as undefined
            r = and(r, this.member(it, undefined, strict) === N ? N : U);
          } else r = and(r, this.member(it, v[i], strict));
          if (r === N) return N;
        }
        return r;
      }
      case "map": {
        if (!(v instanceof Map)) return N;
        let r = Y;
        for (const [k, x] of v) {
          r = and(r, and(this.member(t.key, k, strict), this.member(t.val, x, strict)));
          if (r === N) return N;
        }
        return r;
      }
      case "set": {
        if (!(v instanceof Set)) return N;
        let r = Y;
        for (const x of v) {
          r = and(r, this.member(t.el, x, strict));
          if (r === N) return N;
        }
        return r;
      }
      case "union": {
        let r = N;
        for (const x of t.ts) {
          r = or(r, this.member(x, v, strict));
          if (r === Y) return Y;
        }
        return r;
      }
      case "inter": {
        if (strict) return this.strictInter(t, v);
        let r = Y;
        for (const x of t.ts) {
          r = and(r, this.member(x, v, false));
          if (r === N) return N;
        }
        return r;
      }
      case "anyobj": {
        if (v === null || (typeof v !== "object" && typeof v !== "function")) return N;
        if (Array.isArray(v) || typeof v === "function") return U;
        return Y;
      }
      case "obj":
        return this.memberObj(t, v, strict);
    }
    return U;
  }

  memberObj(t, v, strict) {
    if (v === null || (typeof v !== "object" && typeof v !== "function")) return N;
    if (Array.isArray(v) || typeof v === "function" || isBoxed(v)) {
      for (const p of t.props) {
        if (!p.opt && !(p.name in v) && this.member(p.t, undefined, strict) === N) return N;
      }
      return U;
    }
    let res = Y;
    for (const p of t.props) {
      let r;
      if (hasOwn(v, p.name)) {
        const x = v[p.name];
        r = p.opt && x == null ? Y : this.member(p.t, x, strict);
      } else if (p.name in v) r = U;
      else if (p.opt) r = Y;
      else r = this.member(p.t, undefined, strict) === N ? N : U;
      res = and(res, r);
      if (res === N) return N;
    }
    const declared = new Set(t.props.map((p) => p.name));
    const extra = Object.keys(v).filter((k) => !declared.has(k));
    if (t.index) {
      for (const k of extra) {
        const rk = this.keyMember(t.index.key, k);
        if (rk !== Y) {
          // key not admitted by the index signature: TypeScript ignores it, strict mode rejects it
          res = and(res, U);
          continue;
        }
        const x = v[k];
        const rv = t.index.opt && x == null ? Y : this.member(t.index.val, x, strict);
        res = and(res, rv);
        if (res === N) return N;
      }
    } else if (strict && extra.length > 0) return N;
    return res;
  }

  // strict mode over an intersection: all members must accept (default mode), and the keys
  // declared are those of all members together (C11's statement)
  strictInter(t, v) {
    let d = Y;
    for (const x of t.ts) {
      d = and(d, this.member(x, v, false));
      if (d === N) return N;
    }
    const ms = t.ts.map((x) => this.env.resolve(x));
    // distribute over a union member
    const ui = ms.findIndex((m) => m.c === "union");
    if (ui >= 0) {
      let r = N;
      for (const alt of ms[ui].ts) {
        const ts = ms.slice();
        ts[ui] = alt;
        r = or(r, this.strictInter({ c: "inter", ts }, v));
        if (r === Y) break;
      }
      return and(d, r);
    }
    const flat = ms.flatMap((m) => (m.c === "inter" ? m.ts.map((x) => this.env.resolve(x)) : [m]));
    if (flat.some((m) => m.c === "union" || m.c === "inter")) return and(d, U);
    // a member that is any / unknown declares every key at every depth: nothing can be undeclared
    if (flat.some((m) => m.c === "any")) return d;
    if (flat.every((m) => m.c !== "obj" && m.c !== "anyobj")) {
      let r = Y;
      for (const m of flat) r = and(r, this.member(m, v, true));
      return and(d, r);
    }
    if (!flat.every((m) => m.c === "obj")) return and(d, U);
    const props = new Map();
    let index = null;
    for (const m of flat) {
      if (m.index) {
        if (index) return and(d, U);
        index = m.index;
      }
    }
    // a key that one member declares by name and another member admits through its index signature
    // has both types (TypeScript: the property type of an intersection is the intersection of what
    // each constituent gives for that key, an index signature included)
    const viaIndex = (m, name) => {
      if (!m.index || m.props.some((q) => q.name === name)) return null;
      const km = this.keyMember(m.index.key, name);
      if (km === N) return null;
      if (km !== Y) return "U";
      return m.index.opt ? { c: "union", ts: [m.index.val, { c: "nullish" }] } : m.index.val;
    };
    for (const m of flat) {
      for (const p of m.props) {
        const e = props.get(p.name);
        // a member that declares the key optional accepts null / undefined there (memberObj's rule);
        // that must survive when another member makes the merged key required
        const pt = p.opt ? { c: "union", ts: [p.t, { c: "nullish" }] } : p.t;
        if (!e) {
          const ts = [pt];
          for (const o of flat) {
            if (o === m) continue;
            const x = viaIndex(o, p.name);
            if (x === "U") return and(d, U);
            if (x) ts.push(x);
          }
          props.set(p.name, { name: p.name, ts, opt: p.opt });
        } else {
          e.ts.push(pt);
          e.opt = e.opt && p.opt;
        }
      }
    }
    const merged = {
      c: "obj",
      props: [...props.values()].map((e) => ({ name: e.name, t: e.ts.length === 1 ? e.ts[0] : { c: "inter", ts: e.ts }, opt: e.opt })),
      index,
    };
    return and(d, this.memberObj(merged, v, true));
  }

  strictMember(t, v) {
    return this.member(t, v, true);
  }

  // C03 (projection): null when every key at every object position of `data` is declared by SOME
  // object type the type offers at that position (any union branch, any intersection member, or
  // admitted by an index signature) — deliberately generous, so that merged union results are not
  // over-demanded; otherwise the path of the first key nobody declares.
  undeclaredPath(t, data, path = "$", depth = 0) {
    if (depth > 60) return null;
    const alts = [];
    const seen = new Set();
    const flat = (x) => {
      if (x.c === "ref") {
        if (seen.has(x.key)) return;
        seen.add(x.key);
        const d = this.env.defs.get(x.key);
        if (d) flat(d);
      } else if (x.c === "union" || x.c === "inter") x.ts.forEach(flat);
      else alts.push(x);
    };
    flat(t);
    if (alts.some((a) => a.c === "any" || a.c === "anyobj")) return null;
    if (data === null || typeof data !== "object") return null;
    if (Array.isArray(data)) {
      for (let i = 0; i < data.length; i++) {
        const ts = [];
        for (const a of alts) {
          if (a.c === "arr") ts.push(a.el);
          if (a.c === "tuple") ts.push(i < a.items.length ? a.items[i] : a.rest ?? { c: "never" });
        }
        if (!ts.length) continue;
        const f = this.undeclaredPath({ c: "union", ts }, data[i], `${path}[${i}]`, depth + 1);
        if (f) return f;
      }
      return null;
    }
    if (data instanceof Map) {
      const ks = alts.filter((a) => a.c === "map");
      if (!ks.length) return null;
      for (const [k, x] of data) {
        const f = this.undeclaredPath({ c: "union", ts: ks.map((a) => a.key) }, k, `${path}.key`, depth + 1) || this.undeclaredPath({ c: "union", ts: ks.map((a) => a.val) }, x, `${path}.value`, depth + 1);
        if (f) return f;
      }
      return null;
    }
    if (data instanceof Set) {
      const ks = alts.filter((a) => a.c === "set");
      if (!ks.length) return null;
      for (const x of data) {
        const f = this.undeclaredPath({ c: "union", ts: ks.map((a) => a.el) }, x, `${path}.item`, depth + 1);
        if (f) return f;
      }
      return null;
    }
    if (data instanceof Date || ArrayBuffer.isView(data)) return null;
    const objs = alts.filter((a) => a.c === "obj");
    if (!objs.length) return null;
    for (const k of Object.keys(data)) {
      const ts = [];
      for (const o of objs) {
        const p = o.props.find((x) => x.name === k);
        if (p) ts.push(p.t);
        else if (o.index && this.keyMember(o.index.key, k) === Y) ts.push(o.index.val);
      }
      if (!ts.length) return `${path}.${k}`;
      const f = this.undeclaredPath({ c: "union", ts }, data[k], `${path}.${k}`, depth + 1);
      if (f) return f;
    }
    return null;
  }
}

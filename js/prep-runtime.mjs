// Builds the client runtime (@beff/client, packages/beff-client/src/*.ts of the working tree) for
// Node: erase-only type stripping (module.stripTypeScriptTypes), then drop import/export
// specifiers that name types only, and stub `zod` (used by .zod() only).
// Output: /verif/.build/rt-<sha256>/ ; prints that directory. Idempotent and content-addressed.
import { stripTypeScriptTypes } from "node:module";
import { createHash } from "node:crypto";
import fs from "node:fs";
import path from "node:path";

process.removeAllListeners("warning");

const REPO = process.env.BEFF_REPO || "/repo";
const SRC = path.join(REPO, "packages/beff-client/src");
const GLUE = path.join(REPO, "packages/beff-wasm/bundled-code/codegen-v2.js");
const OUT_ROOT = process.env.BVH_BUILD || "/verif/.build";

function exportedNames(js) {
  const names = new Set();
  for (const m of js.matchAll(/^export\s+(?:const|let|var|function\*?|class|abstract\s+class|async\s+function)\s+([A-Za-z_$][\w$]*)/gm)) {
    names.add(m[1]);
  }
  for (const m of js.matchAll(/^export\s*\{([^}]*)\}/gm)) {
    for (const part of m[1].split(",")) {
      const p = part.trim();
      if (!p) continue;
      const as = p.split(/\s+as\s+/);
      names.add((as[1] ?? as[0]).trim());
    }
  }
  return names;
}

export function buildRuntime() {
  const files = fs.readdirSync(SRC).filter((f) => f.endsWith(".ts")).sort();
  const h = createHash("sha256");
  const texts = {};
  for (const f of files) {
    texts[f] = fs.readFileSync(path.join(SRC, f), "utf8");
    h.update(f).update("\0").update(texts[f]).update("\0");
  }
  const glue = fs.readFileSync(GLUE, "utf8");
  h.update(glue).update("prep-v3");
  const sha = h.digest("hex").slice(0, 16);
  const out = path.join(OUT_ROOT, `rt-${sha}`);
  if (fs.existsSync(path.join(out, ".done"))) return out;
  fs.mkdirSync(out, { recursive: true });

  const stripped = {};
  for (const f of files) {
    stripped[f] = stripTypeScriptTypes(texts[f], { mode: "strip" });
  }
  const exportsOf = {};
  for (const f of files) exportsOf[f.replace(/\.ts$/, ".js")] = exportedNames(stripped[f]);

  for (const f of files) {
    let js = stripped[f];
    // prune specifiers of relative imports / re-exports that the (stripped) target does not export
    js = js.replace(
      /^(import|export)\s*\{([^}]*)\}\s*from\s*"(\.\/[^"]+)";?/gm,
      (whole, kw, specs, from) => {
        const target = exportsOf[from.replace(/^\.\//, "")];
        if (!target) return whole;
        const kept = specs
          .split(",")
          .map((s) => s.trim())
          .filter((s) => s.length > 0)
          .filter((s) => target.has(s.split(/\s+as\s+/)[0].trim()));
        if (kept.length === 0) return kw === "import" ? `import "${from}";` : "";
        return `${kw} { ${kept.join(", ")} } from "${from}";`;
      },
    );
    js = js.replace(/^import\s*\{\s*z\s*\}\s*from\s*"zod";?/m, 'import { z } from "./zod-stub.js";');
    fs.writeFileSync(path.join(out, f.replace(/\.ts$/, ".js")), js);
  }
  fs.writeFileSync(path.join(out, "zod-stub.js"), "export const z = { custom: (f, m) => ({ _custom: f, _message: m }) };\n");
  fs.writeFileSync(path.join(out, "package.json"), '{"type":"module"}\n');
  // the repo's own glue, cjs-style rewrite exactly as ts-node/bundle-to-disk.ts does for module:"cjs",
  // with `require(...)` replaced by an injected runtime object
  const glueFn = glue
    .replace('"use strict";', "")
    .replace("import {", "const {")
    .replace('} from "@beff/client/codegen-v2";', "} = __rt;");
  if (glueFn.includes("import ")) throw new Error("glue rewrite failed");
  fs.writeFileSync(path.join(out, "glue-body.js"), glueFn);
  fs.writeFileSync(path.join(out, "glue-esm.js"), glue);
  fs.writeFileSync(path.join(out, ".done"), sha + "\n");
  return out;
}

if (import.meta.url === `file://${process.argv[1]}`) {
  console.log(buildRuntime());
}

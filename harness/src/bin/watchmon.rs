//! C14 — watch-mode rebuilds depend on current file contents only, not on edit history.
//! A history of write / rebuild operations over a virtual disk drives the REAL long-lived session
//! (beff-wasm's thread-local BUNDLER, through the `beff_verif` native host); after every rebuild the
//! result is compared with what a fresh session (new thread = new BUNDLER) produces for the same
//! disk. Failing histories are delta-debugged before they are reported.
use beff_wasm::verif;
use bvh::report::{Args, Report, parse_args};
use bvh::rng::Rng;
use serde_json::{Value, json};
use std::cell::RefCell;
use std::collections::{BTreeMap, BTreeSet};
use std::rc::Rc;

type Disk = BTreeMap<String, String>;

#[derive(Clone, Debug, PartialEq)]
enum Op {
    /// write content (class index into the file's variant table); notify = host tells the session
    Write { file: String, text: String, class: &'static str },
    Delete { file: String },
    Rebuild,
}

struct SharedHost {
    disk: Rc<RefCell<Disk>>,
    read: Rc<RefCell<BTreeSet<String>>>,
}
impl verif::Host for SharedHost {
    fn resolve_import(&mut self, current_file: &str, specifier: &str) -> Option<String> {
        let d = self.disk.borrow();
        bvh::resolve_in(&|p| d.contains_key(p), current_file, specifier)
    }
    fn read_file_content(&mut self, file_name: &str) -> Option<String> {
        self.read.borrow_mut().insert(file_name.to_string());
        self.disk.borrow().get(file_name).cloned()
    }
}

const SETTINGS: &str = r#"{"string_formats":[],"number_formats":[]}"#;

#[derive(Clone, Debug, PartialEq)]
struct Outcome {
    code: Option<String>,
    error: Option<String>,
    emitted: Vec<String>,
    diagnostics: String,
}

fn observe() -> Outcome {
    let _ = verif::take_emitted_diagnostics();
    let r = verif::bundle_to_string("entry.ts", SETTINGS);
    let emitted = verif::take_emitted_diagnostics();
    let diagnostics = verif::bundle_to_diagnostics("entry.ts", SETTINGS);
    // diagnostics as a multiset: order inside one build is not part of the property
    let norm = |s: &str| -> String {
        match serde_json::from_str::<Value>(s) {
            Ok(v) => {
                let mut items: Vec<String> = v["diagnostics"]
                    .as_array()
                    .map(|a| a.iter().map(|x| x.to_string()).collect())
                    .unwrap_or_default();
                items.sort();
                items.join("\n")
            }
            Err(_) => s.to_string(),
        }
    };
    Outcome {
        code: r.as_ref().ok().cloned(),
        error: r.err(),
        emitted: emitted.iter().map(|e| norm(e)).collect(),
        diagnostics: norm(&diagnostics),
    }
}

fn fresh_outcome(disk: &Disk) -> Outcome {
    let disk = disk.clone();
    std::thread::Builder::new()
        .stack_size(64 << 20)
        .spawn(move || {
            verif::set_host(Box::new(SharedHost {
                disk: Rc::new(RefCell::new(disk)),
                read: Rc::new(RefCell::new(BTreeSet::new())),
            }));
            observe()
        })
        .expect("spawn")
        .join()
        .expect("fresh session panicked")
}

/// variants of every file of a project: (class, text)
struct Project {
    files: Vec<(String, Vec<(&'static str, String)>)>,
}
impl Project {
    fn text(&self, file: &str, variant: usize) -> String {
        self.files.iter().find(|(n, _)| n == file).unwrap().1[variant].1.clone()
    }
}

fn make_project(rng: &mut Rng) -> Project {
    // entry imports from a and b; a may import from c; names are fixed so that variants stay compatible
    let entry_valid = vec![
        "import { A } from \"./a\";\nimport { B } from \"./b\";\nexport const P = parse.buildParsers<{ X: A; Y: B }>();\n",
        "import { A } from \"./a\";\nexport const P = parse.buildParsers<{ X: A; Z: { n: number } }>();\n",
        "import * as nsa from \"./a\";\nimport { B as Bee } from \"./b\";\nexport const P = parse.buildParsers<{ X: nsa.A; Y: Bee[] }>();\n",
        "import type { A } from \"./a\";\nexport * from \"./b\";\nexport const P = parse.buildParsers<{ X: A | null }>();\n",
        "import { A } from \"@app/a\";\nimport { B } from \"@app/b\";\nexport const P = parse.buildParsers<{ X: A; Y: B | null }>();\n",
        // through a barrel module that only passes names on with `export *`
        "import { A, B } from \"./all\";\nexport const P = parse.buildParsers<{ X: A; Y: B }>();\n",
        "import * as all from \"./all\";\nexport const P = parse.buildParsers<{ X: all.A; Y: all.B[] }>();\n",
        "import { B } from \"./all\";\nimport { A } from \"./a\";\nexport const P = parse.buildParsers<{ X: A; Y: B }>();\n",
    ];
    let all_valid = vec![
        "export * from \"./a\";\nexport * from \"./b\";\n",
        "export * from \"./b\";\nexport * from \"./a\";\n",
        "export * from \"./b\";\nexport type A = { a: \"declared in the barrel\" };\n",
    ];
    let a_valid = vec![
        "export type A = { a: string };\n",
        "export type A = { a: number; z?: boolean };\n",
        "import { C } from \"./c\";\nexport type A = { c: C; a: string };\n",
        "import { C } from \"./lib/c\";\nexport interface A { list: C[] }\n",
        // the same imports through a path alias (non-relative specifier)
        "import { C } from \"@app/c\";\nexport type A = { c: C; viaAlias: true };\n",
        "import type { C } from \"@app/lib/c\";\nexport type A = { list: C[]; viaAlias: 1 };\n",
        "export type A = \"x\" | \"y\";\nexport type Extra = 1;\n",
        // a name moves between the targets of the barrel
        "export type A = { a: string };\nexport type B = { moved: \"into a\" };\n",
        // the same declaration under two doc comments (descriptions are part of the emitted code)
        "/** first wording */\nexport type A = { /** field doc */ a: string };\n",
        "/** other wording */\nexport type A = { /** field doc, edited */ a: string };\n",
        // doc comments on lines of their own (a same-line comment is not attached): on members, on a
        // declaration that is not exported, on an interface member
        "/** documented */\nexport type A = {\n  /** Stable id. */\n  a: string;\n  /** How often. */\n  n?: number;\n};\n",
        "/** documented */\nexport type A = {\n  /** Stable id, reworded. */\n  a: string;\n  n?: number;\n};\n",
        "/** A helper nobody exports. */\ntype Inner = {\n  /** inner field */\n  i: number;\n};\nexport type A = { inner: Inner; a: string };\n",
        "/** Shape of a. */\ninterface Shape {\n  /** the a of it */\n  a: string;\n}\nexport type A = Shape;\n",
    ];
    let a_unresolvable = vec![
        "import { Q } from \"./missing\";\nexport type A = { q: Q };\n",
        "export type A = { q: Undeclared };\n",
        "import { NotThere } from \"./c\";\nexport type A = { q: NotThere };\n",
        "export type NotA = 1;\n",
        "type A = { a: string };\nexport type StillUsesIt = A;\n",
    ];
    let b_unresolvable = vec!["export type NotB = 1;\n", "type B = { b: boolean };\nexport type Other = B;\n"];
    let unparsable = vec!["export type A = {{{\n", "import { from \"./c\";\n", "export type = ;\n"];
    let b_valid = vec![
        "export type B = { b: boolean };\n",
        "export type B = [string, number];\n",
        "import { A } from \"./a\";\nexport type B = { back: A };\n",
        "export type B = {\n  /** a flag, documented on its own line */\n  b: boolean;\n};\n",
    ];
    let c_valid = vec![
        "export type C = { c: 1 };\n",
        "export type C = string[];\n",
        "export type C = { c: 2; d?: null };\nexport type NotThere = \"now it is\";\n",
        "/** not exported, documented */\ntype CInner = {\n  /** the one */\n  c: 1;\n};\nexport type C = CInner;\n",
    ];
    // texts that parse but declare nothing: an emptied file, white space, a comment, `export {}`, a BOM
    let blank = vec!["", "\n", "   \n\n", "// nothing here any more\n", "export {};\n", "\u{feff}"];
    let mut files = vec![];
    let mk = |valid: &Vec<&'static str>, unres: &Vec<&'static str>, unp: &Vec<&'static str>| {
        let mut v: Vec<(&'static str, String)> = vec![];
        for t in valid {
            v.push(("valid", t.to_string()));
        }
        for t in unres {
            v.push(("unresolvable", t.to_string()));
        }
        for t in unp {
            v.push(("unparsable", t.to_string()));
        }
        if !unp.is_empty() {
            for t in &blank {
                v.push(("blank", t.to_string()));
            }
        }
        v
    };
    let none: Vec<&'static str> = vec![];
    files.push(("entry.ts".to_string(), mk(&entry_valid, &none, &unparsable)));
    files.push(("a.ts".to_string(), mk(&a_valid, &a_unresolvable, &unparsable)));
    files.push(("b.ts".to_string(), mk(&b_valid, &b_unresolvable, &unparsable)));
    files.push(("all.ts".to_string(), mk(&all_valid, &none, &none)));
    let c_name = if rng.chance(1, 2) { "c.ts" } else { "lib/c.ts" };
    files.push((c_name.to_string(), mk(&c_valid, &none, &unparsable)));
    if rng.chance(1, 3) {
        files.push(("missing.ts".to_string(), mk(&vec!["export type Q = { q: 1 };\n"], &none, &none)));
    }
    // a second candidate for the specifier "./c": c/index.ts answers it until c.ts exists
    if c_name == "c.ts" && rng.chance(1, 2) {
        files.push(("c/index.ts".to_string(), mk(&vec!["export type C = { from: \"index\" };\n", "export type C = number;\nexport type NotThere = 0;\n"], &none, &none)));
    }
    Project { files }
}

fn gen_history(rng: &mut Rng, p: &Project) -> (Disk, Vec<Op>) {
    let mut disk = Disk::new();
    for (f, vs) in &p.files {
        // initial state: mostly valid; missing.ts and sometimes c start absent
        let shadowed = f == "c.ts" && p.files.iter().any(|(n, _)| n == "c/index.ts");
        let absent = f == "missing.ts" || (f.ends_with("c.ts") && rng.chance(1, if shadowed { 2 } else { 4 }));
        if !absent {
            let valid: Vec<usize> = (0..vs.len()).filter(|i| vs[*i].0 == "valid").collect();
            let i = if rng.chance(4, 5) { *rng.pick(&valid) } else { rng.below(vs.len()) };
            disk.insert(f.clone(), vs[i].1.clone());
        }
    }
    let mut ops = vec![Op::Rebuild];
    let n = 2 + rng.below(10);
    let mut broken: Option<(String, usize)> = None;
    for _ in 0..n {
        let (f, vs) = rng.pick(&p.files);
        let kind = rng.below(10);
        if let (Some((bf, good)), true) = (&broken, kind < 4) {
            // repair what was broken earlier (break -> rebuild -> repair -> rebuild)
            ops.push(Op::Write { file: bf.clone(), text: p.text(bf, *good), class: "valid" });
            broken = None;
        } else if kind < 7 {
            let v = rng.below(vs.len());
            if vs[v].0 != "valid" {
                let valid: Vec<usize> = (0..vs.len()).filter(|i| vs[*i].0 == "valid").collect();
                if !valid.is_empty() {
                    broken = Some((f.clone(), *rng.pick(&valid)));
                }
            }
            ops.push(Op::Write { file: f.clone(), text: vs[v].1.clone(), class: vs[v].0 });
        } else {
            let valid: Vec<usize> = (0..vs.len()).filter(|i| vs[*i].0 == "valid").collect();
            let v = *rng.pick(&valid);
            ops.push(Op::Write { file: f.clone(), text: vs[v].1.clone(), class: vs[v].0 });
        }
        if rng.chance(3, 4) {
            ops.push(Op::Rebuild);
        }
    }
    ops.push(Op::Rebuild);
    (disk, ops)
}

#[derive(Clone, Copy, PartialEq)]
enum Policy {
    /// commandeer.ts: a write is reported to the session iff the session has read that file before
    Watched,
    /// every write is reported
    Eager,
}

/// what the session was told / did for every operation of the history
#[derive(Clone, Debug)]
struct Step {
    notified: bool,
}

struct Divergence {
    at: usize,
    got: Outcome,
    want: Outcome,
    disk: Disk,
}

/// runs the history in a fresh session thread; every rebuild is compared with a fresh session on
/// the same disk; returns the number of rebuilds compared, the per-operation notes and every
/// rebuild whose result differs
fn run_history(disk0: &Disk, ops: &[Op], policy: Policy) -> (usize, Vec<Step>, Vec<Divergence>) {
    let disk0 = disk0.clone();
    let ops = ops.to_vec();
    std::thread::Builder::new()
        .stack_size(64 << 20)
        .spawn(move || {
            let disk = Rc::new(RefCell::new(disk0));
            let read = Rc::new(RefCell::new(BTreeSet::new()));
            verif::set_host(Box::new(SharedHost { disk: disk.clone(), read: read.clone() }));
            let mut rebuilds = 0;
            let mut steps = vec![];
            let mut bad = vec![];
            for (i, op) in ops.iter().enumerate() {
                let mut step = Step { notified: false };
                match op {
                    Op::Write { file, text, .. } => {
                        let text = text.clone();
                        disk.borrow_mut().insert(file.clone(), text.clone());
                        let watched = read.borrow().contains(file);
                        if policy == Policy::Eager || watched {
                            verif::update_file_content(file, &text);
                            step.notified = true;
                        }
                    }
                    Op::Delete { file } => {
                        // chokidar's "change" listener does not fire on unlink: the session is not told
                        disk.borrow_mut().remove(file);
                    }
                    Op::Rebuild => {
                        rebuilds += 1;
                        let got = observe();
                        let snapshot = disk.borrow().clone();
                        let want = fresh_outcome(&snapshot);
                        if got != want {
                            bad.push(Divergence { at: i, got, want, disk: snapshot });
                        }
                    }
                }
                steps.push(step);
            }
            (rebuilds, steps, bad)
        })
        .expect("spawn")
        .join()
        .expect("session thread panicked")
}

fn class_of(p: &Project, file: &str, text: Option<&String>) -> &'static str {
    match text {
        None => "absent",
        Some(t) => p.files.iter().find(|(n, _)| n == file).and_then(|(_, vs)| vs.iter().find(|(_, x)| x == t)).map(|(c, _)| *c).unwrap_or("?"),
    }
}

fn role(file: &str) -> &str {
    if file.ends_with("c.ts") { "c.ts" } else { file }
}

/// Attribution by re-execution: the session's result at the differing rebuild is compared with
/// fresh sessions over disks in which ONE file (then two) is put back to an earlier content of the
/// history. "as-if[f: old->new]" = the session answers as if the last change of f had not happened.
fn attribute(p: &Project, disk0: &Disk, ops: &[Op], steps: &[Step], d: &Divergence) -> String {
    // contents each file went through up to the rebuild, oldest first
    let mut hist: BTreeMap<String, Vec<Option<String>>> = BTreeMap::new();
    for (f, _) in &p.files {
        hist.insert(f.clone(), vec![disk0.get(f).cloned()]);
    }
    let mut last_write: BTreeMap<String, usize> = BTreeMap::new();
    for (i, op) in ops[..=d.at].iter().enumerate() {
        match op {
            Op::Write { file, text, .. } => {
                hist.get_mut(file).unwrap().push(Some(text.clone()));
                last_write.insert(file.clone(), i);
            }
            Op::Delete { file } => {
                hist.get_mut(file).unwrap().push(None);
                last_write.insert(file.clone(), i);
            }
            Op::Rebuild => {}
        }
    }
    let alt = |f: &String, c: &Option<String>| -> Disk {
        let mut dd = d.disk.clone();
        match c {
            Some(t) => {
                dd.insert(f.clone(), t.clone());
            }
            None => {
                dd.remove(f);
            }
        }
        dd
    };
    let describe_one = |f: &String, old: &Option<String>| -> String {
        let cur = d.disk.get(f);
        let lw = last_write.get(f).copied();
        let notified = lw.map(|i| steps[i].notified).unwrap_or(false);
        // is the session's current parse of a file that mentions f newer than f's last change?
        let stem = f.trim_end_matches(".ts");
        let needle = format!("\"./{}\"", stem);
        let importer_reparsed = last_write.iter().any(|(g, i)| {
            g != f
                && Some(*i) > lw
                && steps[*i].notified
                && match &ops[*i] {
                    Op::Write { class, text, .. } => *class != "unparsable" && text.contains(&needle),
                    _ => false,
                }
        });
        format!(
            "{}: {}->{} {}{}",
            role(f),
            class_of(p, f, old.as_ref()),
            class_of(p, f, cur),
            if notified { "notified" } else { "unnotified" },
            if importer_reparsed { " importer-reparsed" } else { "" }
        )
    };
    let mut cands: Vec<(String, Option<String>)> = vec![];
    for (f, cs) in &hist {
        let cur = d.disk.get(f).cloned();
        let mut seen: Vec<Option<String>> = vec![];
        for c in cs.iter().rev() {
            if *c != cur && !seen.contains(c) {
                seen.push(c.clone());
                cands.push((f.clone(), c.clone()));
            }
        }
    }
    for (f, c) in &cands {
        if fresh_outcome(&alt(f, c)) == d.got {
            return format!("as-if[{}]", describe_one(f, c));
        }
    }
    let mut tried = 0;
    for (i, (f, c)) in cands.iter().enumerate() {
        for (g, e) in cands.iter().skip(i + 1) {
            if f == g {
                continue;
            }
            tried += 1;
            if tried > 120 {
                break;
            }
            let mut dd = alt(f, c);
            match e {
                Some(t) => {
                    dd.insert(g.clone(), t.clone());
                }
                None => {
                    dd.remove(g);
                }
            }
            if fresh_outcome(&dd) == d.got {
                return format!("as-if[{}; {}]", describe_one(f, c), describe_one(g, e));
            }
        }
    }
    "unattributed".to_string()
}

fn describe(ops: &[Op]) -> String {
    ops.iter()
        .map(|o| match o {
            Op::Write { file, class, .. } => format!("write({}:{})", role(file), class),
            Op::Delete { file } => format!("delete({})", role(file)),
            Op::Rebuild => "rebuild".to_string(),
        })
        .collect::<Vec<_>>()
        .join(";")
}

fn classify(got: &Outcome, want: &Outcome) -> &'static str {
    match (&got.code, &want.code) {
        (Some(_), None) => "session-succeeds-fresh-fails",
        (None, Some(_)) => "session-fails-fresh-succeeds",
        (Some(a), Some(b)) if a != b => "code-differs",
        _ => "diagnostics-differ",
    }
}

fn ops_json(ops: &[Op]) -> Vec<Value> {
    ops.iter()
        .map(|o| match o {
            Op::Write { file, text, class } => json!({"op": "write", "file": file, "text": text, "class": class}),
            Op::Delete { file } => json!({"op": "delete", "file": file}),
            Op::Rebuild => json!({"op": "rebuild"}),
        })
        .collect()
}

fn main() {
    bvh::install_panic_hook();
    let args: Args = parse_args();
    let mut rep = Report::new(&args);
    if let Some(path) = &args.replay {
        let c: Value = serde_json::from_str(&std::fs::read_to_string(path).expect("read replay")).expect("json");
        let c = if c.get("replay").is_some() { c["replay"].clone() } else { c };
        let disk: Disk = c["initial"].as_object().unwrap().iter().map(|(k, v)| (k.clone(), v.as_str().unwrap().to_string())).collect();
        let ops: Vec<Op> = c["ops"]
            .as_array()
            .unwrap()
            .iter()
            .map(|o| match o["op"].as_str().unwrap() {
                "write" => Op::Write { file: o["file"].as_str().unwrap().to_string(), text: o["text"].as_str().unwrap().to_string(), class: "?" },
                "delete" => Op::Delete { file: o["file"].as_str().unwrap().to_string() },
                _ => Op::Rebuild,
            })
            .collect();
        let policy = if c["policy"] == "eager" { Policy::Eager } else { Policy::Watched };
        let (_, _, bad) = run_history(&disk, &ops, policy);
        println!("{}", json!({"violated": !bad.is_empty(), "differing_rebuilds": bad.iter().map(|d| d.at).collect::<Vec<_>>()}));
        if !bad.is_empty() {
            println!("VIOLATION property=C14 replay={}", path);
            std::process::exit(1);
        }
        return;
    }
    let n = rep.share(120000, 2000000);
    for i in 0..n {
        let label = format!("C14|{}|{}", args.shard, i);
        let mut rng = Rng::new(args.seed, &label);
        let p = make_project(&mut rng);
        let (disk, ops) = gen_history(&mut rng, &p);
        let policy = if rng.chance(3, 4) { Policy::Watched } else { Policy::Eager };
        let pol = if policy == Policy::Watched { "watched" } else { "eager" };
        let (rebuilds, steps, bad) = run_history(&disk, &ops, policy);
        rep.judged(rebuilds as u64);
        rep.count(if policy == Policy::Watched { "policy:watched" } else { "policy:eager" }, 1);
        rep.count("histories", 1);
        rep.count("ops", ops.len() as u64);
        rep.count("updates_notified", steps.iter().filter(|s| s.notified).count() as u64);
        for o in &ops {
            if let Op::Write { class, .. } = o {
                rep.count(&format!("write:{}", class), 1);
            }
        }
        let shape = describe(&ops);
        // distinct: the sequence of content classes per file (not the concrete texts)
        rep.distinct(format!("{:x}", fnv(&shape)));
        if i < 3 && args.shard == 0 {
            rep.sample(json!({"initial_files": disk.keys().collect::<Vec<_>>(), "history": shape, "policy": pol, "rebuilds_compared": rebuilds}));
        }
        // every differing rebuild is attributed; one shrunk witness per distinct attribution
        let mut seen: BTreeSet<String> = BTreeSet::new();
        for d in &bad {
            let sig0 = format!("{}|{}", classify(&d.got, &d.want), attribute(&p, &disk, &ops, &steps, d));
            if !seen.insert(sig0.clone()) {
                continue;
            }
            // delta debugging: drop operations while the rebuild still differs with the same attribution
            let mut cur: Vec<Op> = ops[..=d.at].to_vec();
            let same = |trial: &[Op]| -> Option<Divergence> {
                let (_, st, b) = run_history(&disk, trial, policy);
                let last = b.into_iter().find(|x| x.at == trial.len() - 1)?;
                let sig = format!("{}|{}", classify(&last.got, &last.want), attribute(&p, &disk, trial, &st, &last));
                if sig == sig0 { Some(last) } else { None }
            };
            let mut j = 0;
            while j < cur.len() && cur.len() > 1 {
                let mut trial = cur.clone();
                trial.remove(j);
                if matches!(trial.last(), Some(Op::Rebuild)) && same(&trial).is_some() {
                    cur = trial;
                } else {
                    j += 1;
                }
            }
            let fin = same(&cur);
            let (got, want, snapshot) = match &fin {
                Some(x) => (&x.got, &x.want, &x.disk),
                None => (&d.got, &d.want, &d.disk),
            };
            let hist = describe(&cur);
            let initial: Vec<String> = disk.iter().map(|(f, t)| format!("{}:{}", f, class_of(&p, f, Some(t)))).collect();
            rep.violation(
                &sig0,
                "rebuild-differs-from-fresh-session",
                format!(
                    "history (shrunk, policy {}): {}\ninitial disk: {:?}\nsession: code={} error={:?} diagnostics={}\nfresh:   code={} error={:?} diagnostics={}\ndisk at the differing rebuild: {:?}",
                    pol, hist, initial, got.code.is_some(), got.error, got.diagnostics, want.code.is_some(), want.error, want.diagnostics, snapshot
                ),
                json!({"kind": "history", "policy": pol, "initial": disk, "ops": ops_json(&cur)}),
            );
        }
    }
    rep.finish(&args.out, None);
}

fn fnv(s: &str) -> u64 {
    let mut h: u64 = 0xcbf29ce484222325;
    for b in s.bytes() {
        h ^= b as u64;
        h = h.wrapping_mul(0x100000001b3);
    }
    h
}

use beff_core::subtyping::semtype::{SemTypeContext, SemTypeOps};
use beff_core::subtyping::subtype::ProperSubtype;
use beff_core::subtyping::dnf::bdd_to_dnf;
use beff_core::subtyping::ToSemType;
use beff_core::NamedSchema;
use bvh::tgen;
fn main() {
    let c: serde_json::Value = serde_json::from_str(&std::fs::read_to_string(std::env::args().nth(1).unwrap()).unwrap()).unwrap();
    let s = tgen::from_json(&c["s"]);
    let t = tgen::from_json(&c["t"]);
    let defs = tgen::defs_from_json(&c["defs"]);
    let refs: Vec<&NamedSchema> = defs.iter().collect();
    let mut ctx = SemTypeContext::new();
    let (a, b) = if c["t_first"].as_bool().unwrap_or(false) {
        let b = t.to_sem_type(&refs, &mut ctx).unwrap();
        (s.to_sem_type(&refs, &mut ctx).unwrap(), b)
    } else {
        let a = s.to_sem_type(&refs, &mut ctx).unwrap();
        (a, t.to_sem_type(&refs, &mut ctx).unwrap())
    };
    println!("A = {:?}\nB = {:?}", a, b);
    let d = a.diff(&b).unwrap();
    println!("A\\B = {:?}", d);
    for st in &d.subtype_data {
        if let ProperSubtype::Mapping(bdd) = st.as_ref() {
            println!("dnf = {:?}", bdd_to_dnf(bdd));
        }
    }
    for (i, m) in ctx.mapping_definitions.iter().enumerate() {
        println!("mapping atom {} = {:?}", i, m);
    }
    println!("empty = {:?}", d.is_empty(&mut ctx));
}

//! Compile server: the real `beff_core::extract` + `emit_code` over a virtual project.
//! `beffc --serve` reads JSON-lines requests on stdin and answers on stdout;
//! `beffc --once <file|->` handles a single request and exits.
use beff_core::diag::Location;
use beff_core::wasm_diag::WasmDiagnostic;
use beff_core::{BeffUserSettings, BffFileName, EntryPoints, FileManager};
use bvh::*;
use serde::Deserialize;
use serde_json::{Value, json};
use std::collections::BTreeMap;
use std::io::{BufRead, Write};
use std::sync::mpsc;
use std::time::Duration;
use swc_common::{GLOBALS, Globals};

#[derive(Deserialize, Clone)]
struct Settings {
    #[serde(default)]
    string_formats: Vec<String>,
    #[serde(default)]
    number_formats: Vec<String>,
}

#[derive(Deserialize, Clone)]
struct Req {
    id: Value,
    files: BTreeMap<String, String>,
    #[serde(default = "default_entry")]
    entry: String,
    #[serde(default)]
    settings: Option<Settings>,
    /// files registered eagerly, in this order, before extraction (None = lazy only)
    #[serde(default)]
    order: Option<Vec<String>>,
    #[serde(default)]
    cpu_budget_ms: Option<u64>,
    #[serde(default)]
    debug_types: bool,
    /// file sets compiled on the same worker thread before the request itself (results discarded):
    /// earlier compilations of one session / process must not influence the result
    #[serde(default)]
    warmup: Option<Vec<BTreeMap<String, String>>>,
    /// "wasm": compile through beff_wasm's own session, file manager and module resolver (native host
    /// of the beff_verif feature) instead of the harness's file manager over beff_core::extract
    #[serde(default)]
    via: Option<String>,
}
fn default_entry() -> String {
    "entry.ts".to_string()
}

fn variant_name(dbg: &str) -> String {
    dbg.split(|c: char| !(c.is_alphanumeric() || c == '_'))
        .next()
        .unwrap_or("")
        .to_string()
}

struct WasmHost {
    files: BTreeMap<String, String>,
}
impl beff_wasm::verif::Host for WasmHost {
    fn resolve_import(&mut self, current_file: &str, specifier: &str) -> Option<String> {
        resolve_in(&|p| self.files.contains_key(p), current_file, specifier)
    }
    fn read_file_content(&mut self, file_name: &str) -> Option<String> {
        self.files.get(file_name).cloned()
    }
}

fn run_wasm(req: &Req, settings: &Settings) -> Value {
    use beff_wasm::verif;
    verif::set_host(Box::new(WasmHost { files: req.files.clone() }));
    // files "registered before the build" = files the host tells the session about
    if let Some(order) = &req.order {
        for f in order {
            if let Some(c) = req.files.get(f) {
                verif::update_file_content(f, c);
            }
        }
    }
    let settings_json = json!({"string_formats": settings.string_formats, "number_formats": settings.number_formats}).to_string();
    let _ = verif::take_emitted_diagnostics();
    match verif::bundle_to_string(&req.entry, &settings_json) {
        Ok(code) => json!({"outcome": "code", "code": code, "via": "wasm"}),
        Err(_) => {
            let _ = verif::take_emitted_diagnostics();
            let d: Value = serde_json::from_str(&verif::bundle_to_diagnostics(&req.entry, &settings_json)).unwrap_or(Value::Null);
            let mut diags = vec![];
            for item in d["diagnostics"].as_array().cloned().unwrap_or_default() {
                if let Some(k) = item.get("KnownFile") {
                    diags.push(json!({"kind": "known", "variant": "wasm", "message": k["message"], "file": k["file_name"],
                        "line_lo": k["line_lo"], "col_lo": k["col_lo"], "line_hi": k["line_hi"], "col_hi": k["col_hi"]}));
                } else if let Some(u) = item.get("UnknownFile") {
                    diags.push(json!({"kind": "unknown", "variant": "wasm", "message": u["message"], "file": u["current_file"]}));
                }
            }
            json!({"outcome": "diagnostics", "diagnostics": diags, "via": "wasm"})
        }
    }
}

fn run(req: &Req) -> Value {
    let settings = req.settings.clone().unwrap_or(Settings {
        string_formats: vec![],
        number_formats: vec![],
    });
    if req.via.as_deref() == Some("wasm") {
        return run_wasm(req, &settings);
    }
    GLOBALS.set(&Globals::new(), || {
        let mut man = VFileManager::new(&req.files);
        if let Some(order) = &req.order {
            for f in order {
                let _ = man.get_or_fetch_file(&BffFileName::new(f.clone()));
            }
        }
        let entry = EntryPoints {
            parser_entry_point: BffFileName::new(req.entry.clone()),
            settings: BeffUserSettings {
                string_formats: settings.string_formats.iter().cloned().collect(),
                number_formats: settings.number_formats.iter().cloned().collect(),
            },
        };
        let res = beff_core::extract(&mut man, entry);
        let fetched = man.fetched.clone();
        let parse_failed = man.parse_failed.clone();
        let mut diags = vec![];
        for e in &res.errors {
            let variant = variant_name(&format!("{:?}", e.message));
            match &e.loc {
                Location::Full(f) => diags.push(json!({
                    "kind": "known", "variant": variant,
                    "message": e.message.clone().to_string(),
                    "file": f.file_name.to_string(),
                    "line_lo": f.loc_lo.line, "col_lo": f.loc_lo.col.0,
                    "line_hi": f.loc_hi.line, "col_hi": f.loc_hi.col.0,
                    "offset_lo": f.offset_lo, "offset_hi": f.offset_hi,
                })),
                Location::Unknown(u) => diags.push(json!({
                    "kind": "unknown", "variant": variant,
                    "message": e.message.clone().to_string(),
                    "file": u.current_file.to_string(),
                })),
            }
        }
        // the JSON the wasm wrapper would hand to JavaScript (exercises the same serialisation)
        let wasm_json = serde_json::to_string(&WasmDiagnostic::from_diagnostics(&res.errors))
            .unwrap_or_default();
        let parser_names: Vec<String> = res
            .built_decoders
            .as_ref()
            .map(|d| d.iter().map(|x| x.exported_name.clone()).collect())
            .unwrap_or_default();
        let has_build_parsers = res.built_decoders.is_some();
        let dbg_types = if req.debug_types && res.errors.is_empty() {
            Some(res.debug_print())
        } else {
            None
        };
        if !res.errors.is_empty() {
            return json!({"outcome": "diagnostics", "diagnostics": diags, "wasm_json": wasm_json,
                "parser_names": parser_names, "fetched": fetched, "parse_failed": parse_failed});
        }
        match res.emit_code() {
            Ok(code) => json!({"outcome": "code", "code": code, "parser_names": parser_names,
                "has_build_parsers": has_build_parsers, "fetched": fetched, "parse_failed": parse_failed, "types": dbg_types}),
            Err(e) => json!({"outcome": "emit_error", "message": e.to_string(),
                "parser_names": parser_names, "fetched": fetched, "parse_failed": parse_failed}),
        }
    })
}

fn handle(req: Req) -> (Value, bool) {
    let id = req.id.clone();
    let budget = req.cpu_budget_ms.unwrap_or(20_000);
    let (tx, rx) = mpsc::channel::<(Value, u64)>();
    let (tid_tx, tid_rx) = mpsc::channel::<i64>();
    let handle = std::thread::Builder::new()
        .stack_size(64 << 20)
        .spawn(move || {
            let _ = tid_tx.send(current_tid());
            if let Some(ws) = &req.warmup {
                for w in ws {
                    let mut pre = req.clone();
                    pre.files = w.clone();
                    pre.warmup = None;
                    pre.order = None;
                    let _ = std::panic::catch_unwind(std::panic::AssertUnwindSafe(|| run(&pre)));
                    let _ = take_panic();
                }
            }
            let r = std::panic::catch_unwind(std::panic::AssertUnwindSafe(|| run(&req)));
            let cpu = thread_cpu_ms();
            let v = match r {
                Ok(v) => v,
                Err(_) => {
                    let p = take_panic().unwrap_or_default();
                    json!({"outcome": "panic", "panic": {"file": short_path(&p.file), "line": p.line, "msg": p.msg}})
                }
            };
            let _ = tx.send((v, cpu));
        })
        .expect("spawn");
    let tid = tid_rx.recv().unwrap_or(0);
    loop {
        match rx.recv_timeout(Duration::from_millis(200)) {
            Ok((mut v, cpu)) => {
                let _ = handle.join();
                v["id"] = id;
                v["cpu_ms"] = json!(cpu);
                return (v, false);
            }
            Err(mpsc::RecvTimeoutError::Timeout) => {
                let cpu = tid_cpu_ms(tid).unwrap_or(0);
                if cpu > budget {
                    return (
                        json!({"id": id, "outcome": "hang", "cpu_ms": cpu, "budget_ms": budget}),
                        true,
                    );
                }
            }
            Err(mpsc::RecvTimeoutError::Disconnected) => {
                return (json!({"id": id, "outcome": "worker_lost"}), true);
            }
        }
    }
}

fn main() {
    install_panic_hook();
    let args: Vec<String> = std::env::args().collect();
    let out = std::io::stdout();
    if args.get(1).map(|s| s.as_str()) == Some("--once") {
        let text = match args.get(2).map(|s| s.as_str()) {
            Some("-") | None => {
                let mut s = String::new();
                std::io::Read::read_to_string(&mut std::io::stdin(), &mut s).unwrap();
                s
            }
            Some(p) => std::fs::read_to_string(p).expect("read request"),
        };
        let req: Req = serde_json::from_str(&text).expect("request json");
        let (v, fatal) = handle(req);
        let mut o = out.lock();
        writeln!(o, "{}", v).unwrap();
        o.flush().unwrap();
        std::process::exit(if fatal { 3 } else { 0 });
    }
    let stdin = std::io::stdin();
    for line in stdin.lock().lines() {
        let line = match line {
            Ok(l) => l,
            Err(_) => break,
        };
        if line.trim().is_empty() {
            continue;
        }
        let req: Req = match serde_json::from_str(&line) {
            Ok(r) => r,
            Err(e) => {
                let mut o = out.lock();
                writeln!(o, "{}", json!({"id": null, "outcome": "bad_request", "message": e.to_string()})).unwrap();
                o.flush().unwrap();
                continue;
            }
        };
        let (v, fatal) = handle(req);
        {
            let mut o = out.lock();
            writeln!(o, "{}", v).unwrap();
            o.flush().unwrap();
        }
        if fatal {
            // the runaway thread cannot be cancelled: leave, the driver restarts the server
            std::process::exit(3);
        }
    }
}

//! Monitors of the semantic subtyping engine through beff-core's public API.
//!   C05  assignability decisions vs. inclusion of value sets (witness search over exact values)
//!   C06  union / intersection / difference / complement are exact set operations
//!        (layer 1: decision diagrams under all truth assignments; layer 2: SemTypes over values;
//!         layer 3: DNF round trips)
//!   C07  materialisation of semantic types (semtype_to_runtypes / remove_nots...) keeps the meaning
use beff_core::ast::runtype::{Runtype, RuntypeConst, RuntypeKind};
use beff_core::subtyping::bdd::{Atom, Bdd, BddOps};
use beff_core::subtyping::dnf::{bdd_to_dnf, dnf_to_bdd};
use beff_core::subtyping::semtype::{SemType, SemTypeContext, SemTypeOps};
use beff_core::subtyping::to_schema::semtype_to_runtypes;
use beff_core::subtyping::ToSemType;
use beff_core::{NamedSchema, RuntypeName, RuntypeUUID};
use bvh::refmodel::{self as rm, Defs, Enumerator, Lits, Value};
use bvh::report::{Args, Report, parse_args};
use bvh::rng::Rng;
use bvh::tgen::{self, RandGen};
use serde_json::{Value as J, json};
use std::collections::{BTreeMap, BTreeSet, HashMap};
use std::panic::{AssertUnwindSafe, catch_unwind};
use std::rc::Rc;
use std::sync::atomic::{AtomicU64, Ordering};
use std::sync::{Arc, Mutex};

// ------------------------------------------------------------------------------------------------
// watchdog: a case that burns more than LIMIT_MS of CPU on the monitor thread is reported as
// "no decision" and the shard stops (the engine cannot be interrupted from outside)
static CASE_STARTED_CPU: AtomicU64 = AtomicU64::new(u64::MAX);
/// set while the engine (not the reference) is running: only then is a long case the engine's
static ENGINE_PHASE: std::sync::atomic::AtomicBool = std::sync::atomic::AtomicBool::new(false);
/// set while the monitor itself asks the engine something the compiler did not ask (round-trip and
/// attribution questions): a long case is then undecided for the monitor, not a verdict on the engine
static MONITOR_QUESTION: std::sync::atomic::AtomicBool = std::sync::atomic::AtomicBool::new(false);
const LIMIT_MS: u64 = 20_000;

/// the shard's report as JSON, refreshed by the monitor thread every few thousand cases
static SNAPSHOT: Mutex<Option<String>> = Mutex::new(None);
/// index (in the random stream) the snapshot was taken before, and the index being run now
static SNAP_INDEX: AtomicU64 = AtomicU64::new(u64::MAX);
static CUR_INDEX: AtomicU64 = AtomicU64::new(u64::MAX);

fn arg_after(name: &str) -> Option<String> {
    let a: Vec<String> = std::env::args().collect();
    a.iter().position(|x| x == name).and_then(|i| a.get(i + 1).cloned())
}

struct Watch {
    current: Arc<Mutex<Option<(String, J)>>>,
}
impl Watch {
    fn start(prop: String, args_out: Option<String>, seed: u64, tier: String, shard: u64, of: u64) -> Watch {
        let current: Arc<Mutex<Option<(String, J)>>> = Arc::new(Mutex::new(None));
        let cur = current.clone();
        let tid = bvh::current_tid();
        std::thread::spawn(move || {
            loop {
                std::thread::sleep(std::time::Duration::from_millis(500));
                let started = CASE_STARTED_CPU.load(Ordering::SeqCst);
                if started == u64::MAX {
                    continue;
                }
                let now = bvh::tid_cpu_ms(tid).unwrap_or(0);
                if now.saturating_sub(started) > LIMIT_MS {
                    let (what, replay) = cur.lock().unwrap().clone().unwrap_or(("?".into(), json!({})));
                    let mut replay = replay;
                    replay["property"] = json!(prop);
                    if MONITOR_QUESTION.load(Ordering::SeqCst) {
                        // the engine cannot be interrupted: the process replaces itself by a new one that
                        // carries on from the last snapshot of the report and leaves the undecided case out
                        let snap = SNAPSHOT.lock().unwrap().clone();
                        let snap_i = SNAP_INDEX.load(Ordering::SeqCst);
                        let cur_i = CUR_INDEX.load(Ordering::SeqCst);
                        eprintln!("monitor question undecided (stream index {}): {}", cur_i, what);
                        if let (Some(snap), Some(out), true) = (snap.clone(), args_out.clone(), snap_i != u64::MAX && cur_i != u64::MAX) {
                            let carry = format!("{}.carry", out);
                            let _ = std::fs::write(&carry, snap);
                            let mut skips: Vec<String> = arg_after("--skip").map(|s| s.split(',').map(String::from).collect()).unwrap_or_default();
                            skips.push(cur_i.to_string());
                            if skips.len() <= 40 {
                                use std::os::unix::process::CommandExt;
                                let err = std::process::Command::new(std::env::current_exe().unwrap())
                                    .args([prop.as_str(), "--seed", &seed.to_string(), "--tier", &tier, "--shard", &shard.to_string(), "--of", &of.to_string(), "--out", &out])
                                    .args(["--resume-from", &snap_i.to_string(), "--skip", &skips.join(","), "--carry", &carry])
                                    .exec();
                                eprintln!("could not restart the shard: {}", err);
                            }
                        }
                        let mut v: J = snap.and_then(|s| serde_json::from_str(&s).ok()).unwrap_or_else(|| json!({
                            "prop": prop, "seed": seed, "tier": tier, "shard": shard, "of": of,
                            "evaluations": 0, "distinct": [], "samples": [], "counters": {}, "inconclusive": {}, "aux": {}, "violations": [], "wall_s": 0.0, "error": J::Null,
                        }));
                        let k = format!("monitor-question-undecided-within-{}s-cpu:shard-stopped-early", LIMIT_MS / 1000);
                        let n = v["inconclusive"][&k].as_u64().unwrap_or(0) + 1;
                        v["inconclusive"][&k] = json!(n);
                        v["partial"] = json!(true);
                        if let Some(p) = &args_out {
                            let _ = std::fs::write(p, v.to_string());
                        } else {
                            println!("{}", v);
                        }
                        std::process::exit(0);
                    }
                    let in_engine = ENGINE_PHASE.load(Ordering::SeqCst);
                    let sig = if in_engine { format!("no-decision-within-{}s-cpu", LIMIT_MS / 1000) } else { "reference-too-slow".to_string() };
                    replay["signature"] = json!(sig);
                    let v = json!({
                        "prop": prop, "seed": seed, "tier": tier, "shard": shard, "of": of,
                        "evaluations": 0, "distinct": [], "samples": [], "counters": {}, "inconclusive": {}, "aux": {},
                        "violations": if in_engine { json!([{"signature": sig, "clause": "terminates", "detail": what, "replay": replay, "count": 1}]) } else { json!([]) },
                        "wall_s": 0.0, "error": if in_engine { J::Null } else { json!(format!("the reference model needed more than {} s on one case (harness problem, not a verdict): {}", LIMIT_MS / 1000, what)) }, "partial": true,
                    });
                    if let Some(p) = &args_out {
                        let _ = std::fs::write(p, v.to_string());
                    } else {
                        println!("{}", v);
                    }
                    std::process::exit(0);
                }
            }
        });
        Watch { current }
    }
    fn begin(&self, what: String, replay: J) {
        *self.current.lock().unwrap() = Some((what, replay));
        CASE_STARTED_CPU.store(bvh::thread_cpu_ms(), Ordering::SeqCst);
    }
    fn end(&self) {
        CASE_STARTED_CPU.store(u64::MAX, Ordering::SeqCst);
        MONITOR_QUESTION.store(false, Ordering::SeqCst);
    }
    /// like begin, for questions the monitor makes up (see MONITOR_QUESTION)
    fn begin_monitor_question(&self, what: String, replay: J) {
        *self.current.lock().unwrap() = Some((what, replay));
        MONITOR_QUESTION.store(true, Ordering::SeqCst);
        CASE_STARTED_CPU.store(bvh::thread_cpu_ms(), Ordering::SeqCst);
    }
}

fn defs_map(defs: &[NamedSchema]) -> Defs {
    defs.iter().map(|d| (d.name.clone(), d.schema.clone())).collect()
}

#[derive(Debug, Clone, PartialEq)]
enum Eng<T> {
    Ok(T),
    Refused(String),
    Panic(String),
}

fn guard<T>(f: impl FnOnce() -> anyhow::Result<T>) -> Eng<T> {
    match catch_unwind(AssertUnwindSafe(f)) {
        Ok(Ok(v)) => Eng::Ok(v),
        Ok(Err(e)) => Eng::Refused(e.to_string().chars().take(80).collect()),
        Err(_) => {
            let p = bvh::take_panic().unwrap_or_default();
            Eng::Panic(format!("panic@{}:{}:{}", bvh::short_path(&p.file), p.line, p.msg.chars().take(40).collect::<String>()))
        }
    }
}

fn engine_subtype(s: &Runtype, t: &Runtype, defs: &[NamedSchema], ctx: &mut SemTypeContext, t_first: bool) -> Eng<bool> {
    let refs: Vec<&NamedSchema> = defs.iter().collect();
    guard(|| {
        let (a, b) = if t_first {
            let b = t.to_sem_type(&refs, ctx)?;
            (s.to_sem_type(&refs, ctx)?, b)
        } else {
            let a = s.to_sem_type(&refs, ctx)?;
            (a, t.to_sem_type(&refs, ctx)?)
        };
        a.is_subtype(&b, ctx)
    })
}

// ================================================================================================
// C05

#[derive(Debug, Clone, PartialEq)]
enum Verdict {
    Held,
    Violated(&'static str, String),
    Inconclusive(String),
}

struct Case {
    s: Runtype,
    t: Runtype,
    defs: Vec<NamedSchema>,
    /// convert T to a semantic type before S (atom numbering follows conversion order)
    t_first: bool,
}

fn case_json(c: &Case) -> J {
    json!({"kind": "pair", "s": tgen::to_json(&c.s), "t": tgen::to_json(&c.t), "defs": tgen::defs_to_json(&c.defs), "t_first": c.t_first})
}

fn case_show(c: &Case) -> String {
    let mut out = format!("S = {}\nT = {}", tgen::show(&c.s), tgen::show(&c.t));
    for d in &c.defs {
        out.push_str(&format!("\ntype {} = {}", tgen::show(&Runtype::ref_(d.name.clone())), tgen::show(&d.schema)));
    }
    out
}

/// model side: a witness (exact value of S that is not an open value of T), completeness of the search
fn model_witness(c: &Case, cap: usize) -> rm::R<(Option<Value>, bool, usize)> {
    let dm = defs_map(&c.defs);
    let mut lits = Lits::default();
    let mut seen = BTreeSet::new();
    lits.collect(&c.s, &dm, &mut seen);
    let mut tl = Lits::default();
    let mut seen_t = BTreeSet::new();
    tl.collect(&c.t, &dm, &mut seen_t);
    lits.nums.extend(tl.nums.iter().cloned());
    lits.strs.extend(tl.strs.iter().cloned());
    lits.keys.extend(tl.keys.iter().cloned());
    lits.max_prefix = lits.max_prefix.max(tl.max_prefix);
    // one distinct bad element / extra key may be needed per atom of the right-hand side
    let fresh = tl.objects.max(tl.lists).clamp(1, 3);
    let depth = 4;
    let mut en = Enumerator::new(&dm, &lits, fresh, cap);
    let vals = en.values(vec![&c.s], depth)?;
    let n = vals.len();
    for v in vals {
        // self-check of the reference: enumerated values are exact members
        if !rm::rt_exact(&c.s, &dm, &v)? {
            return Err(rm::Unsupported(format!("reference-self-check: enumerated value {} is not an exact member", v.show())));
        }
        if !rm::rt_open(&c.t, &dm, &v)? {
            return Ok((Some(v), !en.truncated, n));
        }
    }
    Ok((None, !en.truncated, n))
}

fn judge_pair(c: &Case, cap: usize) -> (Verdict, Option<bool>, usize) {
    let mut ctx = SemTypeContext::new();
    ENGINE_PHASE.store(true, Ordering::SeqCst);
    let eng = engine_subtype(&c.s, &c.t, &c.defs, &mut ctx, c.t_first);
    ENGINE_PHASE.store(false, Ordering::SeqCst);
    let eng = match eng {
        Eng::Ok(b) => b,
        Eng::Refused(m) => return (Verdict::Inconclusive(format!("engine-refused:{}", m.split(':').next().unwrap_or(""))), None, 0),
        Eng::Panic(m) => return (Verdict::Violated("panic", m), None, 0),
    };
    match model_witness(c, cap) {
        Err(u) => (Verdict::Inconclusive(format!("reference:{}", u.0.chars().take(60).collect::<String>())), Some(eng), 0),
        Ok((Some(w), _, n)) => {
            if eng {
                (Verdict::Violated("says-assignable-but-exact-value-is-outside", w.show()), Some(eng), n)
            } else {
                (Verdict::Held, Some(eng), n)
            }
        }
        Ok((None, complete, n)) => {
            if eng {
                (Verdict::Held, Some(eng), n)
            } else if complete {
                (Verdict::Violated("says-not-assignable-but-no-exact-value-is-outside", format!("{} exact values enumerated (complete), all inside", n)), Some(eng), n)
            } else {
                (Verdict::Inconclusive("universe-not-exhausted".into()), Some(eng), n)
            }
        }
    }
}

/// children of a type for shrinking
fn shrinks(t: &Runtype) -> Vec<Runtype> {
    let mut out = vec![];
    match &t.kind {
        RuntypeKind::Array(e) => {
            out.push((**e).clone());
            for s in shrinks(e) {
                out.push(Runtype::array(Box::new(s)));
            }
        }
        RuntypeKind::Tuple { prefix_items, items } => {
            for p in prefix_items {
                out.push(p.clone());
            }
            if let Some(i) = items {
                out.push((**i).clone());
                out.push(Runtype::tuple(prefix_items.clone(), None));
            }
            for i in 0..prefix_items.len() {
                let mut p = prefix_items.clone();
                p.remove(i);
                out.push(Runtype::tuple(p, items.clone()));
                for s in shrinks(&prefix_items[i]) {
                    let mut p = prefix_items.clone();
                    p[i] = s;
                    out.push(Runtype::tuple(p, items.clone()));
                }
            }
            if let Some(it) = items {
                for s in shrinks(it) {
                    out.push(Runtype::tuple(prefix_items.clone(), Some(Box::new(s))));
                }
            }
        }
        RuntypeKind::Object { vs, indexed_properties } => {
            for v in vs.values() {
                out.push(v.inner().clone());
            }
            for k in vs.keys() {
                let mut m = vs.clone();
                m.remove(k);
                out.push(Runtype::new(RuntypeKind::Object { vs: m, indexed_properties: indexed_properties.clone() }));
            }
            if indexed_properties.is_some() {
                out.push(Runtype::new(RuntypeKind::Object { vs: vs.clone(), indexed_properties: None }));
            }
            for (k, v) in vs {
                for s in shrinks(v.inner()) {
                    let mut m = vs.clone();
                    m.insert(k.clone(), if v.is_required() { s.required() } else { s.optional() });
                    out.push(Runtype::new(RuntypeKind::Object { vs: m, indexed_properties: indexed_properties.clone() }));
                }
                if !v.is_required() {
                    let mut m = vs.clone();
                    m.insert(k.clone(), v.clone().to_required());
                    out.push(Runtype::new(RuntypeKind::Object { vs: m, indexed_properties: indexed_properties.clone() }));
                }
            }
            if let Some(ip) = indexed_properties {
                for s in shrinks(ip.value.inner()) {
                    let mut ip2 = ip.clone();
                    ip2.value = if ip.value.is_required() { s.required() } else { s.optional() };
                    out.push(Runtype::new(RuntypeKind::Object { vs: vs.clone(), indexed_properties: Some(ip2) }));
                }
            }
        }
        RuntypeKind::AnyOf(ms) | RuntypeKind::AllOf(ms) => {
            let is_any = matches!(t.kind, RuntypeKind::AnyOf(_));
            let v: Vec<Runtype> = ms.iter().cloned().collect();
            for m in &v {
                out.push(m.clone());
            }
            if v.len() > 2 {
                for i in 0..v.len() {
                    let mut w = v.clone();
                    w.remove(i);
                    out.push(if is_any { tgen::raw_any_of(w) } else { tgen::raw_all_of(w) });
                }
            }
            for i in 0..v.len() {
                for s in shrinks(&v[i]) {
                    let mut w = v.clone();
                    w[i] = s;
                    out.push(if is_any { tgen::raw_any_of(w) } else { tgen::raw_all_of(w) });
                }
            }
        }
        _ => {}
    }
    out
}

fn refs_in(t: &Runtype, out: &mut BTreeSet<RuntypeUUID>) {
    match &t.kind {
        RuntypeKind::Ref(n) => {
            out.insert(n.clone());
        }
        RuntypeKind::Array(e) | RuntypeKind::StNot(e) => refs_in(e, out),
        RuntypeKind::Tuple { prefix_items, items } => {
            for p in prefix_items {
                refs_in(p, out);
            }
            if let Some(i) = items {
                refs_in(i, out);
            }
        }
        RuntypeKind::Object { vs, indexed_properties } => {
            for v in vs.values() {
                refs_in(v.inner(), out);
            }
            if let Some(ip) = indexed_properties {
                refs_in(&ip.key, out);
                refs_in(ip.value.inner(), out);
            }
        }
        RuntypeKind::AnyOf(ms) | RuntypeKind::AllOf(ms) => {
            for m in ms {
                refs_in(m, out);
            }
        }
        _ => {}
    }
}

/// greedy shrinking of a violating pair: smaller S / T / definitions with the same violation class
fn shrink_case(c: &Case, class: &'static str, cap: usize, still: &dyn Fn(&Case) -> Option<&'static str>) -> Case {
    let _ = cap;
    let mut cur = Case { s: c.s.clone(), t: c.t.clone(), defs: c.defs.clone(), t_first: c.t_first };
    let mut budget = 400;
    loop {
        let mut progressed = false;
        let mut cands: Vec<Case> = vec![];
        for s in shrinks(&cur.s) {
            cands.push(Case { s, t: cur.t.clone(), defs: cur.defs.clone(), t_first: cur.t_first });
        }
        for t in shrinks(&cur.t) {
            cands.push(Case { s: cur.s.clone(), t, defs: cur.defs.clone(), t_first: cur.t_first });
        }
        // descend on both sides at once
        match (&cur.s.kind, &cur.t.kind) {
            (RuntypeKind::Object { vs: a, .. }, RuntypeKind::Object { vs: b, .. }) => {
                for (k, va) in a {
                    if let Some(vb) = b.get(k) {
                        cands.push(Case { s: va.inner().clone(), t: vb.inner().clone(), defs: cur.defs.clone(), t_first: cur.t_first });
                    }
                }
            }
            (RuntypeKind::Array(a), RuntypeKind::Array(b)) => cands.push(Case { s: (**a).clone(), t: (**b).clone(), defs: cur.defs.clone(), t_first: cur.t_first }),
            (RuntypeKind::Tuple { prefix_items: a, .. }, RuntypeKind::Tuple { prefix_items: b, .. }) => {
                for (x, y) in a.iter().zip(b.iter()) {
                    cands.push(Case { s: x.clone(), t: y.clone(), defs: cur.defs.clone(), t_first: cur.t_first });
                }
            }
            (RuntypeKind::Ref(n), _) => {
                if let Some(d) = cur.defs.iter().find(|d| &d.name == n) {
                    cands.push(Case { s: d.schema.clone(), t: cur.t.clone(), defs: cur.defs.clone(), t_first: cur.t_first });
                }
            }
            (_, RuntypeKind::Ref(n)) => {
                if let Some(d) = cur.defs.iter().find(|d| &d.name == n) {
                    cands.push(Case { s: cur.s.clone(), t: d.schema.clone(), defs: cur.defs.clone(), t_first: cur.t_first });
                }
            }
            _ => {}
        }
        // inline a reference at the top / shrink a definition body
        for (i, d) in cur.defs.iter().enumerate() {
            for b in shrinks(&d.schema) {
                let mut defs = cur.defs.clone();
                defs[i] = NamedSchema { name: d.name.clone(), schema: b };
                cands.push(Case { s: cur.s.clone(), t: cur.t.clone(), defs, t_first: cur.t_first });
            }
        }
        for cand in cands {
            if budget == 0 {
                break;
            }
            budget -= 1;
            let used_defs = |c: &Case| -> usize {
                let mut used = BTreeSet::new();
                refs_in(&c.s, &mut used);
                refs_in(&c.t, &mut used);
                loop {
                    let before = used.len();
                    for d in &c.defs {
                        if used.contains(&d.name) {
                            refs_in(&d.schema, &mut used);
                        }
                    }
                    if used.len() == before {
                        break;
                    }
                }
                c.defs.iter().filter(|d| used.contains(&d.name)).map(|d| tgen::size(&d.schema) + 1).sum::<usize>()
            };
            if tgen::size(&cand.s) + tgen::size(&cand.t) + used_defs(&cand) >= tgen::size(&cur.s) + tgen::size(&cur.t) + used_defs(&cur) {
                continue;
            }
            if still(&cand) == Some(class) {
                cur = cand;
                progressed = true;
                break;
            }
        }
        if !progressed || budget == 0 {
            break;
        }
    }
    // drop definitions nothing refers to
    let mut used = BTreeSet::new();
    refs_in(&cur.s, &mut used);
    refs_in(&cur.t, &mut used);
    loop {
        let before = used.len();
        for d in &cur.defs {
            if used.contains(&d.name) {
                refs_in(&d.schema, &mut used);
            }
        }
        if used.len() == before {
            break;
        }
    }
    cur.defs.retain(|d| used.contains(&d.name));
    cur
}

fn report_pair(rep: &mut Report, c: &Case, class: &'static str, detail: String, cap: usize, stream: &str) {
    let still = |x: &Case| -> Option<&'static str> {
        match judge_pair(x, cap).0 {
            Verdict::Violated(k, _) => Some(k),
            _ => None,
        }
    };
    let small = shrink_case(c, class, cap, &still);
    let (v, eng, _) = judge_pair(&small, cap);
    let wdetail = match &v {
        Verdict::Violated(_, d) => d.clone(),
        _ => detail.clone(),
    };
    // attribution by re-execution: a left-hand union member whose exact witness is, read
    // structurally, a value of a sibling member; without that sibling the engine answers correctly
    let mut cause: Option<&'static str> = None;
    if class == "says-assignable-but-exact-value-is-outside" {
        let dm = defs_map(&small.defs);
        let top = match &small.s.kind {
            RuntypeKind::Ref(n) => dm.get(n).cloned().unwrap_or(small.s.clone()),
            _ => small.s.clone(),
        };
        if let (RuntypeKind::AnyOf(ms), Ok((Some(wv), _, _))) = (&top.kind, model_witness(&small, cap)) {
            let members: Vec<Runtype> = ms.iter().cloned().collect();
            for (j, uj) in members.iter().enumerate() {
                let covers = rm::rt_open(uj, &dm, &wv).unwrap_or(false) && !rm::rt_exact(uj, &dm, &wv).unwrap_or(true);
                if !covers {
                    continue;
                }
                let mut rest = members.clone();
                rest.remove(j);
                let without = Case { s: if rest.len() == 1 { rest[0].clone() } else { tgen::raw_any_of(rest) }, t: small.t.clone(), defs: small.defs.clone(), t_first: small.t_first };
                let mut ctx = SemTypeContext::new();
                if engine_subtype(&without.s, &without.t, &without.defs, &mut ctx, small.t_first) == Eng::Ok(false) {
                    cause = Some("left-union-member-shadowed-by-structurally-wider-sibling");
                }
            }
        }
    }
    if class == "says-assignable-but-exact-value-is-outside" && cause.is_none() {
        // a counterexample that needs two or more entries supplied by the left side's index signature:
        // every version of the witness that keeps only one of them is a value of T
        let dm = defs_map(&small.defs);
        let top = match &small.s.kind {
            RuntypeKind::Ref(n) => dm.get(n).cloned().unwrap_or(small.s.clone()),
            _ => small.s.clone(),
        };
        if let (RuntypeKind::Object { vs, indexed_properties: Some(_) }, Ok((Some(Value::Obj(w)), _, _))) = (&top.kind, model_witness(&small, cap)) {
            let idx_keys: Vec<&String> = w.keys().filter(|k| !vs.contains_key(*k)).collect();
            if idx_keys.len() >= 2
                && idx_keys.iter().all(|keep| {
                    let mut o = w.clone();
                    for k in &idx_keys {
                        if k != keep {
                            o.remove(*k);
                        }
                    }
                    rm::rt_open(&small.t, &dm, &Value::Obj(o)).unwrap_or(false)
                })
            {
                cause = Some("needs-several-index-signature-entries");
            }
        }
    }
    if class == "says-not-assignable-but-no-exact-value-is-outside" {
        // a right-hand intersection every member of which the engine accepts on its own
        let dm = defs_map(&small.defs);
        let top = match &small.t.kind {
            RuntypeKind::Ref(n) => dm.get(n).cloned().unwrap_or(small.t.clone()),
            _ => small.t.clone(),
        };
        if let RuntypeKind::AllOf(ms) = &top.kind
            && ms.len() >= 2
            && ms.iter().all(|m| {
                let mut ctx = SemTypeContext::new();
                engine_subtype(&small.s, m, &small.defs, &mut ctx, small.t_first) == Eng::Ok(true)
            })
        {
            cause = Some("right-intersection-accepted-member-by-member");
        } else {
            // an intersection somewhere on the right, and the answer is right in the other conversion order
            let has_and = has_kind(&small.t, &|k| matches!(k, RuntypeKind::AllOf(_))) || small.defs.iter().any(|d| has_kind(&d.schema, &|k| matches!(k, RuntypeKind::AllOf(_))));
            let mut ctx = SemTypeContext::new();
            if has_and && engine_subtype(&small.s, &small.t, &small.defs, &mut ctx, !small.t_first) == Eng::Ok(true) {
                cause = Some("right-intersection-accepted-member-by-member");
            }
        }
    }
    let sig = if class == "panic" { format!("panic|{}", wdetail) } else if let Some(cz) = cause { format!("{}|cause:{}", class, cz) } else { format!("{}|{} <: {}{}", class, tgen::show(&small.s), tgen::show(&small.t), if small.defs.is_empty() { String::new() } else { format!(" where {}", small.defs.iter().map(|d| format!("{}={}", tgen::show(&Runtype::ref_(d.name.clone())), tgen::show(&d.schema))).collect::<Vec<_>>().join(", ")) }) };
    rep.violation(
        &sig,
        class,
        format!("{}\nengine is_subtype(S,T) = {:?}\nreference: {}\n(found in stream {}; original pair before shrinking:\n{})", case_show(&small), eng, wdetail, stream, case_show(c)),
        case_json(&small),
    );
}

fn note_kinds(rep: &mut Report, c: &Case) -> String {
    let mut ks = BTreeSet::new();
    tgen::kinds(&c.s, &mut ks);
    let mut kt = BTreeSet::new();
    tgen::kinds(&c.t, &mut kt);
    for k in ks.iter().chain(kt.iter()) {
        rep.count(&format!("kind:{}", k), 1);
    }
    format!("{}<:{}", ks.into_iter().collect::<Vec<_>>().join(","), kt.into_iter().collect::<Vec<_>>().join(","))
}

/// S<:T, T<:S, is_same_type on one context, the same question again, and on a fresh context in the
/// opposite order
fn equivalence_block(c: &Case) -> Eng<(bool, bool, bool, bool, bool, bool)> {
    let refs: Vec<&NamedSchema> = c.defs.iter().collect();
    guard(|| {
        let mut ctx = SemTypeContext::new();
        let a = c.s.to_sem_type(&refs, &mut ctx)?;
        let b = c.t.to_sem_type(&refs, &mut ctx)?;
        let ab = a.is_subtype(&b, &mut ctx)?;
        let ba = b.is_subtype(&a, &mut ctx)?;
        let same = a.is_same_type(&b, &mut ctx)?;
        let ab2 = a.is_subtype(&b, &mut ctx)?;
        let mut c2 = SemTypeContext::new();
        let b2 = c.t.to_sem_type(&refs, &mut c2)?;
        let a2 = c.s.to_sem_type(&refs, &mut c2)?;
        let ba_fresh = b2.is_subtype(&a2, &mut c2)?;
        let ab_fresh = a2.is_subtype(&b2, &mut c2)?;
        Ok((ab, ba, same, ab2, ab_fresh, ba_fresh))
    })
}

fn c05_one(rep: &mut Report, w: &Watch, c: &Case, cap: usize, stream: &str) {
    w.begin(case_show(c), case_json(c));
    let t0 = std::time::Instant::now();
    let (v, eng, n) = judge_pair(c, cap);
    w.end();
    if std::env::var("SEMMON_SLOW").is_ok() && t0.elapsed().as_secs_f64() > 1.0 {
        eprintln!("slow case {:.1}s ({} values): {}", t0.elapsed().as_secs_f64(), n, case_json(c));
    }
    rep.count(&format!("stream:{}", stream), 1);
    rep.count("exact_values_enumerated", n as u64);
    match eng {
        Some(true) => rep.count("engine:assignable", 1),
        Some(false) => rep.count("engine:not-assignable", 1),
        None => {}
    }
    let shape = note_kinds(rep, c);
    match v {
        Verdict::Held => {
            rep.judged(1);
            rep.distinct(format!("{:x}", fnv(&format!("{}{:?}", shape, eng))));
        }
        Verdict::Inconclusive(why) => rep.inconclusive(&why),
        Verdict::Violated(class, detail) => {
            rep.judged(1);
            report_pair(rep, c, class, detail, cap, stream);
        }
    }
}

fn c05(args: &Args, rep: &mut Report, w: &Watch) {
    let cap = 4000;
    // (i) bounded-exhaustive stream
    let mut memo: Vec<Vec<Runtype>> = vec![];
    let s1 = tgen::exhaustive(1, &mut memo);
    let s2 = tgen::exhaustive(2, &mut memo);
    let s3 = tgen::exhaustive(3, &mut memo);
    let small: Vec<Runtype> = s1.iter().chain(s2.iter()).cloned().collect();
    let mut idx: u64 = 0;
    let mine = |i: u64| i % args.of == args.shard;
    let mut exhaustive_done = vec![];
    for s in &small {
        for t in &small {
            idx += 1;
            if mine(idx) {
                c05_one(rep, w, &Case { s: s.clone(), t: t.clone(), defs: vec![], t_first: false }, cap, "exhaustive<=2");
            }
        }
    }
    exhaustive_done.push("all ordered pairs of types of size <= 2");
    // pairs with one operand of size 3: quick takes a seeded 1/8 sample, thorough all
    let mut r3 = Rng::new(args.seed, "c05-size3");
    for a in &s3 {
        for b in &small {
            idx += 1;
            if !mine(idx) {
                continue;
            }
            if rep.quick() && !r3.chance(1, 4) {
                continue;
            }
            c05_one(rep, w, &Case { s: a.clone(), t: b.clone(), defs: vec![], t_first: idx % 2 == 0 }, cap, "exhaustive-3x2");
            c05_one(rep, w, &Case { s: b.clone(), t: a.clone(), defs: vec![], t_first: idx % 2 == 0 }, cap, "exhaustive-2x3");
        }
    }
    if !rep.quick() {
        exhaustive_done.push("all ordered pairs with one operand of size 3 and the other of size <= 2");
        // sample of 3x3
        let n33 = rep.share(0, 400_000);
        for i in 0..n33 {
            let mut r = Rng::new(args.seed, &format!("c05-33|{}|{}", args.shard, i));
            let a = r.pick(&s3).clone();
            let b = r.pick(&s3).clone();
            c05_one(rep, w, &Case { s: a, t: b, defs: vec![], t_first: r.chance(1, 2) }, cap, "sample-3x3");
        }
    }
    if args.shard == 0 {
        rep.count("exhaustive_size1_types", s1.len() as u64);
        rep.count("exhaustive_size2_types", s2.len() as u64);
        rep.count("exhaustive_size3_types", s3.len() as u64);
    }

    // open lists against unions of open lists: every family of proper sub-sets of a small element pool as the
    // rests of the right-hand members, with 0-1 prefix elements (a counterexample needs as many positions
    // past the prefix as there are members to escape)
    if args.shard == 1 % args.of {
        let pools: Vec<Vec<Runtype>> = vec![
            vec![tgen::lit_n(1), tgen::lit_n(2)],
            vec![Runtype::string(), Runtype::number()],
            vec![tgen::lit_n(1), tgen::lit_n(2), tgen::lit_n(3)],
            vec![tgen::lit_s("a"), Runtype::number(), Runtype::null()],
        ];
        let u = |ms: Vec<Runtype>| if ms.len() == 1 { ms[0].clone() } else { tgen::raw_any_of(ms) };
        for pool in &pools {
            let n = pool.len();
            let subsets: Vec<Vec<Runtype>> = (1u32..(1 << n) - 1).map(|m| (0..n).filter(|i| m & (1 << i) != 0).map(|i| pool[i].clone()).collect()).collect();
            for pre in [vec![], vec![Runtype::boolean()]] {
                let left = Runtype::tuple(pre.clone(), Some(Box::new(u(pool.clone()))));
                // families of 2 and 3 sub-sets
                for i in 0..subsets.len() {
                    for j in (i + 1)..subsets.len() {
                        let mut fams = vec![vec![i, j]];
                        for k in (j + 1)..subsets.len() {
                            fams.push(vec![i, j, k]);
                        }
                        for fam in fams {
                            let right = tgen::raw_any_of(fam.iter().map(|&x| Runtype::tuple(pre.clone(), Some(Box::new(u(subsets[x].clone()))))).collect());
                            c05_one(rep, w, &Case { s: left.clone(), t: right.clone(), defs: vec![], t_first: false }, cap, "open-list-grid");
                            // the same with the empty list and the one-element lists split off (a cover that holds)
                            let mut ms = vec![Runtype::tuple(pre.clone(), None)];
                            ms.push(Runtype::tuple(pre.iter().cloned().chain(std::iter::once(u(pool.clone()))).collect(), Some(Box::new(u(pool.clone())))));
                            c05_one(rep, w, &Case { s: left.clone(), t: tgen::raw_any_of(ms), defs: vec![], t_first: true }, cap, "open-list-grid");
                            rep.count("open_list_grid", 2);
                        }
                    }
                }
            }
        }
    }

    // finite index signatures (a record over a literal key set, as the frontend builds it for template
    // keys) against the same keys declared by name, with and without an index signature next to them
    if args.shard == 0 {
        use beff_core::ast::runtype::{IndexedProperty, Optionality};
        use std::collections::BTreeMap;
        let keyset = |ks: &[&str]| Runtype::any_of(ks.iter().map(|k| tgen::lit_s(k)).collect());
        let fin = |ks: &[&str], v: Runtype| Runtype::new(RuntypeKind::Object { vs: BTreeMap::new(), indexed_properties: Some(Box::new(IndexedProperty { key: keyset(ks), value: Optionality::Required(v) })) });
        let named = |ks: &[(&str, Runtype)], idx: Option<Runtype>| {
            Runtype::new(RuntypeKind::Object {
                vs: ks.iter().map(|(k, v)| (k.to_string(), Optionality::Required(v.clone()))).collect(),
                indexed_properties: idx.map(|v| Box::new(IndexedProperty { key: Runtype::string(), value: Optionality::Required(v) })),
            })
        };
        let vals = [tgen::lit_n(1), Runtype::number(), Runtype::null(), Runtype::string()];
        for lv in &vals {
            for rv in &vals {
                for ri in [None, Some(Runtype::null()), Some(Runtype::number())] {
                    for (lk, rk) in [(vec!["a", "b"], vec!["a", "b"]), (vec!["a", "b"], vec!["a"]), (vec!["a"], vec!["a", "b"])] {
                        let s = fin(&lk, lv.clone());
                        let t = named(&rk.iter().map(|k| (*k, rv.clone())).collect::<Vec<_>>(), ri.clone());
                        c05_one(rep, w, &Case { s: s.clone(), t: t.clone(), defs: vec![], t_first: false }, cap, "finite-index-vs-named");
                        c05_one(rep, w, &Case { s: t, t: s, defs: vec![], t_first: true }, cap, "finite-index-vs-named");
                    }
                }
            }
        }
    }

    // (ii) random pairs with named recursive definitions, (iii) near pairs, relational pairs
    let n = rep.share(360_000, 4_000_000);
    for i in 0..n {
        let mut rng = Rng::new(args.seed, &format!("c05|{}|{}", args.shard, i));
        let ndefs = if rng.chance(1, 2) { 1 + rng.below(3) } else { 0 };
        let (defs, s, t0) = {
            // (one case in three may use class-instance leaves: typed arrays, bigint, Date)
            let exotic = rng.chance(1, 3);
            let mut g = RandGen { rng: &mut rng, names: vec![], allow_any: false, allow_tpl: false, allow_exotic: exotic };
            let defs = if ndefs > 0 { g.defs(ndefs) } else { vec![] };
            let bs = 2 + g.rng.below(6);
            let s = g.ty(bs, true);
            let bt = 2 + g.rng.below(6);
            let t = g.ty(bt, true);
            (defs, s, t)
        };
        let mode = rng.below(15);
        if mode >= 13 {
            // cyclic twins: a reference cycle of 2-4 named object types and a copy of it with one leaf
            // edited; S mentions two members of the cycle, T their twins (in one object or split over
            // a union). Answers below the recursion cut have to be provisional.
            let k = 2 + rng.below(3);
            let leafs = [Runtype::string(), Runtype::number(), Runtype::null(), tgen::lit_s("a"), tgen::lit_n(1), Runtype::boolean()];
            let leaf_of: Vec<Runtype> = (0..k).map(|_| rng.pick(&leafs).clone()).collect();
            let edited = rng.below(k);
            let mut twin_leaf = leaf_of.clone();
            twin_leaf[edited] = rng.pick(&leafs).clone();
            let nullable_at = rng.below(k);
            let optional = rng.chance(1, 2);
            let mk = |prefix: &str, leaf: &Vec<Runtype>| -> Vec<NamedSchema> {
                (0..k)
                    .map(|i| {
                        let next = Runtype::ref_(tgen::uuid(&format!("{}{}", prefix, (i + 1) % k)));
                        let link = if i == nullable_at {
                            if optional { ("n", next, true) } else { ("n", tgen::raw_any_of(vec![next, Runtype::null()]), false) }
                        } else {
                            ("n", next, false)
                        };
                        NamedSchema { name: tgen::uuid(&format!("{}{}", prefix, i)), schema: tgen::obj(vec![link, ("v", leaf[i].clone(), false)], None) }
                    })
                    .collect()
            };
            let mut defs2 = mk("N", &leaf_of);
            defs2.extend(mk("M", &twin_leaf));
            let a = rng.below(k);
            let b = (a + 1 + rng.below(k - 1)) % k;
            let r = |p: &str, i: usize| Runtype::ref_(tgen::uuid(&format!("{}{}", p, i)));
            let s_ty = tgen::obj(vec![("p", r("N", a), false), ("q", r("N", b), false)], None);
            let t_ty = match rng.below(3) {
                0 => tgen::obj(vec![("p", r("M", a), false), ("q", r("M", b), false)], None),
                1 => tgen::raw_any_of(vec![tgen::obj(vec![("p", r("M", a), false)], None), tgen::obj(vec![("q", r("M", b), false)], None)]),
                _ => tgen::raw_any_of(vec![tgen::obj(vec![("p", r("M", a), false), ("q", r("N", b), false)], None), tgen::obj(vec![("q", r("M", b), false)], None)]),
            };
            let c = Case { s: s_ty, t: t_ty, defs: defs2, t_first: rng.chance(1, 2) };
            c05_one(rep, w, &c, cap, "cyclic-twins");
            continue;
        }
        if i % 16 == 5 {
            // unions that share a NAMED member (one memoised atom on both sides of an intersection):
            // (X | Y) & (X | W) against X | W, X | (Y & W), X, Y - with names in every sort order
            let names = rng.shuffle(&["A", "B", "C", "M", "Z"]);
            let shapes: Vec<Runtype> = vec![
                tgen::obj(vec![("a", Runtype::string(), false)], None),
                tgen::obj(vec![("b", Runtype::number(), false), ("o", Runtype::null(), true)], None),
                tgen::obj(vec![("c", tgen::lit_n(1), false)], None),
                Runtype::tuple(vec![Runtype::string(), Runtype::number()], None),
                Runtype::tuple(vec![Runtype::boolean()], Some(Box::new(Runtype::string()))),
                Runtype::array(Box::new(Runtype::number())),
            ];
            let picked = rng.shuffle(&shapes);
            let defs3: Vec<NamedSchema> = (0..3).map(|k| NamedSchema { name: tgen::uuid(names[k]), schema: picked[k].clone() }).collect();
            let r = |k: usize| Runtype::ref_(tgen::uuid(names[k]));
            let (x, y, wv) = (r(0), r(1), r(2));
            let left = tgen::raw_all_of(vec![tgen::raw_any_of(vec![x.clone(), y.clone()]), tgen::raw_any_of(vec![x.clone(), wv.clone()])]);
            let rights = vec![
                tgen::raw_any_of(vec![x.clone(), wv.clone()]),
                tgen::raw_any_of(vec![x.clone(), tgen::raw_all_of(vec![y.clone(), wv.clone()])]),
                x.clone(),
                y.clone(),
                tgen::raw_any_of(vec![x.clone(), y.clone()]),
            ];
            let right = rng.pick(&rights).clone();
            let (s_ty, t_ty) = if rng.chance(1, 2) { (left, right) } else { (right, left) };
            let c = Case { s: s_ty, t: t_ty, defs: defs3, t_first: rng.chance(1, 2) };
            c05_one(rep, w, &c, cap, "shared-named-member");
            continue;
        }
        let (s, t, stream) = match mode {
            10..=12 => {
                // covering problems: S is a product of small literal sets (tuple slots or object
                // properties), T a union of 2-4 "bricks" over sub-sets of the same slots
                let pools: [Vec<Runtype>; 4] = [
                    vec![tgen::lit_b(true), tgen::lit_b(false)],
                    vec![tgen::lit_s("a"), tgen::lit_s("b"), tgen::lit_s("c")],
                    vec![tgen::lit_n(1), tgen::lit_n(2), Runtype::string()],
                    vec![Runtype::null(), Runtype::number(), tgen::lit_s("a")],
                ];
                let arity = 2 + rng.below(2);
                let slots: Vec<&Vec<Runtype>> = (0..arity).map(|_| &pools[rng.below(4)]).collect();
                let as_object = rng.chance(1, 2);
                let keys = ["a", "b", "c"];
                let subset = |rng: &mut Rng, pool: &Vec<Runtype>, at_least: usize| -> Runtype {
                    let mut pick: Vec<Runtype> = pool.iter().filter(|_| rng.chance(1, 2)).cloned().collect();
                    while pick.len() < at_least {
                        let x = rng.pick(pool).clone();
                        if !pick.contains(&x) {
                            pick.push(x);
                        }
                    }
                    if pick.len() == 1 { pick.pop().unwrap() } else { tgen::raw_any_of(pick) }
                };
                let build = |rng: &mut Rng, parts: Vec<Runtype>, optional_ok: bool| -> Runtype {
                    if as_object {
                        tgen::obj(parts.into_iter().enumerate().map(|(i, p)| (keys[i], p, optional_ok && rng.chance(1, 5))).collect(), None)
                    } else {
                        Runtype::tuple(parts, None)
                    }
                };
                let s_parts: Vec<Runtype> = slots.iter().map(|p| subset(&mut rng, p, 2)).collect();
                if as_object && rng.chance(1, 3) {
                    // the left side covers its keys through an index signature; the bricks name them
                    let pool = slots[0];
                    let value = subset(&mut rng, pool, 2);
                    let s_ty = tgen::obj(vec![], Some((Runtype::string(), value, false)));
                    let nbricks = 2 + rng.below(2);
                    let bricks: Vec<Runtype> = (0..nbricks)
                        .map(|_| {
                            let nkeys = 1 + rng.below(2);
                            let props: Vec<(&str, Runtype, bool)> = (0..nkeys).map(|i| (keys[i], subset(&mut rng, pool, 1), true)).collect();
                            let index = if rng.chance(1, 3) { Some((Runtype::string(), subset(&mut rng, pool, 1), false)) } else { None };
                            tgen::obj(props, index)
                        })
                        .collect();
                    let c = Case { s: s_ty, t: tgen::raw_any_of(bricks), defs: vec![], t_first: rng.chance(1, 2) };
                    c05_one(rep, w, &c, cap, "cover-index-signature");
                    continue;
                }
                if !as_object && rng.chance(1, 3) {
                    // open lists: the left side's rest element is a union, the bricks are open lists whose
                    // rest covers a part of it each - a counterexample needs one position past the longest
                    // prefix PER brick (e.g. (1|2)[] against 1[] | 2[]: [1, 2])
                    let pool = slots[0];
                    let npre = rng.below(2);
                    let pre: Vec<Runtype> = (0..npre).map(|_| subset(&mut rng, pool, 1)).collect();
                    let s_ty = Runtype::tuple(pre.clone(), Some(Box::new(subset(&mut rng, pool, 2))));
                    let nbricks = 2 + rng.below(3);
                    let bricks: Vec<Runtype> = (0..nbricks)
                        .map(|_| {
                            let bp: Vec<Runtype> = if rng.chance(2, 3) { pre.clone() } else { (0..rng.below(3)).map(|_| subset(&mut rng, pool, 1)).collect() };
                            let rest = if rng.chance(5, 6) { Some(Box::new(subset(&mut rng, pool, 1))) } else { None };
                            Runtype::tuple(bp, rest)
                        })
                        .collect();
                    let c = Case { s: s_ty, t: tgen::raw_any_of(bricks), defs: vec![], t_first: rng.chance(1, 2) };
                    c05_one(rep, w, &c, cap, "cover-open-lists");
                    continue;
                }
                let s_ty = build(&mut rng, s_parts, true);
                let nbricks = 2 + rng.below(3);
                let bricks: Vec<Runtype> = (0..nbricks)
                    .map(|_| {
                        let parts: Vec<Runtype> = slots.iter().map(|p| subset(&mut rng, p, 1)).collect();
                        build(&mut rng, parts, true)
                    })
                    .collect();
                (s_ty, tgen::raw_any_of(bricks), if as_object { "cover-objects" } else { "cover-tuples" })
            }
            0..=3 => (s, t0, if ndefs > 0 { "random-recursive" } else { "random" }),
            4 | 5 => {
                let e = tgen::one_edit(&mut rng, &s);
                if rng.chance(1, 2) { (s, e, "near") } else { (e, s, "near") }
            }
            6 => (s.clone(), s, "reflexive"),
            7 => (s.clone(), tgen::raw_any_of(vec![s, t0]), "S<:S|T"),
            8 => (tgen::raw_all_of(vec![s.clone(), t0]), s, "S&T<:S"),
            _ => {
                // a named type against its own one-step unfolding
                if let Some(d) = defs.first() {
                    let r = Runtype::ref_(d.name.clone());
                    if rng.chance(1, 2) { (r, d.schema.clone(), "unfold") } else { (d.schema.clone(), r, "unfold") }
                } else {
                    (s, t0, "random")
                }
            }
        };
        let c = Case { s, t, defs, t_first: rng.chance(1, 2) };
        c05_one(rep, w, &c, cap, stream);

        // equivalence clause and history independence on a shared context
        if i % 4 == 0 {
            w.begin(format!("equivalence / history clause on\n{}", case_show(&c)), case_json(&c));
            let r = equivalence_block(&c);
            w.end();
            if let Eng::Ok((ab, ba, same, ab2, ab_fresh, ba_fresh)) = r {
                rep.judged(1);
                rep.count("equivalence_clause_checked", 1);
                if same != (ab && ba) {
                    rep.violation("equivalence-differs-from-mutual-assignability", "equivalence", format!("{}\nis_same_type = {} but S<:T = {} and T<:S = {}", case_show(&c), same, ab, ba), case_json(&c));
                }
                if ab != ab2 || ab != ab_fresh || ba != ba_fresh {
                    // one of the differing answers is wrong: each is judged against the model, with the
                    // conversion order that produced it
                    rep.count("history_dependent_answers", 1);
                    let mut attributed = false;
                    for (case, answer) in [
                        (Case { s: c.s.clone(), t: c.t.clone(), defs: c.defs.clone(), t_first: false }, ab),
                        (Case { s: c.s.clone(), t: c.t.clone(), defs: c.defs.clone(), t_first: true }, ab_fresh),
                        (Case { s: c.t.clone(), t: c.s.clone(), defs: c.defs.clone(), t_first: true }, ba),
                        (Case { s: c.t.clone(), t: c.s.clone(), defs: c.defs.clone(), t_first: false }, ba_fresh),
                    ] {
                        let (v, eng, _) = judge_pair(&case, cap);
                        if eng != Some(answer) {
                            continue; // the order alone does not reproduce this answer
                        }
                        if let Verdict::Violated(class, detail) = v {
                            report_pair(rep, &case, class, detail, cap, "history-clause");
                            attributed = true;
                        }
                    }
                    if ab != ab2 {
                        rep.violation("same-question-answered-differently-on-one-context", "history-independence", format!("{}\nS<:T first = {}, asked again on the same context = {}", case_show(&c), ab, ab2), case_json(&c));
                    } else if !attributed {
                        // which question changed its answer, and does its right-hand side contain an
                        // intersection (the recorded split of a right-hand intersection across the two
                        // sides of the diagram)?
                        let has_and = |t: &Runtype| has_kind(t, &|k| matches!(k, RuntypeKind::AllOf(_))) || c.defs.iter().any(|d| has_kind(&d.schema, &|k| matches!(k, RuntypeKind::AllOf(_))));
                        let right_and = (ab != ab_fresh && has_and(&c.t)) || (ba != ba_fresh && has_and(&c.s));
                        let only_such = (ab == ab_fresh || has_and(&c.t)) && (ba == ba_fresh || has_and(&c.s));
                        rep.violation(
                            if right_and && only_such { "decision-depends-on-conversion-order|cause:right-intersection" } else { "decision-depends-on-conversion-order|unattributed" },
                            "history-independence",
                            format!("{}\nS<:T with S converted first = {}, with T converted first = {}; T<:S with S converted first = {}, with T converted first = {}", case_show(&c), ab, ab_fresh, ba, ba_fresh),
                            case_json(&c),
                        );
                    }
                }
            }
        }
        if i < 3 && args.shard == 0 {
            rep.sample(json!({"S": tgen::show(&c.s), "T": tgen::show(&c.t), "definitions": c.defs.iter().map(|d| format!("{} = {}", tgen::show(&Runtype::ref_(d.name.clone())), tgen::show(&d.schema))).collect::<Vec<_>>(), "stream": stream}));
        }
    }
    if args.shard == 0 {
        for e in exhaustive_done {
            rep.count(&format!("exhaustive-subrun-completed:{}", e), 1);
        }
    }
}

fn c05_replay(c: &J) -> bool {
    let case = Case { s: tgen::from_json(&c["s"]), t: tgen::from_json(&c["t"]), defs: tgen::defs_from_json(&c["defs"]), t_first: c["t_first"].as_bool().unwrap_or(false) };
    let (v, eng, n) = judge_pair(&case, 4000);
    println!("{}", json!({"engine": eng, "verdict": format!("{:?}", v), "exact_values": n, "case": case_show(&case)}));
    let t0 = std::time::Instant::now();
    let eq = equivalence_block(&case);
    println!("{}", json!({"equivalence_block": format!("{:?}", eq), "seconds": t0.elapsed().as_secs_f64()}));
    let eq_bad = matches!(eq, Eng::Ok((ab, ba, same, ab2, ab_fresh, ba_fresh)) if same != (ab && ba) || ab != ab2 || ab != ab_fresh || ba != ba_fresh);
    matches!(v, Verdict::Violated(_, _)) || eq_bad
}

// ================================================================================================
// C06

fn atoms4(mixed: bool) -> Vec<Atom> {
    if mixed { vec![Atom::Mapping(0), Atom::List(0), Atom::Mapping(1), Atom::List(1)] } else { vec![Atom::List(0), Atom::List(1), Atom::List(2), Atom::List(3)] }
}

/// truth table of a diagram over 4 atoms (bit i of the result = value under assignment i)
fn table(b: &Bdd, atoms: &[Atom]) -> u16 {
    let mut out = 0u16;
    for asg in 0..16u16 {
        if eval(b, atoms, asg) {
            out |= 1 << asg;
        }
    }
    out
}
fn eval(b: &Bdd, atoms: &[Atom], asg: u16) -> bool {
    match b {
        Bdd::True => true,
        Bdd::False => false,
        Bdd::Node { atom, left, middle, right } => {
            let i = atoms.iter().position(|a| a == atom).expect("atom of the alphabet");
            let a = (asg >> i) & 1 == 1;
            (a && eval(left, atoms, asg)) || eval(middle, atoms, asg) || (!a && eval(right, atoms, asg))
        }
    }
}

fn bdd_show(b: &Bdd) -> String {
    match b {
        Bdd::True => "T".into(),
        Bdd::False => "F".into(),
        Bdd::Node { atom, left, middle, right } => format!("({:?} ? {} : {} : {})", atom, bdd_show(left), bdd_show(middle), bdd_show(right)),
    }
}

fn bdd_shape(b: &Bdd) -> String {
    // shape class: which of left / middle / right are leaves or nodes, recursively to depth 2
    fn go(b: &Bdd, d: usize) -> String {
        match b {
            Bdd::True => "T".into(),
            Bdd::False => "F".into(),
            Bdd::Node { left, middle, right, .. } => {
                if d == 0 {
                    "N".into()
                } else {
                    format!("N({}{}{})", go(left, d - 1), go(middle, d - 1), go(right, d - 1))
                }
            }
        }
    }
    go(b, 2)
}

fn c06_layer1(args: &Args, rep: &mut Report) {
    for mixed in [false, true] {
        let atoms = atoms4(mixed);
        let mut pool: Vec<Rc<Bdd>> = vec![Rc::new(Bdd::True), Rc::new(Bdd::False)];
        for a in &atoms {
            pool.push(Rc::new(Bdd::from_atom(*a)));
        }
        let mut seen: HashMap<Bdd, ()> = pool.iter().map(|b| ((**b).clone(), ())).collect();
        let mut tables_seen: BTreeSet<u16> = BTreeSet::new();
        let mut rng = Rng::new(args.seed, &format!("c06-l1|{}|{}", args.shard, mixed));
        let budget_ops = rep.share(24_000_000, 240_000_000) / 2;
        let max_pool = if rep.quick() { 6_000 } else { 60_000 };
        let mut ops_done = 0u64;
        // breadth-first while the pool is small, then random pairs
        let mut frontier = 0usize;
        while ops_done < budget_ops {
            let (x, y) = if frontier < pool.len() && pool.len() < 400 {
                let x = pool[frontier].clone();
                let y = pool[rng.below(pool.len())].clone();
                if rng.chance(1, pool.len().max(1)) {
                    frontier += 1;
                }
                (x, y)
            } else {
                (pool[rng.below(pool.len())].clone(), pool[rng.below(pool.len())].clone())
            };
            let tx = table(&x, &atoms);
            let ty = table(&y, &atoms);
            let results: [(&str, Rc<Bdd>, u16); 4] = [
                ("union", x.union(&y), tx | ty),
                ("intersect", x.intersect(&y), tx & ty),
                ("diff", x.diff(&y), tx & !ty),
                ("complement", x.complement(), !tx),
            ];
            for (op, r, want) in results {
                ops_done += 1;
                rep.judged(1);
                let got = table(&r, &atoms);
                tables_seen.insert(got);
                if got != want {
                    let bad = (0..16u16).find(|a| ((got >> a) & 1) != ((want >> a) & 1)).unwrap();
                    rep.violation(
                        &format!("bdd-{}-not-boolean|{}|{}", op, bdd_shape(&x), if op == "complement" { "-".to_string() } else { bdd_shape(&y) }),
                        "diagram-operation-exact",
                        format!("x = {}\ny = {}\n{}(x,y) = {}\nunder assignment {:04b} (atoms {:?}): x={} y={} result={} expected={}", bdd_show(&x), bdd_show(&y), op, bdd_show(&r), bad, atoms, eval(&x, &atoms, bad), eval(&y, &atoms, bad), eval(&r, &atoms, bad), (want >> bad) & 1 == 1),
                        json!({"kind": "bdd", "op": op, "x": bdd_show(&x), "y": bdd_show(&y), "mixed": mixed}),
                    );
                }
                // layer 3: DNF round trip of every result
                let dnf = bdd_to_dnf(&r);
                let mut dnf_table = 0u16;
                for asg in 0..16u16 {
                    let val = dnf.iter().any(|c| {
                        c.positive.iter().all(|a| (asg >> atoms.iter().position(|x| x == a).unwrap()) & 1 == 1)
                            && c.negative.iter().all(|a| (asg >> atoms.iter().position(|x| x == a).unwrap()) & 1 == 0)
                    });
                    if val {
                        dnf_table |= 1 << asg;
                    }
                }
                rep.judged(1);
                if dnf_table != got {
                    rep.violation(&format!("dnf-differs-from-diagram|{}", bdd_shape(&r)), "dnf-exact", format!("diagram {}\ndnf {:?}", bdd_show(&r), dnf), json!({"kind": "dnf", "x": bdd_show(&r)}));
                }
                let back = dnf_to_bdd(&dnf);
                rep.judged(1);
                if table(&back, &atoms) != got {
                    rep.violation(&format!("dnf-to-bdd-differs|{}", bdd_shape(&r)), "dnf-round-trip", format!("diagram {}\ndnf {:?}\nback {}", bdd_show(&r), dnf, bdd_show(&back)), json!({"kind": "dnf-back", "x": bdd_show(&r)}));
                }
                if pool.len() < max_pool && !seen.contains_key(&*r) {
                    seen.insert((*r).clone(), ());
                    pool.push(r);
                }
            }
        }
        rep.count(if mixed { "l1_diagrams_reached_mixed_atoms" } else { "l1_diagrams_reached" }, pool.len() as u64);
        rep.count(if mixed { "l1_boolean_functions_seen_mixed_atoms" } else { "l1_boolean_functions_seen" }, tables_seen.len() as u64);
        rep.count("l1_operations", ops_done);
        let with_middle = pool.iter().filter(|b| matches!(&***b, Bdd::Node { middle, .. } if **middle != Bdd::False)).count();
        rep.count("l1_diagrams_with_nonfalse_middle", with_middle as u64);
        for b in pool.iter().take(200_000) {
            rep.distinct(format!("l1:{}:{:x}", mixed, table(b, &atoms)));
        }
    }
}

/// values to probe a pair of operand types with: exact values of both, their one-step variants, and
/// the pseudo values of the bit-only tags
fn probe_values(a: &Runtype, b: &Runtype, defs: &Defs) -> Vec<Value> {
    let mut lits = Lits::default();
    let mut seen = BTreeSet::new();
    lits.collect(a, defs, &mut seen);
    lits.collect(b, defs, &mut seen);
    let mut out: Vec<Value> = vec![Value::Absent, Value::Null, Value::Bool(true), Value::Bool(false), Value::Num(rm::FRESH_NUM), Value::Str(rm::FRESH_STR.into()), Value::Arr(vec![]), Value::Obj(BTreeMap::new()), Value::Tag(1 << 8), Value::Tag(1 << 9)];
    for k in 0..rm::TYPED_KINDS.len() {
        out.push(Value::Typed(k as u8));
    }
    for n in &lits.nums {
        out.push(Value::Num(*n));
    }
    for s in &lits.strs {
        out.push(Value::Str(s.clone()));
    }
    for t in [a, b] {
        let mut en = Enumerator::new(defs, &lits, 1, 60);
        if let Ok(vs) = en.values(vec![t], 3) {
            for v in vs.into_iter().take(60) {
                let mut ms = vec![];
                rm::mutants(&v, &lits, &mut ms, 24);
                out.push(v);
                out.extend(ms.into_iter().take(24));
            }
        }
    }
    out.sort();
    out.dedup();
    out
}

fn c06_layer2(args: &Args, rep: &mut Report, w: &Watch) {
    let n = rep.share(480_000, 5_000_000);
    for i in 0..n {
        let mut rng = Rng::new(args.seed, &format!("c06-l2|{}|{}", args.shard, i));
        let ndefs = if rng.chance(1, 3) { 1 + rng.below(2) } else { 0 };
        let (defs, a, b) = {
            let mut g = RandGen { rng: &mut rng, names: vec![], allow_any: true, allow_tpl: false, allow_exotic: true };
            let defs = if ndefs > 0 { g.defs(ndefs) } else { vec![] };
            let ba = 1 + g.rng.below(6);
            let a = g.ty(ba, true);
            let b = if g.rng.chance(1, 4) {
                tgen::one_edit(g.rng, &a)
            } else {
                let bb = 1 + g.rng.below(6);
                g.ty(bb, true)
            };
            (defs, a, b)
        };
        let dm = defs_map(&defs);
        let refs: Vec<&NamedSchema> = defs.iter().collect();
        let c = Case { s: a.clone(), t: b.clone(), defs: defs.clone(), t_first: false };
        w.begin(case_show(&c), case_json(&c));
        let mut ctx = SemTypeContext::new();
        // operands: the two types, sometimes already a difference / complement (deny lists, negative atoms)
        let built = guard(|| {
            let x = a.to_sem_type(&refs, &mut ctx)?;
            let y = b.to_sem_type(&refs, &mut ctx)?;
            Ok((x, y))
        });
        let (x0, y0) = match built {
            Eng::Ok(p) => p,
            Eng::Refused(m) => {
                rep.inconclusive(&format!("engine-refused:{}", m.split(':').next().unwrap_or("")));
                w.end();
                continue;
            }
            Eng::Panic(m) => {
                rep.violation(&format!("panic|{}", m), "panic", case_show(&c), case_json(&c));
                w.end();
                continue;
            }
        };
        let pre = rng.below(7);
        // a third type for operands that are built from three
        let z_rt = tgen::one_edit(&mut rng, &b);
        let operands = guard(|| {
            Ok(match pre {
                0 => (x0.clone(), y0.clone(), "plain"),
                1 => (x0.complement()?, y0.clone(), "complement-left"),
                2 => (x0.clone(), y0.complement()?, "complement-right"),
                3 => (x0.diff(&y0)?, y0.union(&x0)?, "diff/union"),
                // operands that are "everything" (or nearly) without being the trivial diagram:
                // A | B | (!A & !B) against A | C | (!A & !C), and (!A | B) | (A & !B)
                4 => {
                    let z0 = z_rt.to_sem_type(&refs, &mut ctx)?;
                    let t1 = x0.union(&y0)?.union(&x0.complement()?.intersect(&y0.complement()?)?)?;
                    let t2 = x0.union(&z0)?.union(&x0.complement()?.intersect(&z0.complement()?)?)?;
                    (t1, t2, "hidden-tautologies")
                }
                5 => {
                    let t1 = x0.complement()?.union(&y0)?.union(&x0.intersect(&y0.complement()?)?)?;
                    let t2 = x0.union(&y0)?.union(&x0.complement()?.intersect(&y0.complement()?)?)?;
                    (t1, t2, "hidden-tautologies-2")
                }
                // and operands that are nothing without being the trivial diagram
                _ => {
                    let t1 = x0.diff(&y0)?.intersect(&y0.diff(&x0)?)?;
                    let t2 = x0.union(&y0)?.diff(&x0)?.diff(&y0)?;
                    (t1.union(&x0.intersect(&y0)?)?, t2.union(&y0)?, "hidden-contradictions")
                }
            })
        });
        let (x, y, pre_name) = match operands {
            Eng::Ok(p) => p,
            _ => {
                rep.inconclusive("engine-refused-operand");
                w.end();
                continue;
            }
        };
        let results = guard(|| Ok([("union", x.union(&y)?), ("intersect", x.intersect(&y)?), ("diff", x.diff(&y)?), ("complement", x.complement()?)]));
        w.end();
        let results = match results {
            Eng::Ok(r) => r,
            Eng::Refused(m) => {
                rep.inconclusive(&format!("engine-refused:{}", m.split(':').next().unwrap_or("")));
                continue;
            }
            Eng::Panic(m) => {
                rep.violation(&format!("panic|{}", m), "panic", case_show(&c), case_json(&c));
                continue;
            }
        };
        let vals = probe_values(&a, &b, &dm);
        rep.count("l2_operand_pairs", 1);
        rep.count(&format!("l2_operands:{}", pre_name), 1);
        rep.count("l2_values_probed", vals.len() as u64);
        let mut shape = BTreeSet::new();
        tgen::kinds(&a, &mut shape);
        tgen::kinds(&b, &mut shape);
        rep.distinct(format!("l2:{}:{}", pre_name, shape.iter().cloned().collect::<Vec<_>>().join(",")));
        'vals: for v in &vals {
            let mx = match rm::st_member(&x, &ctx, v) {
                Ok(b) => b,
                Err(u) => {
                    rep.inconclusive(&format!("reference:{}", u.0));
                    break 'vals;
                }
            };
            let my = match rm::st_member(&y, &ctx, v) {
                Ok(b) => b,
                Err(u) => {
                    rep.inconclusive(&format!("reference:{}", u.0));
                    break 'vals;
                }
            };
            for (op, r) in &results {
                let want = match *op {
                    "union" => mx || my,
                    "intersect" => mx && my,
                    "diff" => mx && !my,
                    _ => !mx,
                };
                let got = match rm::st_member(r, &ctx, v) {
                    Ok(b) => b,
                    Err(u) => {
                        rep.inconclusive(&format!("reference:{}", u.0));
                        break 'vals;
                    }
                };
                rep.judged(1);
                if got != want {
                    let tag = match v {
                        Value::Absent => "absent",
                        Value::Null => "null",
                        Value::Bool(_) => "boolean",
                        Value::Num(_) => "number",
                        Value::Str(_) => "string",
                        Value::Arr(_) => "list",
                        Value::Obj(_) => "mapping",
                        Value::Tag(_) => "bit-only-tag",
                        Value::Typed(_) => "typed-array",
                    };
                    rep.violation(
                        &format!("semtype-{}-not-a-set-operation|{}|on-{}", op, pre_name, tag),
                        "set-operation-exact",
                        format!("A = {}\nB = {}\noperands: {}\nvalue {}: in X = {}, in Y = {}, in {}(X,Y) = {} (expected {})\nX = {:?}\nY = {:?}\nresult = {:?}", tgen::show(&a), tgen::show(&b), pre_name, v.show(), mx, my, op, got, want, x, y, r),
                        json!({"kind": "semtype-op", "a": tgen::to_json(&a), "b": tgen::to_json(&b), "defs": tgen::defs_to_json(&defs), "pre": pre, "op": op}),
                    );
                }
            }
        }
        if i < 2 && args.shard == 0 {
            rep.sample(json!({"A": tgen::show(&a), "B": tgen::show(&b), "operands": pre_name, "values_probed": vals.len(), "example_values": vals.iter().take(6).map(|v| v.show()).collect::<Vec<_>>()}));
        }
    }
}

// ================================================================================================
// C07

fn has_kind(t: &Runtype, pred: &dyn Fn(&RuntypeKind) -> bool) -> bool {
    if pred(&t.kind) {
        return true;
    }
    match &t.kind {
        RuntypeKind::Array(e) | RuntypeKind::StNot(e) => has_kind(e, pred),
        RuntypeKind::Tuple { prefix_items, items } => prefix_items.iter().any(|p| has_kind(p, pred)) || items.as_ref().is_some_and(|i| has_kind(i, pred)),
        RuntypeKind::Object { vs, indexed_properties } => vs.values().any(|v| has_kind(v.inner(), pred)) || indexed_properties.as_ref().is_some_and(|ip| has_kind(&ip.key, pred) || has_kind(ip.value.inner(), pred)),
        RuntypeKind::AnyOf(ms) | RuntypeKind::AllOf(ms) => ms.iter().any(|m| has_kind(m, pred)),
        _ => false,
    }
}

fn top_union_members(t: &Runtype, defs: &Defs, out: &mut Vec<Runtype>, depth: usize) {
    match &t.kind {
        RuntypeKind::AnyOf(ms) if depth < 20 => {
            for m in ms {
                top_union_members(m, defs, out, depth + 1);
            }
        }
        RuntypeKind::Ref(n) if depth < 20 && defs.contains_key(n) => top_union_members(&defs[n].clone(), defs, out, depth + 1),
        _ => out.push(t.clone()),
    }
}

struct Materialised {
    head: Runtype,
    tail: Vec<NamedSchema>,
}

/// T[K] for a list type T written inline and K a numeric literal or a union of numeric literals
fn expected_list_index(a: &Runtype, b: &Runtype) -> Option<Runtype> {
    let (prefix, rest): (Vec<Runtype>, Option<Runtype>) = match &a.kind {
        RuntypeKind::Tuple { prefix_items, items } => (prefix_items.clone(), items.as_ref().map(|r| (**r).clone())),
        RuntypeKind::Array(el) => (vec![], Some((**el).clone())),
        _ => return None,
    };
    let mut keys: Vec<i64> = vec![];
    let mut lit = |t: &Runtype| -> bool {
        if let RuntypeKind::Const(RuntypeConst::Number(n)) = &t.kind {
            let f = n.to_f64();
            if f >= 0.0 && f.fract() == 0.0 && f < 64.0 {
                keys.push(f as i64);
                return true;
            }
        }
        false
    };
    match &b.kind {
        RuntypeKind::AnyOf(ms) => {
            for m in ms.iter() {
                if !lit(m) {
                    return None;
                }
            }
        }
        _ => {
            if !lit(b) {
                return None;
            }
        }
    }
    if keys.is_empty() {
        return None;
    }
    let mut members = vec![];
    for k in keys {
        let k = k as usize;
        if k < prefix.len() {
            members.push(prefix[k].clone());
        } else {
            members.push(rest.clone()?);
        }
    }
    Some(if members.len() == 1 { members.pop().unwrap() } else { tgen::raw_any_of(members) })
}

fn c07_case(rep: &mut Report, w: &Watch, a: &Runtype, b: &Runtype, defs: &[NamedSchema], op: &str, sample: bool) {
    let c = Case { s: a.clone(), t: b.clone(), defs: defs.to_vec(), t_first: false };
    let replay = json!({"kind": "materialise", "op": op, "a": tgen::to_json(a), "b": tgen::to_json(b), "defs": tgen::defs_to_json(defs)});
    w.begin(format!("{} of\n{}", op, case_show(&c)), replay.clone());
    let refs: Vec<&NamedSchema> = defs.iter().collect();
    let mut ctx = SemTypeContext::new();
    let computed = guard(|| {
        let x = a.to_sem_type(&refs, &mut ctx)?;
        let y = b.to_sem_type(&refs, &mut ctx)?;
        let t: Rc<SemType> = match op {
            "diff" => x.diff(&y)?,
            "intersect" => x.intersect(&y)?,
            "union" => x.union(&y)?,
            "keyof" => ctx.keyof(x)?,
            "indexed" => ctx.indexed_access(x, y)?,
            _ => unreachable!(),
        };
        let empty = t.is_empty(&mut ctx)?;
        Ok((t, empty))
    });
    let (t, empty) = match computed {
        Eng::Ok(p) => p,
        Eng::Refused(m) => {
            rep.inconclusive(&format!("engine-refused:{}", m.split(':').next().unwrap_or("")));
            w.end();
            return;
        }
        Eng::Panic(m) => {
            rep.judged(1);
            rep.violation(&format!("panic|{}|{}", op, m), "panic", format!("{} of\n{}", op, case_show(&c)), replay);
            w.end();
            return;
        }
    };
    rep.count(&format!("op:{}", op), 1);
    if empty {
        // the frontend hands `never` to code generation; the emptiness decision itself is C05's
        rep.count("result_empty", 1);
        w.end();
        // ... except where an independent reading says what T[K] is: a position of an inline list
        if op == "indexed" {
            if let Some(expected) = expected_list_index(a, b) {
                let dm0 = defs_map(defs);
                rep.count("list_index_reference_checked", 1);
                for v in probe_values(a, b, &dm0).iter() {
                    if *v == Value::Absent || matches!(v, Value::Tag(_)) {
                        continue;
                    }
                    if let Ok(true) = rm::rt_open(&expected, &dm0, v) {
                        rep.judged(1);
                        rep.violation(
                            &format!("indexed-access-into-a-list-means-something-else|loses-member|on-value|computed-never"),
                            "meaning-preserved",
                            format!("indexed of\n{}\nexpected (by position): {}\ncomputed: never\nvalue {} is a value of the expected type", case_show(&c), tgen::show(&expected), v.show()),
                            replay.clone(),
                        );
                        break;
                    }
                }
            }
        }
        return;
    }
    let name = tgen::uuid("AnyName");
    let mut counter = 0usize;
    let mat = guard(|| {
        let (head, tail) = semtype_to_runtypes(&mut ctx, &t, &name, &mut counter)?;
        Ok(Materialised { head: head.schema, tail })
    });
    w.end();
    let mat = match mat {
        Eng::Ok(m) => m,
        Eng::Refused(m) => {
            rep.inconclusive(&format!("materialisation-refused:{}", m.split(':').next().unwrap_or("")));
            return;
        }
        Eng::Panic(m) => {
            rep.judged(1);
            rep.violation(&format!("panic|materialise|{}", m), "panic", format!("{} of\n{}", op, case_show(&c)), replay);
            return;
        }
    };
    let show_mat = |m: &Materialised| -> String {
        let mut s = format!("head = {}", tgen::show(&m.head));
        for t in &m.tail {
            s.push_str(&format!("\n{} = {}", tgen::show(&Runtype::ref_(t.name.clone())), tgen::show(&t.schema)));
        }
        s
    };
    // (c) names: every reference is defined exactly once
    let mut all_defs: Defs = defs_map(defs);
    let mut names_ok = true;
    let mut seen_names = BTreeSet::new();
    for tl in &mat.tail {
        if !seen_names.insert(tl.name.clone()) || all_defs.contains_key(&tl.name) {
            rep.violation(&format!("helper-name-defined-twice|{}", op), "names", format!("{} of\n{}\n{}", op, case_show(&c), show_mat(&mat)), replay.clone());
            names_ok = false;
        }
        all_defs.insert(tl.name.clone(), tl.schema.clone());
    }
    let mut used = BTreeSet::new();
    refs_in(&mat.head, &mut used);
    for tl in &mat.tail {
        refs_in(&tl.schema, &mut used);
    }
    rep.judged(1);
    for u in &used {
        if !all_defs.contains_key(u) {
            let what = match &u.ty {
                RuntypeName::SemtypeRecursiveGenerated(_) => "generated-helper",
                RuntypeName::Address(a) if a.name == "AnyName" => "root-name",
                _ => "other",
            };
            rep.violation(&format!("reference-to-undefined-name|{}|{}", what, op), "names", format!("{} of\n{}\n{}\nundefined: {}", op, case_show(&c), show_mat(&mat), tgen::show(&Runtype::ref_(u.clone()))), replay.clone());
            names_ok = false;
        }
    }
    if !mat.tail.is_empty() {
        rep.count("with_recursive_helpers", 1);
    }
    // (b) printable: what the frontend does next
    let has_function = has_kind(&mat.head, &|k| matches!(k, RuntypeKind::Function)) || mat.tail.iter().any(|t| has_kind(&t.schema, &|k| matches!(k, RuntypeKind::Function)));
    if has_function {
        rep.violation(&format!("unprintable-construct|function|{}", op), "printable", show_mat(&mat), replay.clone());
    }
    if has_kind(&mat.head, &|k| matches!(k, RuntypeKind::AnyOf(ms) if ms.is_empty())) {
        rep.violation(&format!("unprintable-construct|empty-union|{}", op), "printable", show_mat(&mat), replay.clone());
    }
    if !names_ok {
        return;
    }
    // (a) meaning: membership in the computed semantic type vs the materialised type, value by value
    let dm = all_defs;
    let vals = probe_values(a, b, &dm);
    rep.count("values_probed", vals.len() as u64);
    let mut kinds = BTreeSet::new();
    tgen::kinds(&mat.head, &mut kinds);
    rep.distinct(format!("{}:{}", op, kinds.iter().cloned().collect::<Vec<_>>().join(",")));
    for k in &kinds {
        rep.count(&format!("materialised-kind:{}", k), 1);
    }
    let negation_in_head = has_kind(&mat.head, &|k| matches!(k, RuntypeKind::StNot(_))) || mat.tail.iter().any(|t| has_kind(&t.schema, &|k| matches!(k, RuntypeKind::StNot(_))));
    let tag_of = |v: &Value| -> &'static str {
        match v {
            Value::Absent => "absent",
            Value::Null => "null",
            Value::Bool(_) => "boolean",
            Value::Num(_) => "number",
            Value::Str(_) => "string",
            Value::Arr(_) => "list",
            Value::Obj(_) => "mapping",
            Value::Tag(_) => "bit-only-tag",
            Value::Typed(_) => "typed-array",
        }
    };
    // (operands that mention `any`: the computed type carries tag bits - function, void - that no
    // printable union member stands for; the value clause below still judges those cases)
    let any_involved = has_kind(a, &|k| matches!(k, RuntypeKind::Any)) || has_kind(b, &|k| matches!(k, RuntypeKind::Any)) || defs.iter().any(|d| has_kind(&d.schema, &|k| matches!(k, RuntypeKind::Any)));
    if any_involved {
        rep.count("round_trip_skipped_any_operand", 1);
    }
    if !negation_in_head && !any_involved {
        // the engine's own round trip: the materialised type, converted again, is the computed type
        // (this clause needs no value model, so it also covers Map / Set / typed-array / Date atoms)
        let mut rt_defs: Vec<NamedSchema> = defs.to_vec();
        rt_defs.extend(mat.tail.iter().map(|t| NamedSchema { name: t.name.clone(), schema: t.schema.clone() }));
        if !rt_defs.iter().any(|d| d.name == name) {
            rt_defs.push(NamedSchema { name: name.clone(), schema: mat.head.clone() });
        }
        let refs3: Vec<&NamedSchema> = rt_defs.iter().collect();
        w.begin_monitor_question(format!("round trip of the materialised type, {} of\n{}", op, case_show(&c)), replay.clone());
        let back = guard(|| {
            let again = mat.head.to_sem_type(&refs3, &mut ctx)?;
            // the "property is missing" marker is not a value: it is materialised as `undefined`
            // (and the `?` of the member); compare modulo the marker, allowing that `undefined`
            let marker = Rc::new(SemTypeContext::optional_prop());
            let has_marker = !t.intersect(&marker)?.is_empty(&mut ctx)?;
            let t2 = t.diff(&marker)?;
            let again2 = again.diff(&marker)?;
            let allowed = if has_marker { t2.union(&Rc::new(SemTypeContext::undefined()))? } else { t2.clone() };
            Ok((again2.is_subtype(&allowed, &mut ctx)?, t2.is_subtype(&again2, &mut ctx)?))
        });
        w.end();
        match back {
            Eng::Ok((le, ge)) => {
                rep.judged(1);
                rep.count("round_trips_checked", 1);
                if !(le && ge) {
                    rep.violation(
                        &format!("materialised-type-converts-back-to-another-type|{}|{}", op, if !ge { "loses-values" } else { "gains-values" }),
                        "meaning-preserved",
                        format!("{} of\n{}\ncomputed semantic type: {:?}\n{}\nmaterialised <: computed = {}, computed <: materialised = {}", op, case_show(&c), t, show_mat(&mat), le, ge),
                        replay.clone(),
                    );
                    return;
                }
            }
            Eng::Refused(m) => rep.inconclusive(&format!("round-trip-refused:{}", m.split(':').next().unwrap_or(""))),
            Eng::Panic(m) => {
                rep.violation(&format!("panic|round-trip|{}", m), "panic", show_mat(&mat), replay.clone());
                return;
            }
        }
    }
    // indexed access into a list by literal positions, against an independent reading of T[K]: position i
    // of [P0, .., Pn-1, ...R[]] is Pi inside the prefix and R from position n on (seeded C07-i: the first
    // rest position was read as "past the end"); closed tuples indexed past their end are left out
    if op == "indexed" {
        if let Some(expected) = expected_list_index(a, b) {
            rep.count("list_index_reference_checked", 1);
            for v in &vals {
                if *v == Value::Absent || matches!(v, Value::Tag(_)) {
                    continue;
                }
                let (want, got) = match (rm::rt_open(&expected, &dm, v), rm::st_member(&t, &ctx, v)) {
                    (Ok(x), Ok(y)) => (x, y),
                    _ => break,
                };
                rep.judged(1);
                if want != got {
                    rep.violation(
                        &format!("indexed-access-into-a-list-means-something-else|{}|on-{}", if want { "loses-member" } else { "gains-member" }, tag_of(v)),
                        "meaning-preserved",
                        format!("indexed of\n{}\nexpected (by position): {}\ncomputed: {:?}\nvalue {}: expected {}, computed type says {}", case_show(&c), tgen::show(&expected), t, v.show(), want, got),
                        replay.clone(),
                    );
                    break;
                }
            }
        }
    }
    if negation_in_head {
        // the frontend refuses such a result with a diagnostic (ensure_no_negation) unless Exclude's
        // clean-up removes the negations first (checked below)
        rep.count("materialised_with_negation", 1);
    } else {
        // the materialised type is a transliteration of the diagram: under one fixed reading of the
        // atoms both must agree on every value
        let mut first_bad: Option<(Value, bool, bool)> = None;
        let mut judged_vals = 0;
        for v in &vals {
            let want = match rm::st_member(&t, &ctx, v) {
                Ok(b) => b,
                Err(u) => {
                    rep.inconclusive(&format!("reference:{}", u.0));
                    return;
                }
            };
            let got = match rm::rt_open(&mat.head, &dm, v) {
                Ok(b) => b,
                Err(u) => {
                    rep.inconclusive(&format!("reference:{}", u.0));
                    return;
                }
            };
            judged_vals += 1;
            if got != want && first_bad.is_none() {
                first_bad = Some((v.clone(), want, got));
            }
        }
        rep.judged(judged_vals);
        if let Some((v, want, got)) = first_bad {
            rep.violation(
                &format!("materialised-type-means-something-else|{}|{}|on-{}", op, if want { "loses-member" } else { "gains-member" }, tag_of(&v)),
                "meaning-preserved",
                format!("{} of\n{}\ncomputed semantic type: {:?}\n{}\nvalue {}: in the computed type = {}, in the materialised type = {}", op, case_show(&c), t, show_mat(&mat), v.show(), want, got),
                replay.clone(),
            );
            return;
        }
    }
    // what Exclude does afterwards: remove_nots_of_intersections_and_empty_of_union, then the
    // negation check; a result that still contains a negation is refused with a diagnostic.
    // The difference is read the way the engine reads it: exact values of A that are not (open)
    // values of B; the type handed on is read exactly as well.
    // (operands with intersections are left out here: the exact reading of `A & B` is the merged
    // record, which diagram identities such as A & (A | B) = A do not preserve - C05's subject)
    let a_has_intersection = has_kind(a, &|k| matches!(k, RuntypeKind::AllOf(_))) || defs.iter().any(|d| has_kind(&d.schema, &|k| matches!(k, RuntypeKind::AllOf(_))));
    if op == "diff" && a_has_intersection {
        rep.count("exclude_check_skipped_operand_has_intersection", 1);
    } else if op == "diff" {
        let mut vals_defs: Vec<NamedSchema> = defs.to_vec();
        vals_defs.extend(mat.tail.iter().map(|t| NamedSchema { name: t.name.clone(), schema: t.schema.clone() }));
        if !vals_defs.iter().any(|d| d.name == name) {
            vals_defs.push(NamedSchema { name: name.clone(), schema: mat.head.clone() });
        }
        let refs2: Vec<&NamedSchema> = vals_defs.iter().collect();
        let cleaned = guard(|| mat.head.clone().remove_nots_of_intersections_and_empty_of_union(&refs2, &mut ctx));
        match cleaned {
            Eng::Ok(h2) => {
                let still_neg = has_kind(&h2, &|k| matches!(k, RuntypeKind::StNot(_))) || mat.tail.iter().any(|t| has_kind(&t.schema, &|k| matches!(k, RuntypeKind::StNot(_))));
                if still_neg {
                    rep.count("exclude_refused_by_negation_check", 1);
                } else {
                    rep.count("exclude_handed_to_codegen", 1);
                    let mut bad = None;
                    for v in &vals {
                        if *v == Value::Absent || matches!(v, Value::Tag(_)) {
                            continue;
                        }
                        let want = match (rm::rt_exact(a, &dm, v), rm::rt_open(b, &dm, v)) {
                            (Ok(x), Ok(y)) => x && !y,
                            _ => continue,
                        };
                        let got = match rm::rt_exact(&h2, &dm, v) {
                            Ok(g) => g,
                            Err(_) => continue,
                        };
                        rep.judged(1);
                        if want != got {
                            bad = Some((v.clone(), want, got));
                            break;
                        }
                    }
                    if let Some((v, want, got)) = bad {
                        // attribution of a lost value: is it, read structurally, also a value of ANOTHER
                        // member of the left operand's union (the recorded defect: a later member is kept
                        // only outside the earlier ones and then dropped), or is nothing covering it?
                        let cause = if !want {
                            // a gained value: is the member of the left operand it belongs to assignable
                            // to the excluded type as a whole (then Exclude has to drop the member - also
                            // in TypeScript's member-by-member reading), or only partly covered by it
                            // (the recorded defect: the member is handed on whole)?
                            let mut members = vec![];
                            top_union_members(a, &dm, &mut members, 0);
                            // (every member the value is an exact value of: if one of them is only
                            // partly covered, handing that one on whole explains the value)
                            let owners: Vec<Runtype> = members.iter().filter(|m| matches!(rm::rt_exact(m, &dm, &v), Ok(true))).cloned().collect();
                            if owners.is_empty() {
                                // the value is no exact value of the left operand at all (it carries keys the
                                // left operand does not declare): when the excluded type is an intersection,
                                // S & Not<A & B> is normalised to (A & S & Not<B>) | (S & Not<A>), the positive
                                // A is merged into S's record and survives when the negations are dropped
                                // (same root as C05-right-intersection-split-across-sides)
                                let b_has_intersection = has_kind(b, &|k| matches!(k, RuntypeKind::AllOf(_))) || defs.iter().any(|d| has_kind(&d.schema, &|k| matches!(k, RuntypeKind::AllOf(_))));
                                if b_has_intersection && matches!(rm::rt_open(a, &dm, &v), Ok(true)) {
                                    "|cause:member-of-the-excluded-intersection-merged-into-the-left-operand"
                                } else {
                                    "|cause:undecided"
                                }
                            } else {
                                let refs4: Vec<&NamedSchema> = vals_defs.iter().collect();
                                let mut all_assignable = true;
                                let mut undecided = false;
                                for m in &owners {
                                    let mut fresh = SemTypeContext::new();
                                    match guard(|| {
                                        let ms = m.to_sem_type(&refs4, &mut fresh)?;
                                        let bs = b.to_sem_type(&refs4, &mut fresh)?;
                                        ms.is_subtype(&bs, &mut fresh)
                                    }) {
                                        Eng::Ok(true) => {}
                                        Eng::Ok(false) => all_assignable = false,
                                        _ => {
                                            // the engine refuses the question (e.g. a multi-part template literal on
                                            // the right): a probe value that is an exact value of the member and no
                                            // value of the excluded type shows that the member is only partly covered
                                            if vals.iter().any(|x| matches!(rm::rt_exact(m, &dm, x), Ok(true)) && matches!(rm::rt_open(b, &dm, x), Ok(false))) {
                                                all_assignable = false;
                                            } else {
                                                undecided = true;
                                            }
                                        }
                                    }
                                }
                                if !all_assignable {
                                    "|cause:member-partly-covered"
                                } else if undecided {
                                    "|cause:undecided"
                                } else {
                                    "|cause:member-assignable-to-the-excluded-type"
                                }
                            }
                        } else if want {
                            let mut members = vec![];
                            top_union_members(a, &dm, &mut members, 0);
                            let covering = members.iter().filter(|m| !matches!(rm::rt_exact(m, &dm, &v), Ok(true)) && matches!(rm::rt_open(m, &dm, &v), Ok(true))).count();
                            if covering > 0 { "|cause:covered-by-sibling" } else { "|cause:no-covering-sibling" }
                        } else {
                            ""
                        };
                        rep.violation(
                            &format!("exclude-result-means-something-else|{}|{}|on-{}{}", if want { "loses-member" } else { "gains-member" }, if negation_in_head { "negation-dropped" } else { "no-negation" }, tag_of(&v), cause),
                            "meaning-preserved",
                            format!("Exclude of\n{}\nmaterialised: {}\nafter remove_nots_of_intersections_and_empty_of_union: {}\nvalue {}: exact value of S and not a value of T = {}, exact value of the type handed to code generation = {}", case_show(&c), show_mat(&mat), tgen::show(&h2), v.show(), want, got),
                            replay.clone(),
                        );
                    }
                }
            }
            Eng::Refused(m) => rep.inconclusive(&format!("remove-nots-refused:{}", m.split(':').next().unwrap_or(""))),
            Eng::Panic(m) => rep.violation(&format!("panic|remove-nots|{}", m), "panic", show_mat(&mat), replay.clone()),
        }
    } else if negation_in_head {
        rep.count("refused_by_negation_check", 1);
    }
    if sample {
        rep.sample(json!({"op": op, "A": tgen::show(a), "B": tgen::show(b), "materialised": show_mat(&mat), "values_compared": vals.len()}));
    }
}

fn c07(args: &Args, rep: &mut Report, w: &Watch) {
    // a restarted shard (see Watch): the report so far is carried over, the grids are not run again
    let resume_from: Option<u64> = arg_after("--resume-from").and_then(|s| s.parse().ok());
    let skips: BTreeSet<u64> = arg_after("--skip").map(|s| s.split(',').filter_map(|x| x.parse().ok()).collect()).unwrap_or_default();
    if let (Some(_), Some(path)) = (resume_from, arg_after("--carry")) {
        let v: J = serde_json::from_str(&std::fs::read_to_string(&path).expect("carry file")).expect("carry json");
        rep.load_carry(&v);
        let _ = std::fs::remove_file(&path);
    }
    if resume_from.is_none() {
        c07_grids(args, rep, w);
    }
    c07_stream(args, rep, w, resume_from.unwrap_or(0), &skips);
}

fn c07_grids(args: &Args, rep: &mut Report, w: &Watch) {
    // containers next to named types: Map / Set / list / object members, named and inline, in every
    // order of conversion (the atoms of the four kinds are numbered separately; a computed type has
    // to come back with each atom under its own kind). Judged by the engine's round trip and the
    // name clauses; the value clause says "unsupported" for Map / Set and is skipped there.
    {
        let map = |k: Runtype, v: Runtype| Runtype::new(RuntypeKind::Map(Box::new(k), Box::new(v)));
        let set = |v: Runtype| Runtype::new(RuntypeKind::Set(Box::new(v)));
        let members: Vec<(&str, Runtype)> = vec![
            ("obj", tgen::obj(vec![("v", Runtype::string(), false)], None)),
            ("obj2", tgen::obj(vec![("w", Runtype::number(), false), ("o", Runtype::null(), true)], None)),
            ("map", map(Runtype::string(), Runtype::number())),
            ("map2", map(Runtype::string(), tgen::obj(vec![("m", Runtype::boolean(), false)], None))),
            ("set", set(Runtype::string())),
            ("set2", set(tgen::obj(vec![("s", tgen::lit_n(1), false)], None))),
            ("arr", Runtype::array(Box::new(Runtype::number()))),
            ("tuple", Runtype::tuple(vec![Runtype::string(), Runtype::number()], None)),
        ];
        let mut k = 0u64;
        for i in 0..members.len() {
            for j in 0..members.len() {
                if i == j {
                    continue;
                }
                for named in 0..4 {
                    for opi in 0..3 {
                        k += 1;
                        if k % args.of != args.shard {
                            continue;
                        }
                        // named: bit 0 = the first member is a declared type, bit 1 = the second
                        let mut defs: Vec<NamedSchema> = vec![];
                        let mut mk = |idx: usize, is_named: bool, defs: &mut Vec<NamedSchema>| -> Runtype {
                            if is_named {
                                let name = tgen::uuid(&format!("T{}", members[idx].0));
                                defs.push(NamedSchema { name: name.clone(), schema: members[idx].1.clone() });
                                Runtype::ref_(name)
                            } else {
                                members[idx].1.clone()
                            }
                        };
                        let x = mk(i, named & 1 != 0, &mut defs);
                        let y = mk(j, named & 2 != 0, &mut defs);
                        let (a, b, op) = match opi {
                            0 => (tgen::raw_any_of(vec![x, y, Runtype::null()]), Runtype::null(), "diff"),
                            1 => (tgen::raw_any_of(vec![x.clone(), y.clone(), Runtype::string()]), tgen::raw_any_of(vec![x, y, Runtype::number()]), "intersect"),
                            _ => (tgen::obj(vec![("p", x, false), ("q", y, true)], None), tgen::raw_any_of(vec![tgen::lit_s("p"), tgen::lit_s("q")]), "indexed"),
                        };
                        rep.count("container_grid_cases", 1);
                        c07_case(rep, w, &a, &b, &defs, op, false);
                    }
                }
            }
        }
    }
    // probes: one recorded case per known finding that the random streams do not always reach
    if args.shard == 0 {
        for text in [include_str!("../../probes/c07_excluded_intersection_member_merged.json")] {
            let c: J = serde_json::from_str(text).expect("probe json");
            c07_case(rep, w, &tgen::from_json(&c["a"]), &tgen::from_json(&c["b"]), &tgen::defs_from_json(&c["defs"]), c["op"].as_str().unwrap(), false);
            rep.count("probes", 1);
        }
    }
}

fn c07_stream(args: &Args, rep: &mut Report, w: &Watch, from: u64, skips: &BTreeSet<u64>) {
    let n = rep.share(900_000, 12_000_000);
    for i in from..n {
        if i % 2000 == 0 || i == from {
            *SNAPSHOT.lock().unwrap() = Some(rep.snapshot());
            SNAP_INDEX.store(i, Ordering::SeqCst);
        }
        if skips.contains(&i) {
            rep.inconclusive("monitor-question-undecided-within-20s-cpu:case-left-out");
            continue;
        }
        CUR_INDEX.store(i, Ordering::SeqCst);
        let mut rng = Rng::new(args.seed, &format!("c07|{}|{}", args.shard, i));
        let ndefs = if rng.chance(2, 5) { 1 + rng.below(3) } else { 0 };
        let rng_any = rng.chance(1, 6);
        let rng_exotic = rng.chance(1, 3);
        let mut g = RandGen { rng: &mut rng, names: vec![], allow_any: rng_any, allow_tpl: true, allow_exotic: rng_exotic };
        let defs = if ndefs > 0 { g.defs(ndefs) } else { vec![] };
        let ba = 2 + g.rng.below(6);
        let a = if !defs.is_empty() && g.rng.chance(1, 3) { Runtype::ref_(defs[0].name.clone()) } else { g.ty(ba, true) };
        let op = ["diff", "diff", "diff", "intersect", "union", "keyof", "indexed", "indexed"][g.rng.below(8)];
        let b = match op {
            "diff" | "intersect" | "union" => {
                if g.rng.chance(1, 2) {
                    tgen::one_edit(g.rng, &a)
                } else {
                    let bb = 1 + g.rng.below(5);
                    g.ty(bb, true)
                }
            }
            "indexed" => match g.rng.below(5) {
                0 => Runtype::number(),
                1 => tgen::lit_n(g.rng.below(3) as i64),
                2 => tgen::lit_s(["a", "b", "c", "kind"][g.rng.below(4)]),
                3 => tgen::raw_any_of(vec![tgen::lit_s("a"), tgen::lit_s("b")]),
                _ => Runtype::string(),
            },
            _ => Runtype::null(),
        };
        c07_case(rep, w, &a, &b, &defs, op, i < 3 && args.shard == 0);
    }
}

// ================================================================================================

fn fnv(s: &str) -> u64 {
    let mut h: u64 = 0xcbf29ce484222325;
    for b in s.bytes() {
        h ^= b as u64;
        h = h.wrapping_mul(0x100000001b3);
    }
    h
}

fn main() {
    bvh::install_panic_hook();
    let args: Args = parse_args();
    // deep recursive types: run on a big stack
    let child = std::thread::Builder::new()
        .stack_size(512 << 20)
        .spawn(move || {
            let mut rep = Report::new(&args);
            if let Some(path) = &args.replay {
                let c: J = serde_json::from_str(&std::fs::read_to_string(path).expect("read replay")).expect("json");
                let violated = match (args.prop.as_str(), c["kind"].as_str().unwrap_or("")) {
                    ("C05", "pair") => c05_replay(&c),
                    (_, "materialise") => {
                        let w = Watch::start(args.prop.clone(), None, args.seed, args.tier.clone(), 0, 1);
                        c07_case(&mut rep, &w, &tgen::from_json(&c["a"]), &tgen::from_json(&c["b"]), &tgen::defs_from_json(&c["defs"]), c["op"].as_str().unwrap(), false);
                        for v in rep.violations.values() {
                            println!("{}\n{}", v["signature"].as_str().unwrap_or(""), v["detail"].as_str().unwrap_or(""));
                        }
                        !rep.violations.is_empty()
                    }
                    _ => {
                        println!("replay of this kind re-runs the deterministic stream: use --seed {} --tier {}", c["seed"], args.tier);
                        false
                    }
                };
                if violated {
                    println!("VIOLATION property={} replay={}", args.prop, path);
                    std::process::exit(1);
                }
                return;
            }
            let w = Watch::start(args.prop.clone(), args.out.clone(), args.seed, args.tier.clone(), args.shard, args.of);
            match args.prop.as_str() {
                "C05" => c05(&args, &mut rep, &w),
                "C06" => {
                    c06_layer1(&args, &mut rep);
                    c06_layer2(&args, &mut rep, &w);
                }
                "C07" => c07(&args, &mut rep, &w),
                other => panic!("unknown property {}", other),
            }
            rep.finish(&args.out, None);
        })
        .expect("spawn");
    if child.join().is_err() {
        let p = bvh::take_panic();
        eprintln!("monitor thread panicked: {:?}", p);
        std::process::exit(2);
    }
}

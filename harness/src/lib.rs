//! Shared pieces of the verification harness: a virtual project, a file manager with the same
//! semantics as beff-wasm's LazyFileManager, panic capture and per-thread CPU accounting.
pub mod refmodel;
pub mod report;
pub mod rng;
pub mod tgen;

use beff_core::swc_tools::bind_exports::{FsModuleResolver, parse_and_bind};
use beff_core::{BffFileName, FileManager, ParsedModule};
use std::cell::RefCell;
use std::collections::{BTreeMap, HashMap};
use std::rc::Rc;

/// TypeScript-style probing of a relative specifier over a set of project paths.
pub fn resolve_in(paths: &dyn Fn(&str) -> bool, current_file: &str, spec: &str) -> Option<String> {
    // a tsconfig `paths` alias of the virtual project: "@app/x" is "x" under the project root
    let aliased = spec.strip_prefix("@app/");
    if aliased.is_none() && !(spec.starts_with("./") || spec.starts_with("../") || spec == "." || spec == "..") {
        // a package name: node_modules of the importer's directory, then of every parent directory
        // (two importers in different directories may get different copies of one package)
        if spec.starts_with('/') || spec.starts_with('#') || spec.is_empty() {
            return None;
        }
        let mut dir: Vec<&str> = current_file.split('/').collect();
        dir.pop();
        loop {
            let base = if dir.is_empty() { format!("node_modules/{spec}") } else { format!("{}/node_modules/{spec}", dir.join("/")) };
            for c in [format!("{base}.ts"), format!("{base}/index.ts"), format!("{base}/index.d.ts")] {
                if paths(&c) {
                    return Some(c);
                }
            }
            if dir.is_empty() {
                return None;
            }
            dir.pop();
        }
    }
    let mut parts: Vec<&str> = if aliased.is_some() { vec![] } else { current_file.split('/').collect() };
    let spec = aliased.unwrap_or(spec);
    parts.pop();
    for seg in spec.split('/') {
        match seg {
            "." | "" => {}
            ".." => {
                parts.pop()?;
            }
            s => parts.push(s),
        }
    }
    let base = parts.join("/");
    let mut cands = vec![];
    if base.ends_with(".ts") || base.ends_with(".tsx") {
        cands.push(base.clone());
    }
    cands.push(format!("{base}.ts"));
    cands.push(format!("{base}.tsx"));
    cands.push(format!("{base}.d.ts"));
    cands.push(format!("{base}/index.ts"));
    if let Some(stripped) = base.strip_suffix(".js") {
        cands.push(format!("{stripped}.ts"));
    }
    cands.into_iter().find(|c| paths(c))
}

pub struct VResolver<'a> {
    pub files: &'a BTreeMap<String, String>,
}
impl FsModuleResolver for VResolver<'_> {
    fn resolve_import(&mut self, current_file: BffFileName, spec: &str) -> Option<BffFileName> {
        resolve_in(&|p| self.files.contains_key(p), current_file.as_str(), spec)
            .map(BffFileName::new)
    }
}

/// Same semantics as beff-wasm's LazyFileManager over a virtual disk.
pub struct VFileManager<'a> {
    pub disk: &'a BTreeMap<String, String>,
    pub cache: HashMap<BffFileName, Rc<ParsedModule>>,
    pub fetched: Vec<String>,
    pub parse_failed: Vec<String>,
}
impl<'a> VFileManager<'a> {
    pub fn new(disk: &'a BTreeMap<String, String>) -> Self {
        VFileManager {
            disk,
            cache: HashMap::new(),
            fetched: vec![],
            parse_failed: vec![],
        }
    }
}
impl FileManager for VFileManager<'_> {
    fn get_or_fetch_file(&mut self, name: &BffFileName) -> Option<Rc<ParsedModule>> {
        if let Some(it) = self.cache.get(name) {
            return Some(it.clone());
        }
        let content = self.disk.get(name.as_str())?;
        self.fetched.push(name.to_string());
        let mut resolver = VResolver { files: self.disk };
        match parse_and_bind(&mut resolver, name, content) {
            Ok(f) => {
                self.cache.insert(name.clone(), f.clone());
                Some(f)
            }
            Err(_) => {
                self.parse_failed.push(name.to_string());
                None
            }
        }
    }
    fn get_existing_file(&self, name: &BffFileName) -> Option<Rc<ParsedModule>> {
        self.cache.get(name).cloned()
    }
    fn resolve_import(&mut self, current_file: BffFileName, spec: &str) -> Option<BffFileName> {
        let mut resolver = VResolver { files: self.disk };
        resolver.resolve_import(current_file, spec)
    }
}

// ---------------------------------------------------------------------------------------------
// panic capture

#[derive(Clone, Debug, Default)]
pub struct PanicInfo {
    pub file: String,
    pub line: u32,
    pub msg: String,
}

thread_local! {
    pub static LAST_PANIC: RefCell<Option<PanicInfo>> = const { RefCell::new(None) };
}

pub fn install_panic_hook() {
    std::panic::set_hook(Box::new(|info| {
        let (file, line) = info
            .location()
            .map(|l| (l.file().to_string(), l.line()))
            .unwrap_or_default();
        let msg = if let Some(s) = info.payload().downcast_ref::<&str>() {
            s.to_string()
        } else if let Some(s) = info.payload().downcast_ref::<String>() {
            s.clone()
        } else {
            "<non-string panic payload>".to_string()
        };
        LAST_PANIC.with(|p| *p.borrow_mut() = Some(PanicInfo { file, line, msg }));
    }));
}

pub fn take_panic() -> Option<PanicInfo> {
    LAST_PANIC.with(|p| p.borrow_mut().take())
}

/// Strips the absolute prefix so that signatures do not depend on where the repo lives.
pub fn short_path(p: &str) -> String {
    match p.find("packages/") {
        Some(i) => p[i..].to_string(),
        None => match p.find(".cargo/registry/src/") {
            Some(i) => {
                let rest = &p[i + ".cargo/registry/src/".len()..];
                rest.splitn(2, '/').nth(1).unwrap_or(rest).to_string()
            }
            None => p.to_string(),
        },
    }
}

// ---------------------------------------------------------------------------------------------
// CPU time of a thread (so that machine load cannot fake a hang)

pub fn thread_cpu_ms() -> u64 {
    let mut ts = libc::timespec {
        tv_sec: 0,
        tv_nsec: 0,
    };
    unsafe {
        libc::clock_gettime(libc::CLOCK_THREAD_CPUTIME_ID, &mut ts);
    }
    (ts.tv_sec as u64) * 1000 + (ts.tv_nsec as u64) / 1_000_000
}

pub fn current_tid() -> i64 {
    unsafe { libc::syscall(libc::SYS_gettid) as i64 }
}

/// CPU ms consumed by another thread of this process, read from /proc.
pub fn tid_cpu_ms(tid: i64) -> Option<u64> {
    let s = std::fs::read_to_string(format!("/proc/self/task/{tid}/stat")).ok()?;
    let rest = &s[s.rfind(')')? + 2..];
    let f: Vec<&str> = rest.split(' ').collect();
    let ut: u64 = f.get(11)?.parse().ok()?;
    let st: u64 = f.get(12)?.parse().ok()?;
    Some((ut + st) * 10)
}

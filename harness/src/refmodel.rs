//! Reference semantics for the format-free fragment of beff's type IR (C05, C06, C07).
//!
//! It interprets the *data* of the engine (Runtype trees; SemType bitsets, allow/deny lists, decision
//! diagrams and atom tables) over concrete finite values and shares none of the engine's
//! *algorithms* (no emptiness check, no DNF, no memo tables).
//!
//! Values: JSON-like trees plus `Absent` (a property position that carries nothing; the engine's
//! OptionalProp / undefined) and `Tag(bit)` pseudo values for tags that are plain bits (bigint, Date).
//!
//! Two readings of a type, as in the statement of C05:
//!  * **Open** (`rt_open`): structural; an object may carry properties the type does not mention.
//!  * **Exact** (`rt_exact`): the value is Open-member and, at every object position, carries only
//!    properties that at least one conjunct of the type declares there (explicitly or through an index
//!    signature). For an intersection this is the merged-record reading.
use beff_core::ast::json::N;
use beff_core::ast::runtype::{Runtype, RuntypeConst, RuntypeKind, TplLitType, TplLitTypeItem};
use beff_core::subtyping::bdd::{Atom, Bdd, ListAtomic, MappingAtomicType};
use beff_core::subtyping::semtype::{SemType, SemTypeContext};
use beff_core::subtyping::subtype::{NumberRepresentationOrFormat, ProperSubtype, StringLitOrFormat, SubTypeTag, VoidUndefinedSubtype};
use beff_core::RuntypeUUID;
use std::collections::{BTreeMap, BTreeSet};
use std::rc::Rc;

#[derive(Clone, Debug, PartialEq, Eq, PartialOrd, Ord, Hash)]
pub enum Value {
    Absent,
    Null,
    Bool(bool),
    Num(i64),
    Str(String),
    Arr(Vec<Value>),
    Obj(BTreeMap<String, Value>),
    Tag(u32),
    /// an instance of one typed-array class (index into `TYPED_KINDS`); the classes are pairwise disjoint
    Typed(u8),
}

pub const TYPED_KINDS: [beff_core::ast::runtype::TypedArrayKind; 11] = {
    use beff_core::ast::runtype::TypedArrayKind::*;
    [Uint8Array, Uint8ClampedArray, Uint16Array, Uint32Array, Int8Array, Int16Array, Int32Array, Float32Array, Float64Array, BigInt64Array, BigUint64Array]
};
pub fn typed_index(k: &beff_core::ast::runtype::TypedArrayKind) -> u8 {
    TYPED_KINDS.iter().position(|x| x == k).unwrap() as u8
}

impl Value {
    pub fn show(&self) -> String {
        match self {
            Value::Absent => "<absent>".into(),
            Value::Null => "null".into(),
            Value::Bool(b) => b.to_string(),
            Value::Num(n) => n.to_string(),
            Value::Str(s) => format!("{:?}", s),
            Value::Arr(a) => format!("[{}]", a.iter().map(|x| x.show()).collect::<Vec<_>>().join(", ")),
            Value::Obj(o) => format!("{{{}}}", o.iter().map(|(k, v)| format!("{:?}: {}", k, v.show())).collect::<Vec<_>>().join(", ")),
            Value::Tag(t) => format!("<tag {}>", t),
            Value::Typed(k) => format!("<{:?}>", TYPED_KINDS[*k as usize]),
        }
    }
    pub fn depth(&self) -> usize {
        match self {
            Value::Arr(a) => 1 + a.iter().map(|x| x.depth()).max().unwrap_or(0),
            Value::Obj(o) => 1 + o.values().map(|x| x.depth()).max().unwrap_or(0),
            _ => 0,
        }
    }
}

pub type Defs = BTreeMap<RuntypeUUID, Runtype>;

#[derive(Debug, Clone)]
pub struct Unsupported(pub String);
pub type R<T> = Result<T, Unsupported>;

fn unsup<T>(what: &str) -> R<T> {
    Err(Unsupported(what.to_string()))
}

pub fn single_const(t: &TplLitType) -> Option<&str> {
    match t.0.as_slice() {
        [TplLitTypeItem::StringConst(s)] => Some(s),
        _ => None,
    }
}

/// membership of a string in a template literal type (backtracking over the items; `${number}` is
/// read the way beff emits it: digits with an optional fraction)
pub fn tpl_member(items: &[TplLitTypeItem], s: &str) -> bool {
    match items.split_first() {
        None => s.is_empty(),
        Some((first, rest)) => match first {
            TplLitTypeItem::StringConst(c) => s.starts_with(c.as_str()) && tpl_member(rest, &s[c.len()..]),
            TplLitTypeItem::String => (0..=s.len()).filter(|i| s.is_char_boundary(*i)).any(|i| tpl_member(rest, &s[i..])),
            TplLitTypeItem::Boolean => ["true", "false"].iter().any(|b| s.starts_with(b) && tpl_member(rest, &s[b.len()..])),
            TplLitTypeItem::Number => {
                let b = s.as_bytes();
                let mut i = 0;
                while i < b.len() && b[i].is_ascii_digit() {
                    i += 1;
                    if tpl_member(rest, &s[i..]) {
                        return true;
                    }
                    // optional fraction after this many integer digits
                    if i < b.len() && b[i] == b'.' {
                        let mut j = i + 1;
                        while j < b.len() && b[j].is_ascii_digit() {
                            j += 1;
                            if tpl_member(rest, &s[j..]) {
                                return true;
                            }
                        }
                    }
                }
                false
            }
            TplLitTypeItem::OneOf(alts) => alts.iter().any(|a| {
                let mut v = vec![a.clone()];
                v.extend(rest.iter().cloned());
                tpl_member(&v, s)
            }),
        },
    }
}

/// a few member strings of a template (for probing)
pub fn tpl_samples(items: &[TplLitTypeItem]) -> Vec<String> {
    let mut acc = vec![String::new()];
    for it in items {
        let alts: Vec<String> = match it {
            TplLitTypeItem::StringConst(c) => vec![c.clone()],
            TplLitTypeItem::String => vec!["".into(), "zz".into()],
            TplLitTypeItem::Number => vec!["7".into(), "1.5".into()],
            TplLitTypeItem::Boolean => vec!["true".into()],
            TplLitTypeItem::OneOf(a) => a.iter().flat_map(|x| tpl_samples(std::slice::from_ref(x))).take(3).collect(),
        };
        let mut next = vec![];
        for a in &acc {
            for b in &alts {
                next.push(format!("{}{}", a, b));
            }
        }
        next.truncate(8);
        acc = next;
    }
    acc
}

fn lookup<'a>(defs: &'a Defs, n: &RuntypeUUID) -> R<&'a Runtype> {
    defs.get(n).ok_or_else(|| Unsupported(format!("dangling-ref:{:?}", n.ty)))
}

/// the finite set of keys an index signature requires (the engine's `is_finite_string_set` reading):
/// Some(keys) for a union of string literals, None for `string` and other infinite key types
pub fn finite_keys(k: &Runtype, defs: &Defs) -> R<Option<Vec<String>>> {
    match &k.kind {
        RuntypeKind::TplLitType(t) => match single_const(t) {
            Some(s) => Ok(Some(vec![s.to_string()])),
            None => Ok(None),
        },
        RuntypeKind::AnyOf(ms) => {
            let mut out = vec![];
            for m in ms {
                match finite_keys(m, defs)? {
                    Some(ks) => out.extend(ks),
                    None => return Ok(None),
                }
            }
            Ok(Some(out))
        }
        RuntypeKind::Ref(n) => finite_keys(lookup(defs, n)?, defs),
        RuntypeKind::Never => Ok(Some(vec![])),
        _ => Ok(None),
    }
}

// ------------------------------------------------------------------------------------------------
// Open reading of a Runtype
pub fn rt_open(t: &Runtype, defs: &Defs, v: &Value) -> R<bool> {
    Ok(match &t.kind {
        RuntypeKind::Null => *v == Value::Null,
        RuntypeKind::Undefined | RuntypeKind::Void => *v == Value::Absent,
        RuntypeKind::Boolean => matches!(v, Value::Bool(_)),
        RuntypeKind::String => matches!(v, Value::Str(_)),
        RuntypeKind::Number => matches!(v, Value::Num(_)),
        RuntypeKind::Any => true,
        RuntypeKind::AnyArrayLike => matches!(v, Value::Arr(_)),
        RuntypeKind::BigInt => *v == Value::Tag(SubTypeTag::BigInt.code()),
        RuntypeKind::Date => *v == Value::Tag(SubTypeTag::Date.code()),
        RuntypeKind::TypedArray(k) => *v == Value::Typed(typed_index(k)),
        RuntypeKind::TplLitType(tpl) => match v {
            Value::Str(x) => tpl_member(&tpl.0, x),
            _ => false,
        },
        RuntypeKind::Const(RuntypeConst::Bool(b)) => *v == Value::Bool(*b),
        RuntypeKind::Const(RuntypeConst::Number(n)) => matches!(v, Value::Num(x) if N::parse_int(*x) == *n),
        RuntypeKind::Never => false,
        RuntypeKind::StNot(x) => !rt_open(x, defs, v)?,
        RuntypeKind::Ref(n) => rt_open(lookup(defs, n)?, defs, v)?,
        RuntypeKind::AnyOf(ms) => {
            for m in ms {
                if rt_open(m, defs, v)? {
                    return Ok(true);
                }
            }
            false
        }
        RuntypeKind::AllOf(ms) => {
            for m in ms {
                if !rt_open(m, defs, v)? {
                    return Ok(false);
                }
            }
            true
        }
        RuntypeKind::Array(e) => match v {
            Value::Arr(a) => {
                for x in a {
                    if !rt_open(e, defs, x)? {
                        return Ok(false);
                    }
                }
                true
            }
            _ => false,
        },
        RuntypeKind::Tuple { prefix_items, items } => match v {
            Value::Arr(a) => {
                if a.len() < prefix_items.len() || (items.is_none() && a.len() != prefix_items.len()) {
                    return Ok(false);
                }
                for (i, x) in a.iter().enumerate() {
                    let ty = if i < prefix_items.len() { &prefix_items[i] } else { items.as_ref().unwrap() };
                    if !rt_open(ty, defs, x)? {
                        return Ok(false);
                    }
                }
                true
            }
            _ => false,
        },
        RuntypeKind::Object { vs, indexed_properties } => match v {
            Value::Obj(o) => {
                for (k, ot) in vs {
                    let val = o.get(k).unwrap_or(&Value::Absent);
                    if *val == Value::Absent && !ot.is_required() {
                        continue;
                    }
                    if !rt_open(ot.inner(), defs, val)? {
                        return Ok(false);
                    }
                }
                if let Some(ip) = indexed_properties {
                    match finite_keys(&ip.key, defs)? {
                        Some(keys) => {
                            for k in keys {
                                if vs.contains_key(&k) {
                                    continue;
                                }
                                let val = o.get(&k).unwrap_or(&Value::Absent);
                                if *val == Value::Absent && !ip.value.is_required() {
                                    continue;
                                }
                                if !rt_open(ip.value.inner(), defs, val)? {
                                    return Ok(false);
                                }
                            }
                        }
                        None => {
                            for (k, val) in o {
                                if vs.contains_key(k) {
                                    continue;
                                }
                                if rt_open(&ip.key, defs, &Value::Str(k.clone()))? && !rt_open(ip.value.inner(), defs, val)? {
                                    return Ok(false);
                                }
                            }
                        }
                    }
                }
                true
            }
            _ => false,
        },
        other => return unsup(&format!("kind:{}", kind_name(other))),
    })
}

pub fn kind_name(k: &RuntypeKind) -> &'static str {
    match k {
        RuntypeKind::Null => "null",
        RuntypeKind::Undefined => "undefined",
        RuntypeKind::Void => "void",
        RuntypeKind::Boolean => "boolean",
        RuntypeKind::String => "string",
        RuntypeKind::Number => "number",
        RuntypeKind::Any => "any",
        RuntypeKind::AnyArrayLike => "anyarray",
        RuntypeKind::StringWithFormat(_) => "stringformat",
        RuntypeKind::NumberWithFormat(_) => "numberformat",
        RuntypeKind::TplLitType(_) => "tpl",
        RuntypeKind::Object { .. } => "object",
        RuntypeKind::Array(_) => "array",
        RuntypeKind::Tuple { .. } => "tuple",
        RuntypeKind::Ref(_) => "ref",
        RuntypeKind::AnyOf(_) => "anyof",
        RuntypeKind::AllOf(_) => "allof",
        RuntypeKind::Const(_) => "const",
        RuntypeKind::Never => "never",
        RuntypeKind::StNot(_) => "not",
        RuntypeKind::Function => "function",
        RuntypeKind::Date => "date",
        RuntypeKind::BigInt => "bigint",
        RuntypeKind::TypedArray(_) => "typedarray",
        RuntypeKind::Map(_, _) => "map",
        RuntypeKind::Set(_) => "set",
    }
}

// ------------------------------------------------------------------------------------------------
// Exact reading: a conjunction of types is expanded (unions branch, intersections flatten, names
// unfold) until only atoms remain; atoms are then read position by position.

/// expands the first non-atomic conjunct; calls `f` on every fully atomic conjunction until it says true
fn expand<'a>(conj: Vec<&'a Runtype>, defs: &'a Defs, fuel: usize, f: &mut dyn FnMut(&[&'a Runtype]) -> R<bool>) -> R<bool> {
    if fuel == 0 {
        return unsup("expansion-fuel");
    }
    for (i, t) in conj.iter().enumerate() {
        match &t.kind {
            RuntypeKind::AnyOf(ms) => {
                for m in ms {
                    let mut c = conj.clone();
                    c[i] = m;
                    if expand(c, defs, fuel - 1, f)? {
                        return Ok(true);
                    }
                }
                return Ok(false);
            }
            RuntypeKind::AllOf(ms) => {
                let mut c = conj.clone();
                c.remove(i);
                for m in ms {
                    c.push(m);
                }
                return expand(c, defs, fuel - 1, f);
            }
            RuntypeKind::Ref(n) => {
                let mut c = conj.clone();
                c[i] = lookup(defs, n)?;
                return expand(c, defs, fuel - 1, f);
            }
            _ => {}
        }
    }
    f(&conj)
}

/// what an object atom declares for key k: None = nothing (not mentioned), Some((type, optional))
fn declared<'a>(atom: &'a Runtype, defs: &Defs, k: &str) -> R<Option<(&'a Runtype, bool)>> {
    if let RuntypeKind::Object { vs, indexed_properties } = &atom.kind {
        if let Some(ot) = vs.get(k) {
            return Ok(Some((ot.inner(), !ot.is_required())));
        }
        if let Some(ip) = indexed_properties {
            return Ok(match finite_keys(&ip.key, defs)? {
                Some(keys) => {
                    if keys.iter().any(|x| x == k) {
                        Some((ip.value.inner(), !ip.value.is_required()))
                    } else {
                        None
                    }
                }
                None => {
                    if rt_open(&ip.key, defs, &Value::Str(k.to_string()))? {
                        Some((ip.value.inner(), true))
                    } else {
                        None
                    }
                }
            });
        }
    }
    Ok(None)
}

fn explicit_keys(atom: &Runtype, defs: &Defs) -> R<Vec<String>> {
    let mut out = vec![];
    if let RuntypeKind::Object { vs, indexed_properties } = &atom.kind {
        out.extend(vs.keys().cloned());
        if let Some(ip) = indexed_properties
            && let Some(keys) = finite_keys(&ip.key, defs)?
        {
            out.extend(keys);
        }
    }
    Ok(out)
}

fn elem_type<'a>(atom: &'a Runtype, i: usize) -> Option<&'a Runtype> {
    match &atom.kind {
        RuntypeKind::Array(e) => Some(e),
        RuntypeKind::Tuple { prefix_items, items } => {
            if i < prefix_items.len() {
                Some(&prefix_items[i])
            } else {
                items.as_deref()
            }
        }
        _ => None,
    }
}

fn any_ref() -> &'static Runtype {
    thread_local! {
        static A: &'static Runtype = Box::leak(Box::new(Runtype::any()));
    }
    A.with(|a| *a)
}

pub fn rt_exact(t: &Runtype, defs: &Defs, v: &Value) -> R<bool> {
    exact_conj(vec![t], defs, v)
}

fn exact_conj(conj: Vec<&Runtype>, defs: &Defs, v: &Value) -> R<bool> {
    expand(conj, defs, 64, &mut |atoms| exact_atoms(atoms, defs, v))
}

fn exact_atoms(atoms: &[&Runtype], defs: &Defs, v: &Value) -> R<bool> {
    match v {
        Value::Obj(o) => {
            let mut any_atom = false;
            for a in atoms {
                match &a.kind {
                    RuntypeKind::Object { .. } => {}
                    RuntypeKind::Any => any_atom = true,
                    RuntypeKind::StNot(_) => return unsup("negation-in-exact-position"),
                    _ => return Ok(false),
                }
            }
            let mut keys: BTreeSet<String> = o.keys().cloned().collect();
            for a in atoms {
                keys.extend(explicit_keys(a, defs)?);
            }
            for k in keys {
                let mut tys: Vec<&Runtype> = vec![];
                let mut must_be_present = false;
                for a in atoms {
                    if let Some((ty, optional)) = declared(a, defs, &k)? {
                        tys.push(ty);
                        if !optional {
                            must_be_present = true;
                        }
                    }
                }
                match o.get(&k) {
                    Some(val) => {
                        if tys.is_empty() {
                            if any_atom {
                                continue;
                            }
                            return Ok(false); // carries a property nothing declares
                        }
                        if !exact_conj(tys, defs, val)? {
                            return Ok(false);
                        }
                    }
                    None => {
                        if must_be_present {
                            // a required property may still admit "nothing" through its type (any)
                            for ty in &tys {
                                if !rt_open(ty, defs, &Value::Absent)? {
                                    return Ok(false);
                                }
                            }
                        }
                    }
                }
            }
            Ok(true)
        }
        Value::Arr(a) => {
            for at in atoms {
                match &at.kind {
                    RuntypeKind::Array(_) | RuntypeKind::AnyArrayLike | RuntypeKind::Any => {}
                    RuntypeKind::Tuple { prefix_items, items } => {
                        if a.len() < prefix_items.len() || (items.is_none() && a.len() != prefix_items.len()) {
                            return Ok(false);
                        }
                    }
                    RuntypeKind::StNot(_) => return unsup("negation-in-exact-position"),
                    _ => return Ok(false),
                }
            }
            for (i, x) in a.iter().enumerate() {
                let tys: Vec<&Runtype> = atoms.iter().map(|at| elem_type(at, i).unwrap_or(any_ref())).collect();
                if !exact_conj(tys, defs, x)? {
                    return Ok(false);
                }
            }
            Ok(true)
        }
        _ => {
            for a in atoms {
                if !rt_open(a, defs, v)? {
                    return Ok(false);
                }
            }
            Ok(true)
        }
    }
}

// ------------------------------------------------------------------------------------------------
// Witness universe: exact values of a type, one representative per class the pair can distinguish

#[derive(Default, Debug, Clone)]
pub struct Lits {
    pub nums: BTreeSet<i64>,
    pub strs: BTreeSet<String>,
    pub keys: BTreeSet<String>,
    pub max_prefix: usize,
    pub objects: usize,
    pub lists: usize,
}

impl Lits {
    pub fn collect(&mut self, t: &Runtype, defs: &Defs, seen: &mut BTreeSet<RuntypeUUID>) {
        match &t.kind {
            RuntypeKind::Const(RuntypeConst::Number(n)) => {
                self.nums.insert(n.to_f64() as i64);
            }
            RuntypeKind::TplLitType(tpl) => {
                if let Some(s) = single_const(tpl) {
                    self.strs.insert(s.to_string());
                } else {
                    self.strs.extend(tpl_samples(&tpl.0));
                }
            }
            RuntypeKind::Object { vs, indexed_properties } => {
                self.objects += 1;
                for (k, ot) in vs {
                    self.keys.insert(k.clone());
                    self.collect(ot.inner(), defs, seen);
                }
                if let Some(ip) = indexed_properties {
                    if let Ok(Some(keys)) = finite_keys(&ip.key, defs) {
                        self.keys.extend(keys);
                    }
                    self.collect(&ip.key, defs, seen);
                    self.collect(ip.value.inner(), defs, seen);
                }
            }
            RuntypeKind::Array(e) => {
                self.lists += 1;
                self.collect(e, defs, seen);
            }
            RuntypeKind::Tuple { prefix_items, items } => {
                self.lists += 1;
                self.max_prefix = self.max_prefix.max(prefix_items.len());
                for p in prefix_items {
                    self.collect(p, defs, seen);
                }
                if let Some(i) = items {
                    self.collect(i, defs, seen);
                }
            }
            RuntypeKind::AnyOf(ms) | RuntypeKind::AllOf(ms) => {
                for m in ms {
                    self.collect(m, defs, seen);
                }
            }
            RuntypeKind::StNot(x) => self.collect(x, defs, seen),
            RuntypeKind::Ref(n) => {
                if seen.insert(n.clone())
                    && let Some(d) = defs.get(n)
                {
                    self.collect(d, defs, seen);
                }
            }
            _ => {}
        }
    }
}

pub struct Enumerator<'a> {
    pub defs: &'a Defs,
    pub lits: &'a Lits,
    /// fresh extra keys / extra list length beyond the mentioned ones
    pub fresh: usize,
    pub cap: usize,
    /// set when a cap or the unfolding depth cut the enumeration short
    pub truncated: bool,
    pub produced: usize,
}

pub const FRESH_NUM: i64 = 7777;
pub const FRESH_STR: &str = "\u{1}fresh";

impl<'a> Enumerator<'a> {
    pub fn new(defs: &'a Defs, lits: &'a Lits, fresh: usize, cap: usize) -> Self {
        Enumerator { defs, lits, fresh, cap, truncated: false, produced: 0 }
    }

    /// exact values of the conjunction `conj`; `depth` bounds the unfolding of names
    pub fn values(&mut self, conj: Vec<&'a Runtype>, depth: usize) -> R<Vec<Value>> {
        let mut out: Vec<Value> = vec![];
        let mut seen: std::collections::HashSet<Value> = std::collections::HashSet::new();
        let mut atomics: Vec<Vec<&'a Runtype>> = vec![];
        self.expand_all(conj, depth, &mut atomics, 64)?;
        for atoms in atomics {
            for v in self.atom_values(&atoms, depth)? {
                if seen.insert(v.clone()) {
                    out.push(v);
                }
            }
            if out.len() > self.cap {
                self.truncated = true;
                out.truncate(self.cap);
                break;
            }
        }
        Ok(out)
    }

    fn expand_all(&mut self, conj: Vec<&'a Runtype>, depth: usize, out: &mut Vec<Vec<&'a Runtype>>, fuel: usize) -> R<()> {
        if fuel == 0 || out.len() > 256 {
            self.truncated = true;
            return Ok(());
        }
        for (i, t) in conj.iter().enumerate() {
            match &t.kind {
                RuntypeKind::AnyOf(ms) => {
                    for m in ms {
                        let mut c = conj.clone();
                        c[i] = m;
                        self.expand_all(c, depth, out, fuel - 1)?;
                    }
                    return Ok(());
                }
                RuntypeKind::AllOf(ms) => {
                    let mut c = conj.clone();
                    c.remove(i);
                    for m in ms {
                        c.push(m);
                    }
                    return self.expand_all(c, depth, out, fuel - 1);
                }
                RuntypeKind::Ref(n) => {
                    let mut c = conj.clone();
                    c[i] = lookup(self.defs, n)?;
                    return self.expand_all(c, depth, out, fuel - 1);
                }
                _ => {}
            }
        }
        out.push(conj);
        Ok(())
    }

    fn product(&mut self, dims: Vec<Vec<Value>>) -> Vec<Vec<Value>> {
        let mut acc: Vec<Vec<Value>> = vec![vec![]];
        for d in dims {
            let mut next = vec![];
            'outer: for a in &acc {
                for x in &d {
                    let mut b = a.clone();
                    b.push(x.clone());
                    next.push(b);
                    self.produced += 1;
                    if next.len() > self.cap {
                        self.truncated = true;
                        break 'outer;
                    }
                }
            }
            acc = next;
        }
        acc
    }

    fn atom_values(&mut self, atoms: &[&'a Runtype], depth: usize) -> R<Vec<Value>> {
        if atoms.is_empty() {
            return unsup("unconstrained-position");
        }
        // global work budget: beyond it the universe is declared truncated (=> inconclusive `no`s)
        if self.produced > 300_000 {
            self.truncated = true;
            return Ok(vec![]);
        }
        let first = atoms[0];
        let all_obj = atoms.iter().all(|a| matches!(a.kind, RuntypeKind::Object { .. }));
        let all_list = atoms.iter().all(|a| matches!(a.kind, RuntypeKind::Array(_) | RuntypeKind::Tuple { .. } | RuntypeKind::AnyArrayLike));
        if all_obj {
            if depth == 0 {
                self.truncated = true;
                return Ok(vec![]);
            }
            let mut keys: BTreeSet<String> = BTreeSet::new();
            for a in atoms {
                keys.extend(explicit_keys(a, self.defs)?);
            }
            // keys an index signature could admit: the mentioned ones and `fresh` new ones
            let has_open_index = atoms.iter().any(|a| matches!(&a.kind, RuntypeKind::Object { indexed_properties: Some(ip), .. } if matches!(finite_keys(&ip.key, self.defs), Ok(None))));
            let mut extra: Vec<String> = vec![];
            if has_open_index {
                for k in &self.lits.keys {
                    if !keys.contains(k) {
                        extra.push(k.clone());
                    }
                }
                for i in 0..self.fresh {
                    extra.push(format!("\u{1}k{}", i));
                }
            }
            let mut names: Vec<String> = vec![];
            let mut dims: Vec<Vec<Value>> = vec![];
            for k in keys.iter().chain(extra.iter()) {
                let mut tys: Vec<&'a Runtype> = vec![];
                let mut required = false;
                for a in atoms {
                    if let Some((ty, optional)) = declared(a, self.defs, k)? {
                        tys.push(ty);
                        if !optional {
                            required = true;
                        }
                    }
                }
                if tys.is_empty() {
                    continue;
                }
                let mut cands = self.values(tys.clone(), depth - 1)?;
                if !required {
                    cands.insert(0, Value::Absent);
                } else {
                    let mut admits_absent = true;
                    for ty in &tys {
                        if !rt_open(ty, self.defs, &Value::Absent)? {
                            admits_absent = false;
                        }
                    }
                    if admits_absent {
                        cands.insert(0, Value::Absent);
                    }
                }
                if cands.is_empty() {
                    return Ok(vec![]); // a required property without values: no object at all
                }
                names.push(k.clone());
                dims.push(cands);
            }
            let rows = self.product(dims);
            let mut out = vec![];
            for row in rows {
                let mut o = BTreeMap::new();
                for (k, v) in names.iter().zip(row) {
                    if v != Value::Absent {
                        o.insert(k.clone(), v);
                    }
                }
                out.push(Value::Obj(o));
            }
            self.produced += out.len();
            return Ok(out);
        }
        if all_list {
            if depth == 0 {
                self.truncated = true;
                return Ok(vec![]);
            }
            let mut min_len = 0;
            let mut max_len: Option<usize> = None;
            for a in atoms {
                if let RuntypeKind::Tuple { prefix_items, items } = &a.kind {
                    min_len = min_len.max(prefix_items.len());
                    if items.is_none() {
                        max_len = Some(max_len.map(|m| m.min(prefix_items.len())).unwrap_or(prefix_items.len()));
                    }
                }
            }
            let hi = max_len.unwrap_or(min_len.max(self.lits.max_prefix) + self.fresh);
            let mut out = vec![];
            for len in min_len..=hi {
                if let Some(m) = max_len
                    && len > m
                {
                    break;
                }
                let mut dims = vec![];
                let mut dead = false;
                for i in 0..len {
                    let tys: Vec<&'a Runtype> = atoms.iter().map(|at| elem_type(at, i).unwrap_or(any_ref())).collect();
                    if tys.iter().all(|t| matches!(t.kind, RuntypeKind::Any)) {
                        return unsup("unconstrained-position");
                    }
                    let tys: Vec<&'a Runtype> = tys.into_iter().filter(|t| !matches!(t.kind, RuntypeKind::Any)).collect();
                    let c = self.values(tys, depth - 1)?;
                    if c.is_empty() {
                        dead = true;
                        break;
                    }
                    dims.push(c);
                }
                if dead {
                    continue;
                }
                for row in self.product(dims) {
                    out.push(Value::Arr(row));
                }
                if out.len() > self.cap {
                    self.truncated = true;
                    break;
                }
            }
            self.produced += out.len();
            return Ok(out);
        }
        // primitives: candidates of the first atom, filtered by the others
        let cands: Vec<Value> = match &first.kind {
            RuntypeKind::Null => vec![Value::Null],
            RuntypeKind::Boolean => vec![Value::Bool(true), Value::Bool(false)],
            RuntypeKind::Const(RuntypeConst::Bool(b)) => vec![Value::Bool(*b)],
            RuntypeKind::Const(RuntypeConst::Number(n)) => vec![Value::Num(n.to_f64() as i64)],
            RuntypeKind::Number => self.lits.nums.iter().map(|n| Value::Num(*n)).chain(std::iter::once(Value::Num(FRESH_NUM))).collect(),
            RuntypeKind::String => self.lits.strs.iter().map(|s| Value::Str(s.clone())).chain(std::iter::once(Value::Str(FRESH_STR.to_string()))).collect(),
            RuntypeKind::TplLitType(t) => match single_const(t) {
                Some(s) => vec![Value::Str(s.to_string())],
                None => {
                    self.truncated = true; // samples only
                    tpl_samples(&t.0).into_iter().map(Value::Str).collect()
                }
            },
            RuntypeKind::Never => vec![],
            RuntypeKind::Object { .. } | RuntypeKind::Array(_) | RuntypeKind::Tuple { .. } | RuntypeKind::AnyArrayLike => vec![], // mixed with a different kind: empty
            RuntypeKind::Undefined | RuntypeKind::Void => vec![Value::Absent],
            RuntypeKind::BigInt => vec![Value::Tag(SubTypeTag::BigInt.code())],
            RuntypeKind::Date => vec![Value::Tag(SubTypeTag::Date.code())],
            RuntypeKind::TypedArray(k) => vec![Value::Typed(typed_index(k))],
            other => return unsup(&format!("enumerate:{}", kind_name(other))),
        };
        let mut out = vec![];
        for c in cands {
            let mut ok = true;
            for a in &atoms[1..] {
                if !rt_open(a, self.defs, &c)? {
                    ok = false;
                    break;
                }
            }
            if ok {
                out.push(c);
            }
        }
        self.produced += out.len();
        Ok(out)
    }
}

// ------------------------------------------------------------------------------------------------
// Membership in a SemType, read from the engine's tables (Open reading of atoms)

pub fn st_member(t: &SemType, ctx: &SemTypeContext, v: &Value) -> R<bool> {
    let tag = match v {
        Value::Absent => SubTypeTag::OptionalProp,
        Value::Null => SubTypeTag::Null,
        Value::Bool(_) => SubTypeTag::Boolean,
        Value::Num(_) => SubTypeTag::Number,
        Value::Str(_) => SubTypeTag::String,
        Value::Arr(_) => SubTypeTag::List,
        Value::Obj(_) => SubTypeTag::Mapping,
        Value::Tag(bit) => {
            return Ok((t.all & bit) != 0);
        }
        Value::Typed(_) => SubTypeTag::TypedArray,
    };
    if (t.all & tag.code()) != 0 {
        return Ok(true);
    }
    // `undefined` stands for "nothing here" as well (it is what OptionalProp is materialised as)
    if *v == Value::Absent && (t.all & SubTypeTag::VoidUndefined.code()) != 0 {
        return Ok(true);
    }
    for s in &t.subtype_data {
        match (s.as_ref(), v) {
            (ProperSubtype::Boolean(b), Value::Bool(x)) => return Ok(b == x),
            (ProperSubtype::Number { allowed, values }, Value::Num(x)) => {
                let mut found = false;
                for val in values {
                    match val {
                        NumberRepresentationOrFormat::Lit(n) => {
                            if *n == N::parse_int(*x) {
                                found = true;
                            }
                        }
                        NumberRepresentationOrFormat::Format(_) => return unsup("number-format"),
                    }
                }
                return Ok(found == *allowed);
            }
            (ProperSubtype::String { allowed, values }, Value::Str(x)) => {
                let mut found = false;
                for val in values {
                    match val {
                        StringLitOrFormat::Tpl(tpl) => {
                            if tpl_member(&tpl.0, x) {
                                found = true;
                            }
                        }
                        StringLitOrFormat::Format(_) => return unsup("string-format"),
                    }
                }
                return Ok(found == *allowed);
            }
            (ProperSubtype::Mapping(bdd), Value::Obj(_)) => return eval_bdd(bdd, ctx, v),
            (ProperSubtype::List(bdd), Value::Arr(_)) => return eval_bdd(bdd, ctx, v),
            (ProperSubtype::TypedArray { allowed, values }, Value::Typed(k)) => {
                return Ok(values.contains(&TYPED_KINDS[*k as usize]) == *allowed);
            }
            (ProperSubtype::VoidUndefined { allowed, values }, Value::Absent) => {
                // `undefined` materialises "nothing here": read on the Absent pseudo value
                let has = values.contains(&VoidUndefinedSubtype::Undefined) || values.contains(&VoidUndefinedSubtype::Void);
                if has == *allowed {
                    return Ok(true);
                }
            }
            _ => {}
        }
    }
    Ok(false)
}

pub fn eval_bdd(b: &Rc<Bdd>, ctx: &SemTypeContext, v: &Value) -> R<bool> {
    match b.as_ref() {
        Bdd::True => Ok(true),
        Bdd::False => Ok(false),
        Bdd::Node { atom, left, middle, right } => {
            if eval_bdd(middle, ctx, v)? {
                return Ok(true);
            }
            if atom_member(atom, ctx, v)? { eval_bdd(left, ctx, v) } else { eval_bdd(right, ctx, v) }
        }
    }
}

pub fn st_finite_keys(k: &SemType) -> R<Option<Vec<String>>> {
    if (k.all & SubTypeTag::String.code()) != 0 {
        return Ok(None);
    }
    let mut out = vec![];
    for s in &k.subtype_data {
        if let ProperSubtype::String { allowed, values } = s.as_ref() {
            if !allowed {
                return Ok(None);
            }
            for val in values {
                match val {
                    StringLitOrFormat::Tpl(tpl) => match single_const(tpl) {
                        Some(s) => out.push(s.to_string()),
                        None => return unsup("template"),
                    },
                    StringLitOrFormat::Format(_) => return Ok(None),
                }
            }
        }
    }
    Ok(Some(out))
}

pub fn mapping_atom_member(m: &MappingAtomicType, ctx: &SemTypeContext, v: &Value) -> R<bool> {
    let o = match v {
        Value::Obj(o) => o,
        _ => return Ok(false),
    };
    for (k, ty) in &m.vs {
        if !st_member(ty, ctx, o.get(k).unwrap_or(&Value::Absent))? {
            return Ok(false);
        }
    }
    if let Some(ip) = &m.indexed_properties {
        match st_finite_keys(&ip.key)? {
            Some(keys) => {
                for k in keys {
                    if m.vs.contains_key(&k) {
                        continue;
                    }
                    if !st_member(&ip.value, ctx, o.get(&k).unwrap_or(&Value::Absent))? {
                        return Ok(false);
                    }
                }
            }
            None => {
                for (k, val) in o {
                    if m.vs.contains_key(k) {
                        continue;
                    }
                    if st_member(&ip.key, ctx, &Value::Str(k.clone()))? && !st_member(&ip.value, ctx, val)? {
                        return Ok(false);
                    }
                }
            }
        }
    }
    Ok(true)
}

pub fn list_atom_member(l: &ListAtomic, ctx: &SemTypeContext, v: &Value) -> R<bool> {
    let a = match v {
        Value::Arr(a) => a,
        _ => return Ok(false),
    };
    if a.len() < l.prefix_items.len() {
        return Ok(false);
    }
    for (i, x) in a.iter().enumerate() {
        let ty = if i < l.prefix_items.len() { &l.prefix_items[i] } else { &l.items };
        if !st_member(ty, ctx, x)? {
            return Ok(false);
        }
    }
    Ok(true)
}

pub fn atom_member(atom: &Atom, ctx: &SemTypeContext, v: &Value) -> R<bool> {
    match atom {
        Atom::Mapping(i) => match ctx.mapping_definitions.get(*i) {
            Some(Some(m)) => mapping_atom_member(m, ctx, v),
            _ => unsup("dangling-mapping-atom"),
        },
        Atom::List(i) => match ctx.list_definitions.get(*i) {
            Some(Some(l)) => list_atom_member(l, ctx, v),
            _ => unsup("dangling-list-atom"),
        },
        _ => unsup("map/set-atom"),
    }
}

/// one-step variations of a value (for values outside a type)
pub fn mutants(v: &Value, lits: &Lits, out: &mut Vec<Value>, budget: usize) {
    if out.len() >= budget {
        return;
    }
    let leafs = |out: &mut Vec<Value>| {
        out.push(Value::Null);
        out.push(Value::Bool(true));
        out.push(Value::Num(FRESH_NUM));
        out.push(Value::Str(FRESH_STR.to_string()));
        for n in lits.nums.iter().take(3) {
            out.push(Value::Num(*n));
        }
        for s in lits.strs.iter().take(3) {
            out.push(Value::Str(s.clone()));
        }
    };
    match v {
        Value::Arr(a) => {
            let mut shorter = a.clone();
            if shorter.pop().is_some() {
                out.push(Value::Arr(shorter));
            }
            let mut longer = a.clone();
            longer.push(Value::Num(FRESH_NUM));
            out.push(Value::Arr(longer));
            let mut longer = a.clone();
            longer.push(Value::Null);
            out.push(Value::Arr(longer));
            for i in 0..a.len().min(3) {
                let mut inner = vec![];
                mutants(&a[i], lits, &mut inner, 6);
                for m in inner {
                    if m == Value::Absent {
                        continue;
                    }
                    let mut b = a.clone();
                    b[i] = m;
                    out.push(Value::Arr(b));
                }
            }
            out.push(Value::Obj(BTreeMap::new()));
        }
        Value::Obj(o) => {
            for k in o.keys() {
                let mut p = o.clone();
                p.remove(k);
                out.push(Value::Obj(p));
            }
            for k in lits.keys.iter().take(4).cloned().chain(std::iter::once("\u{1}x".to_string())) {
                if !o.contains_key(&k) {
                    for val in [Value::Num(FRESH_NUM), Value::Str(FRESH_STR.to_string()), Value::Null] {
                        let mut p = o.clone();
                        p.insert(k.clone(), val);
                        out.push(Value::Obj(p));
                    }
                }
            }
            for (k, val) in o.iter().take(3) {
                let mut inner = vec![];
                mutants(val, lits, &mut inner, 6);
                for m in inner {
                    let mut p = o.clone();
                    if m == Value::Absent {
                        p.remove(k);
                    } else {
                        p.insert(k.clone(), m);
                    }
                    out.push(Value::Obj(p));
                }
            }
            out.push(Value::Arr(vec![]));
        }
        _ => {
            leafs(out);
            out.push(Value::Arr(vec![]));
            out.push(Value::Obj(BTreeMap::new()));
        }
    }
}

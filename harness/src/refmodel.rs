// filled in later

//! Generators of beff Runtype IR for the semantic monitors: a bounded-exhaustive stream over a
//! small alphabet, random types with named (mutually) recursive definitions, and one-edit variants.
use crate::rng::Rng;
use beff_core::ast::runtype::{IndexedProperty, Optionality, Runtype, RuntypeConst, RuntypeKind};
use beff_core::{BffFileName, NamedSchema, RuntypeName, RuntypeUUID, TypeAddress};
use std::collections::{BTreeMap, BTreeSet};

pub fn uuid(name: &str) -> RuntypeUUID {
    RuntypeUUID {
        ty: RuntypeName::Address(TypeAddress { file: BffFileName::new("semmon.ts".into()), name: name.to_string() }),
        type_arguments: vec![],
    }
}

pub fn lit_s(s: &str) -> Runtype {
    Runtype::single_string_const(s)
}
pub fn lit_n(n: i64) -> Runtype {
    Runtype::const_(RuntypeConst::parse_int(n))
}
pub fn lit_b(b: bool) -> Runtype {
    Runtype::const_(RuntypeConst::Bool(b))
}
pub fn raw_all_of(ms: Vec<Runtype>) -> Runtype {
    Runtype::new(RuntypeKind::AllOf(BTreeSet::from_iter(ms)))
}
pub fn raw_any_of(ms: Vec<Runtype>) -> Runtype {
    Runtype::new(RuntypeKind::AnyOf(BTreeSet::from_iter(ms)))
}
pub fn obj(props: Vec<(&str, Runtype, bool)>, index: Option<(Runtype, Runtype, bool)>) -> Runtype {
    let vs: BTreeMap<String, Optionality<Runtype>> = props.into_iter().map(|(k, t, opt)| (k.to_string(), if opt { t.optional() } else { t.required() })).collect();
    Runtype::new(RuntypeKind::Object {
        vs,
        indexed_properties: index.map(|(k, v, opt)| Box::new(IndexedProperty { key: k, value: if opt { v.optional() } else { v.required() } })),
    })
}

pub fn leaves() -> Vec<Runtype> {
    vec![Runtype::null(), Runtype::boolean(), lit_b(true), Runtype::number(), lit_n(1), Runtype::string(), lit_s("a"), obj(vec![], None), Runtype::tuple(vec![], None)]
}

/// every type of exactly `size` nodes over the alphabet (memoised by the caller)
pub fn exhaustive(size: usize, memo: &mut Vec<Vec<Runtype>>) -> Vec<Runtype> {
    while memo.len() <= size {
        let n = memo.len();
        let out = if n == 0 {
            vec![]
        } else if n == 1 {
            leaves()
        } else {
            let mut out: Vec<Runtype> = vec![];
            for x in &memo[n - 1] {
                out.push(Runtype::array(Box::new(x.clone())));
                out.push(Runtype::tuple(vec![x.clone()], None));
                out.push(obj(vec![("a", x.clone(), false)], None));
                out.push(obj(vec![("a", x.clone(), true)], None));
                out.push(obj(vec![], Some((Runtype::string(), x.clone(), false))));
                out.push(obj(vec![], Some((raw_any_of(vec![lit_s("a"), lit_s("b")]), x.clone(), false))));
            }
            for i in 1..n - 1 {
                let j = n - 1 - i;
                for x in &memo[i] {
                    for y in &memo[j] {
                        if (i, x) < (j, y) {
                            out.push(raw_any_of(vec![x.clone(), y.clone()]));
                            out.push(raw_all_of(vec![x.clone(), y.clone()]));
                        }
                        out.push(Runtype::tuple(vec![x.clone(), y.clone()], None));
                        out.push(Runtype::tuple(vec![x.clone()], Some(Box::new(y.clone()))));
                        out.push(obj(vec![("a", x.clone(), false), ("b", y.clone(), false)], None));
                        out.push(obj(vec![("a", x.clone(), false), ("b", y.clone(), true)], None));
                        out.push(obj(vec![("a", x.clone(), false)], Some((Runtype::string(), y.clone(), false))));
                    }
                }
            }
            out
        };
        memo.push(out);
    }
    memo[size].clone()
}

pub struct RandGen<'a> {
    pub rng: &'a mut Rng,
    /// names that may be referenced (definitions are produced by `defs`)
    pub names: Vec<String>,
    pub allow_any: bool,
    pub allow_tpl: bool,
    /// typed arrays, bigint and Date as leaves
    pub allow_exotic: bool,
}

const KEYS: [&str; 4] = ["a", "b", "c", "kind"];

impl RandGen<'_> {
    pub fn leaf(&mut self) -> Runtype {
        if self.allow_tpl && self.rng.chance(1, 8) {
            use beff_core::ast::runtype::{TplLitType, TplLitTypeItem as I};
            let c = |s: &str| I::StringConst(s.to_string());
            let items = match self.rng.below(4) {
                0 => vec![c("a"), I::String],
                1 => vec![I::Number, c("px")],
                2 => vec![I::one_of(vec![c("x"), c("y")]), c("-"), I::Boolean],
                _ => vec![c("id-"), I::Number],
            };
            return Runtype::tpl_lit_type(TplLitType(items));
        }
        if self.allow_exotic && self.rng.chance(1, 7) {
            // leaves whose values are class instances: the typed-array classes (pairwise disjoint), bigint, Date
            return match self.rng.below(8) {
                0 => Runtype::new(RuntypeKind::BigInt),
                1 => Runtype::new(RuntypeKind::Date),
                // the first four kinds more often, so that two operands meet on neighbouring kinds
                2 | 3 | 4 | 5 => Runtype::typed_array(crate::refmodel::TYPED_KINDS[self.rng.below(4)]),
                _ => Runtype::typed_array(crate::refmodel::TYPED_KINDS[self.rng.below(11)]),
            };
        }
        match self.rng.below(12) {
            0 => Runtype::null(),
            1 => Runtype::boolean(),
            2 => lit_b(self.rng.chance(1, 2)),
            3 | 4 => Runtype::number(),
            5 => lit_n(1 + self.rng.below(3) as i64),
            6 | 7 => Runtype::string(),
            8 | 9 => lit_s(["a", "b", "c"][self.rng.below(3)]),
            10 => {
                if self.allow_any && self.rng.chance(1, 3) {
                    Runtype::any()
                } else {
                    Runtype::number()
                }
            }
            _ => Runtype::null(),
        }
    }

    pub fn ty(&mut self, budget: usize, guarded: bool) -> Runtype {
        if budget <= 1 {
            if guarded && !self.names.is_empty() && self.rng.chance(1, 3) {
                let n = self.rng.pick(&self.names).clone();
                return Runtype::ref_(uuid(&n));
            }
            return self.leaf();
        }
        match self.rng.below(12) {
            0 => Runtype::array(Box::new(self.ty(budget - 1, true))),
            1 => {
                let n = 1 + self.rng.below(3);
                let each = (budget - 1) / n;
                let prefix = (0..n).map(|_| self.ty(each.max(1), true)).collect();
                let rest = if self.rng.chance(1, 3) { Some(Box::new(self.ty(each.max(1), true))) } else { None };
                Runtype::tuple(prefix, rest)
            }
            2..=4 => {
                let n = 1 + self.rng.below(3);
                let each = ((budget - 1) / n).max(1);
                let mut props = vec![];
                let mut used = vec![];
                for _ in 0..n {
                    let k = *self.rng.pick(&KEYS);
                    if used.contains(&k) {
                        continue;
                    }
                    used.push(k);
                    props.push((k, self.ty(each, true), self.rng.chance(1, 3)));
                }
                let index = if self.rng.chance(1, 4) {
                    let key = if self.rng.chance(2, 3) { Runtype::string() } else { raw_any_of(vec![lit_s("a"), lit_s("b")]) };
                    Some((key, self.ty(each, true), self.rng.chance(1, 5)))
                } else {
                    None
                };
                // a record over a finite key set (Record<"a"|"b", V>) never names those keys as well
                if matches!(&index, Some((k, _, _)) if !matches!(k.kind, RuntypeKind::String)) {
                    props.retain(|(k, _, _)| *k != "a" && *k != "b");
                }
                obj(props, index)
            }
            5..=7 => {
                let n = 2 + self.rng.below(2);
                let each = ((budget - 1) / n).max(1);
                let ms: Vec<Runtype> = (0..n).map(|_| self.ty(each, guarded)).collect();
                if self.rng.chance(1, 2) { Runtype::any_of(ms) } else { raw_any_of(ms) }
            }
            8 | 9 => {
                let each = ((budget - 1) / 2).max(1);
                let ms: Vec<Runtype> = (0..2).map(|_| self.ty(each, guarded)).collect();
                if self.rng.chance(1, 3) { Runtype::all_of(ms) } else { raw_all_of(ms) }
            }
            10 => {
                // discriminated-looking union of objects
                let a = obj(vec![("kind", lit_s("a"), false), ("a", self.ty((budget - 1) / 2, true), self.rng.chance(1, 3))], None);
                let b = obj(vec![("kind", lit_s("b"), false), ("b", self.ty((budget - 1) / 2, true), self.rng.chance(1, 3))], None);
                raw_any_of(vec![a, b])
            }
            _ => self.ty(budget - 1, guarded),
        }
    }

    /// 1-3 named definitions that may refer to each other (references sit below a constructor)
    pub fn defs(&mut self, n: usize) -> Vec<NamedSchema> {
        self.names = (0..n).map(|i| format!("N{}", i)).collect();
        let mut out = vec![];
        for i in 0..n {
            let body = match self.rng.below(5) {
                0 => {
                    // list-like: { v: T; next?: Ni } or { v: T; next: Ni | null }
                    let me = Runtype::ref_(uuid(&format!("N{}", self.rng.below(n))));
                    let next = if self.rng.chance(1, 2) { ("next", me, true) } else { ("next", raw_any_of(vec![me, Runtype::null()]), false) };
                    obj(vec![("v", self.ty(2, true), false), next], None)
                }
                1 => {
                    // tree-like
                    let me = Runtype::ref_(uuid(&format!("N{}", self.rng.below(n))));
                    obj(vec![("kids", Runtype::array(Box::new(me)), self.rng.chance(1, 3)), ("v", self.leaf(), false)], None)
                }
                2 => {
                    // recursive tuple
                    let me = Runtype::ref_(uuid(&format!("N{}", self.rng.below(n))));
                    Runtype::tuple(vec![self.leaf(), raw_any_of(vec![me, Runtype::null()])], None)
                }
                _ => self.ty(5, false),
            };
            out.push(NamedSchema { name: uuid(&format!("N{}", i)), schema: body });
        }
        out
    }
}

/// a variant of `t` that differs in one place
pub fn one_edit(rng: &mut Rng, t: &Runtype) -> Runtype {
    let edit_leaf = |rng: &mut Rng| -> Runtype {
        match rng.below(7) {
            0 => Runtype::null(),
            1 => Runtype::number(),
            2 => Runtype::string(),
            3 => lit_n(1 + rng.below(3) as i64),
            4 => lit_s(["a", "b", "c"][rng.below(3)]),
            5 => Runtype::boolean(),
            _ => Runtype::never(),
        }
    };
    match &t.kind {
        RuntypeKind::Array(e) => {
            if rng.chance(1, 3) {
                Runtype::tuple(vec![(**e).clone()], Some(e.clone()))
            } else {
                Runtype::array(Box::new(one_edit(rng, e)))
            }
        }
        RuntypeKind::Tuple { prefix_items, items } => {
            let mut p = prefix_items.clone();
            let mut it = items.clone();
            match rng.below(4) {
                0 if !p.is_empty() => {
                    let i = rng.below(p.len());
                    p[i] = one_edit(rng, &p[i]);
                }
                1 => {
                    p.push(edit_leaf(rng));
                }
                2 if !p.is_empty() => {
                    p.pop();
                }
                _ => {
                    it = match it {
                        Some(_) => None,
                        None => Some(Box::new(edit_leaf(rng))),
                    };
                }
            }
            Runtype::tuple(p, it)
        }
        RuntypeKind::Object { vs, indexed_properties } => {
            let mut vs = vs.clone();
            let mut ip = indexed_properties.clone();
            let keys: Vec<String> = vs.keys().cloned().collect();
            match rng.below(5) {
                0 if !keys.is_empty() => {
                    let k = rng.pick(&keys).clone();
                    let cur = vs.remove(&k).unwrap();
                    vs.insert(k, if cur.is_required() { cur.to_optional() } else { cur.to_required() });
                }
                1 if !keys.is_empty() => {
                    let k = rng.pick(&keys).clone();
                    let cur = vs.remove(&k).unwrap();
                    let req = cur.is_required();
                    let e = one_edit(rng, cur.inner());
                    vs.insert(k, if req { e.required() } else { e.optional() });
                }
                2 if !keys.is_empty() => {
                    let k = rng.pick(&keys).clone();
                    vs.remove(&k);
                }
                3 => {
                    vs.insert("zz".to_string(), if rng.chance(1, 2) { edit_leaf(rng).required() } else { edit_leaf(rng).optional() });
                }
                _ => {
                    ip = match ip {
                        Some(_) => None,
                        None => Some(Box::new(IndexedProperty { key: Runtype::string(), value: edit_leaf(rng).required() })),
                    };
                }
            }
            Runtype::new(RuntypeKind::Object { vs, indexed_properties: ip })
        }
        RuntypeKind::AnyOf(ms) | RuntypeKind::AllOf(ms) => {
            let is_any = matches!(t.kind, RuntypeKind::AnyOf(_));
            let mut v: Vec<Runtype> = ms.iter().cloned().collect();
            match rng.below(3) {
                0 if v.len() > 1 => {
                    let i = rng.below(v.len());
                    v.remove(i);
                }
                1 => v.push(edit_leaf(rng)),
                _ => {
                    let i = rng.below(v.len());
                    v[i] = one_edit(rng, &v[i]);
                }
            }
            if is_any { raw_any_of(v) } else { raw_all_of(v) }
        }
        _ => edit_leaf(rng),
    }
}

pub fn size(t: &Runtype) -> usize {
    match &t.kind {
        RuntypeKind::Array(e) | RuntypeKind::StNot(e) => 1 + size(e),
        RuntypeKind::Tuple { prefix_items, items } => 1 + prefix_items.iter().map(size).sum::<usize>() + items.as_ref().map(|x| size(x)).unwrap_or(0),
        RuntypeKind::Object { vs, indexed_properties } => 1 + vs.values().map(|x| size(x.inner())).sum::<usize>() + indexed_properties.as_ref().map(|ip| size(ip.value.inner())).unwrap_or(0),
        RuntypeKind::AnyOf(ms) | RuntypeKind::AllOf(ms) => 1 + ms.iter().map(size).sum::<usize>(),
        _ => 1,
    }
}

/// constructor kinds that occur in a type (for coverage histograms)
pub fn kinds(t: &Runtype, out: &mut BTreeSet<&'static str>) {
    out.insert(crate::refmodel::kind_name(&t.kind));
    match &t.kind {
        RuntypeKind::Array(e) | RuntypeKind::StNot(e) => kinds(e, out),
        RuntypeKind::Tuple { prefix_items, items } => {
            for p in prefix_items {
                kinds(p, out);
            }
            if let Some(i) = items {
                out.insert("tuple-rest");
                kinds(i, out);
            }
        }
        RuntypeKind::Object { vs, indexed_properties } => {
            for v in vs.values() {
                if !v.is_required() {
                    out.insert("optional-prop");
                }
                kinds(v.inner(), out);
            }
            if let Some(ip) = indexed_properties {
                out.insert("index-signature");
                kinds(ip.value.inner(), out);
            }
        }
        RuntypeKind::AnyOf(ms) | RuntypeKind::AllOf(ms) => {
            for m in ms {
                kinds(m, out);
            }
        }
        _ => {}
    }
}

pub fn show(t: &Runtype) -> String {
    match &t.kind {
        RuntypeKind::Ref(n) => match &n.ty {
            RuntypeName::Address(a) => a.name.clone(),
            RuntypeName::SemtypeRecursiveGenerated(i) => format!("RecursiveGenerated{}", i),
            other => format!("{:?}", other),
        },
        RuntypeKind::Array(e) => format!("Array<{}>", show(e)),
        RuntypeKind::StNot(e) => format!("Not<{}>", show(e)),
        RuntypeKind::Tuple { prefix_items, items } => {
            let mut parts: Vec<String> = prefix_items.iter().map(show).collect();
            if let Some(i) = items {
                parts.push(format!("...{}[]", show(i)));
            }
            format!("[{}]", parts.join(", "))
        }
        RuntypeKind::Object { vs, indexed_properties } => {
            let mut parts: Vec<String> = vs.iter().map(|(k, v)| format!("{}{}: {}", k, if v.is_required() { "" } else { "?" }, show(v.inner()))).collect();
            if let Some(ip) = indexed_properties {
                parts.push(format!("[k: {}]{}: {}", show(&ip.key), if ip.value.is_required() { "" } else { "?" }, show(ip.value.inner())));
            }
            format!("{{{}}}", parts.join("; "))
        }
        RuntypeKind::AnyOf(ms) => format!("({})", ms.iter().map(show).collect::<Vec<_>>().join(" | ")),
        RuntypeKind::AllOf(ms) => format!("({})", ms.iter().map(show).collect::<Vec<_>>().join(" & ")),
        RuntypeKind::TplLitType(t) => t.describe(),
        RuntypeKind::Const(RuntypeConst::Bool(b)) => b.to_string(),
        RuntypeKind::Const(RuntypeConst::Number(n)) => format!("{}", n.to_f64()),
        other => crate::refmodel::kind_name(other).to_string(),
    }
}

// ------------------------------------------------------------------------------------------------
// JSON form of the fragment (replay files)
use serde_json::{Value as J, json};

pub fn to_json(t: &Runtype) -> J {
    match &t.kind {
        RuntypeKind::Null => json!("null"),
        RuntypeKind::Undefined => json!("undefined"),
        RuntypeKind::Boolean => json!("boolean"),
        RuntypeKind::Number => json!("number"),
        RuntypeKind::String => json!("string"),
        RuntypeKind::Any => json!("any"),
        RuntypeKind::Never => json!("never"),
        RuntypeKind::AnyArrayLike => json!("anyarray"),
        RuntypeKind::BigInt => json!("bigint"),
        RuntypeKind::Date => json!("date"),
        RuntypeKind::TypedArray(k) => json!({"typed": crate::refmodel::typed_index(k)}),
        RuntypeKind::Map(k, v) => json!({"map": [to_json(k), to_json(v)]}),
        RuntypeKind::Set(v) => json!({"set": to_json(v)}),
        RuntypeKind::Const(RuntypeConst::Bool(b)) => json!({"bool": b}),
        RuntypeKind::Const(RuntypeConst::Number(n)) => json!({"num": n.to_f64()}),
        RuntypeKind::TplLitType(tpl) => match crate::refmodel::single_const(tpl) {
            Some(s) => json!({"str": s}),
            None => json!({"tpl": tpl.0.iter().map(tpl_item_json).collect::<Vec<_>>()}),
        },
        RuntypeKind::Array(e) => json!({"array": to_json(e)}),
        RuntypeKind::StNot(e) => json!({"not": to_json(e)}),
        RuntypeKind::Tuple { prefix_items, items } => json!({"tuple": prefix_items.iter().map(to_json).collect::<Vec<_>>(), "rest": items.as_ref().map(|x| to_json(x))}),
        RuntypeKind::Object { vs, indexed_properties } => json!({
            "object": vs.iter().map(|(k, v)| json!([k, to_json(v.inner()), !v.is_required()])).collect::<Vec<_>>(),
            "index": indexed_properties.as_ref().map(|ip| json!([to_json(&ip.key), to_json(ip.value.inner()), !ip.value.is_required()])),
        }),
        RuntypeKind::AnyOf(ms) => json!({"anyof": ms.iter().map(to_json).collect::<Vec<_>>()}),
        RuntypeKind::AllOf(ms) => json!({"allof": ms.iter().map(to_json).collect::<Vec<_>>()}),
        RuntypeKind::Ref(n) => match &n.ty {
            RuntypeName::Address(a) => json!({"ref": a.name}),
            RuntypeName::SemtypeRecursiveGenerated(i) => json!({"gen": i}),
            other => json!({"unsupported": format!("{:?}", other)}),
        },
        other => json!({"unsupported": crate::refmodel::kind_name(other)}),
    }
}

fn tpl_item_json(i: &beff_core::ast::runtype::TplLitTypeItem) -> J {
    use beff_core::ast::runtype::TplLitTypeItem as I;
    match i {
        I::String => json!("string"),
        I::Number => json!("number"),
        I::Boolean => json!("boolean"),
        I::StringConst(c) => json!({"c": c}),
        I::OneOf(a) => json!({"oneof": a.iter().map(tpl_item_json).collect::<Vec<_>>()}),
    }
}
fn tpl_item_from(j: &J) -> beff_core::ast::runtype::TplLitTypeItem {
    use beff_core::ast::runtype::TplLitTypeItem as I;
    match j.as_str() {
        Some("string") => I::String,
        Some("number") => I::Number,
        Some("boolean") => I::Boolean,
        _ => {
            if let Some(c) = j.get("c") {
                I::StringConst(c.as_str().unwrap().to_string())
            } else {
                I::one_of(j["oneof"].as_array().unwrap().iter().map(tpl_item_from).collect())
            }
        }
    }
}

pub fn from_json(j: &J) -> Runtype {
    if let Some(s) = j.as_str() {
        return match s {
            "null" => Runtype::null(),
            "undefined" => Runtype::undefined(),
            "boolean" => Runtype::boolean(),
            "number" => Runtype::number(),
            "string" => Runtype::string(),
            "any" => Runtype::any(),
            "anyarray" => Runtype::any_array_like(),
            "bigint" => Runtype::new(RuntypeKind::BigInt),
            "date" => Runtype::new(RuntypeKind::Date),
            _ => Runtype::never(),
        };
    }
    let o = j.as_object().expect("type json");
    if let Some(b) = o.get("bool") {
        return lit_b(b.as_bool().unwrap());
    }
    if let Some(k) = o.get("typed") {
        return Runtype::typed_array(crate::refmodel::TYPED_KINDS[k.as_u64().unwrap() as usize]);
    }
    if let Some(m) = o.get("map") {
        return Runtype::new(RuntypeKind::Map(Box::new(from_json(&m[0])), Box::new(from_json(&m[1]))));
    }
    if let Some(v) = o.get("set") {
        return Runtype::new(RuntypeKind::Set(Box::new(from_json(v))));
    }
    if let Some(n) = o.get("num") {
        return lit_n(n.as_f64().unwrap() as i64);
    }
    if let Some(s) = o.get("str") {
        return lit_s(s.as_str().unwrap());
    }
    if let Some(t) = o.get("tpl") {
        return Runtype::tpl_lit_type(beff_core::ast::runtype::TplLitType(t.as_array().unwrap().iter().map(tpl_item_from).collect()));
    }
    if let Some(e) = o.get("array") {
        return Runtype::array(Box::new(from_json(e)));
    }
    if let Some(e) = o.get("not") {
        return Runtype::st_not(Box::new(from_json(e)));
    }
    if let Some(p) = o.get("tuple") {
        let rest = o.get("rest").filter(|r| !r.is_null()).map(|r| Box::new(from_json(r)));
        return Runtype::tuple(p.as_array().unwrap().iter().map(from_json).collect(), rest);
    }
    if let Some(p) = o.get("object") {
        let vs: BTreeMap<String, Optionality<Runtype>> = p
            .as_array()
            .unwrap()
            .iter()
            .map(|e| {
                let t = from_json(&e[1]);
                (e[0].as_str().unwrap().to_string(), if e[2].as_bool().unwrap() { t.optional() } else { t.required() })
            })
            .collect();
        let ip = o.get("index").filter(|r| !r.is_null()).map(|e| {
            let v = from_json(&e[1]);
            Box::new(IndexedProperty { key: from_json(&e[0]), value: if e[2].as_bool().unwrap() { v.optional() } else { v.required() } })
        });
        return Runtype::new(RuntypeKind::Object { vs, indexed_properties: ip });
    }
    if let Some(ms) = o.get("anyof") {
        return raw_any_of(ms.as_array().unwrap().iter().map(from_json).collect());
    }
    if let Some(ms) = o.get("allof") {
        return raw_all_of(ms.as_array().unwrap().iter().map(from_json).collect());
    }
    if let Some(n) = o.get("ref") {
        return Runtype::ref_(uuid(n.as_str().unwrap()));
    }
    if let Some(n) = o.get("gen") {
        return Runtype::ref_(RuntypeUUID { ty: RuntypeName::SemtypeRecursiveGenerated(n.as_u64().unwrap() as usize), type_arguments: vec![] });
    }
    Runtype::never()
}

pub fn defs_to_json(defs: &[NamedSchema]) -> J {
    J::Array(defs.iter().map(|d| json!([show(&Runtype::ref_(d.name.clone())), to_json(&d.schema)])).collect())
}
pub fn defs_from_json(j: &J) -> Vec<NamedSchema> {
    j.as_array().map(|a| a.iter().map(|e| NamedSchema { name: uuid(e[0].as_str().unwrap()), schema: from_json(&e[1]) }).collect()).unwrap_or_default()
}

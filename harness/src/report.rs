//! Result file of a Rust shard, same JSON shape as js/shard.mjs writes (merged by /verif/check).
use serde_json::{Value, json};
use std::collections::{BTreeMap, BTreeSet};

pub struct Report {
    pub prop: String,
    pub seed: u64,
    pub tier: String,
    pub shard: u64,
    pub of: u64,
    pub evaluations: u64,
    pub distinct: BTreeSet<String>,
    pub samples: Vec<Value>,
    pub counters: BTreeMap<String, u64>,
    pub inconclusive: BTreeMap<String, u64>,
    pub violations: BTreeMap<String, Value>,
    pub started: std::time::Instant,
}

pub struct Args {
    pub prop: String,
    pub seed: u64,
    pub tier: String,
    pub shard: u64,
    pub of: u64,
    pub out: Option<String>,
    pub replay: Option<String>,
}

pub fn parse_args() -> Args {
    let a: Vec<String> = std::env::args().collect();
    let opt = |name: &str| -> Option<String> {
        a.iter()
            .position(|x| x == &format!("--{name}"))
            .and_then(|i| a.get(i + 1).cloned())
    };
    Args {
        prop: a.get(1).cloned().unwrap_or_default(),
        seed: opt("seed").and_then(|s| s.parse().ok()).unwrap_or(1),
        tier: opt("tier").unwrap_or_else(|| "quick".into()),
        shard: opt("shard").and_then(|s| s.parse().ok()).unwrap_or(0),
        of: opt("of").and_then(|s| s.parse().ok()).unwrap_or(1),
        out: opt("out"),
        replay: opt("replay"),
    }
}

impl Report {
    pub fn new(a: &Args) -> Report {
        Report {
            prop: a.prop.clone(),
            seed: a.seed,
            tier: a.tier.clone(),
            shard: a.shard,
            of: a.of,
            evaluations: 0,
            distinct: BTreeSet::new(),
            samples: vec![],
            counters: BTreeMap::new(),
            inconclusive: BTreeMap::new(),
            violations: BTreeMap::new(),
            started: std::time::Instant::now(),
        }
    }
    pub fn quick(&self) -> bool {
        self.tier == "quick"
    }
    /// per-shard share of a total budget
    pub fn share(&self, quick: u64, thorough: u64) -> u64 {
        let total = if self.quick() { quick } else { thorough };
        std::cmp::max(1, total.div_ceil(self.of))
    }
    pub fn count(&mut self, k: &str, n: u64) {
        *self.counters.entry(k.to_string()).or_insert(0) += n;
    }
    pub fn judged(&mut self, n: u64) {
        self.evaluations += n;
    }
    pub fn distinct(&mut self, k: String) {
        self.distinct.insert(k);
    }
    pub fn sample(&mut self, v: Value) {
        if self.samples.len() < 6 {
            self.samples.push(v);
        }
    }
    pub fn inconclusive(&mut self, k: &str) {
        *self.inconclusive.entry(k.to_string()).or_insert(0) += 1;
    }
    pub fn violation(&mut self, signature: &str, clause: &str, detail: String, mut replay: Value) {
        if let Some(v) = self.violations.get_mut(signature) {
            let c = v["count"].as_u64().unwrap_or(1);
            v["count"] = json!(c + 1);
            return;
        }
        replay["property"] = json!(self.prop);
        replay["seed"] = json!(self.seed);
        replay["signature"] = json!(signature);
        replay["clause"] = json!(clause);
        self.violations.insert(
            signature.to_string(),
            json!({"signature": signature, "clause": clause, "detail": detail, "replay": replay, "count": 1}),
        );
    }
    /// continue from a snapshot() of an earlier process of the same shard
    pub fn load_carry(&mut self, v: &Value) {
        self.evaluations = v["evaluations"].as_u64().unwrap_or(0);
        self.distinct = v["distinct"].as_array().map(|a| a.iter().filter_map(|x| x.as_str().map(String::from)).collect()).unwrap_or_default();
        self.samples = v["samples"].as_array().cloned().unwrap_or_default();
        let m = |x: &Value| -> BTreeMap<String, u64> { x.as_object().map(|o| o.iter().map(|(k, n)| (k.clone(), n.as_u64().unwrap_or(0))).collect()).unwrap_or_default() };
        self.counters = m(&v["counters"]);
        self.inconclusive = m(&v["inconclusive"]);
        self.violations = v["violations"].as_array().map(|a| a.iter().map(|x| (x["signature"].as_str().unwrap_or("").to_string(), x.clone())).collect()).unwrap_or_default();
    }
    /// the report so far, in the format finish() writes (for a watchdog that has to stop the shard)
    pub fn snapshot(&self) -> String {
        json!({
            "prop": self.prop, "seed": self.seed, "tier": self.tier, "shard": self.shard, "of": self.of,
            "evaluations": self.evaluations,
            "distinct": self.distinct.iter().collect::<Vec<_>>(),
            "samples": self.samples,
            "counters": self.counters,
            "inconclusive": self.inconclusive,
            "aux": {},
            "violations": self.violations.values().collect::<Vec<_>>(),
            "wall_s": self.started.elapsed().as_secs_f64(),
            "error": Value::Null,
        })
        .to_string()
    }
    pub fn finish(self, out: &Option<String>, error: Option<String>) {
        let v = json!({
            "prop": self.prop, "seed": self.seed, "tier": self.tier, "shard": self.shard, "of": self.of,
            "evaluations": self.evaluations,
            "distinct": self.distinct.into_iter().collect::<Vec<_>>(),
            "samples": self.samples,
            "counters": self.counters,
            "inconclusive": self.inconclusive,
            "aux": {},
            "violations": self.violations.into_values().collect::<Vec<_>>(),
            "wall_s": self.started.elapsed().as_secs_f64(),
            "error": error,
        });
        match out {
            Some(p) => std::fs::write(p, v.to_string()).expect("write result"),
            None => println!("{}", serde_json::to_string_pretty(&v).unwrap()),
        }
    }
}

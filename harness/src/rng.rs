//! Small deterministic PRNG (splitmix64) seeded from (seed, label) — no external crates.
#[derive(Clone)]
pub struct Rng(pub u64);

fn fnv(s: &str) -> u64 {
    let mut h: u64 = 0xcbf29ce484222325;
    for b in s.bytes() {
        h ^= b as u64;
        h = h.wrapping_mul(0x100000001b3);
    }
    h
}

impl Rng {
    pub fn new(seed: u64, label: &str) -> Rng {
        let mut r = Rng(seed ^ fnv(label).rotate_left(17) ^ 0x9e3779b97f4a7c15);
        r.next();
        r.next();
        r
    }
    pub fn next(&mut self) -> u64 {
        self.0 = self.0.wrapping_add(0x9e3779b97f4a7c15);
        let mut z = self.0;
        z = (z ^ (z >> 30)).wrapping_mul(0xbf58476d1ce4e5b9);
        z = (z ^ (z >> 27)).wrapping_mul(0x94d049bb133111eb);
        z ^ (z >> 31)
    }
    pub fn below(&mut self, n: usize) -> usize {
        if n == 0 { 0 } else { (self.next() % (n as u64)) as usize }
    }
    pub fn chance(&mut self, num: usize, den: usize) -> bool {
        self.below(den) < num
    }
    pub fn shuffle<T: Clone>(&mut self, xs: &[T]) -> Vec<T> {
        let mut v: Vec<T> = xs.to_vec();
        for i in (1..v.len()).rev() {
            let j = self.below(i + 1);
            v.swap(i, j);
        }
        v
    }
    pub fn pick<'a, T>(&mut self, xs: &'a [T]) -> &'a T {
        &xs[self.below(xs.len())]
    }
}

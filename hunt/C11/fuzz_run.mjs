// Differential fuzzer for C11, part 2: loads the compiled fz_* programs, generates values and compares
// beff's default / strict verdicts with a reference implementation of the C11 statement.
import { readFileSync, readdirSync, existsSync } from "node:fs";
import path from "node:path";
import { load } from "./load.mjs";
const here = path.dirname(new URL(import.meta.url).pathname);
const prefix = process.argv[2] ?? "fz_";

let seed = 12345;
function rnd() {
  seed |= 0; seed = (seed + 0x6d2b79f5) | 0;
  let t = Math.imul(seed ^ (seed >>> 15), 1 | seed);
  t = (t + Math.imul(t ^ (t >>> 7), 61 | t)) ^ t;
  return ((t ^ (t >>> 14)) >>> 0) / 4294967296;
}
const setOwn = (o, k, v) => Object.defineProperty(o, k, { value: v, enumerable: true, writable: true, configurable: true });
const own = (o, k) => (Object.prototype.hasOwnProperty.call(o, k) ? o[k] : undefined);
const pick = (a) => a[Math.floor(rnd() * a.length)];

// normal form of an object-like type: {props: Map name -> {opt, t}, index}
function objShape(t, decls) {
  switch (t.k) {
    case "obj": return { props: t.props.map((p) => ({ ...p })), index: t.index ? { ...t.index, opt: false } : null };
    case "partial": {
      const s = objShape(t.t, decls);
      return { props: s.props.map((p) => ({ ...p, opt: true })), index: s.index ? { ...s.index, opt: true } : null };
    }
    case "pick": { const s = objShape(t.t, decls); return { props: s.props.filter((p) => t.keys.includes(p.n)), index: null }; }
    case "omit": { const s = objShape(t.t, decls); return { props: s.props.filter((p) => !t.keys.includes(p.n)), index: null }; }
    case "record": return { props: t.keys.map((n) => ({ n, opt: !!t.partial, t: t.val })), index: null };
    case "inter": { const ss = t.ts.map((x) => objShape(x, decls)); return { props: ss.flatMap((s) => s.props), index: null }; }
  }
  return null;
}
function ref(t, v, strict, decls) {
  switch (t.k) {
    case "str": return typeof v === "string";
    case "num": return typeof v === "number";
    case "bool": return typeof v === "boolean";
    case "null": return v == null;
    case "lit": return v === t.v;
    case "ref": return ref(decls[t.name], v, strict, decls);
    case "union": return t.ts.some((x) => ref(x, v, strict, decls));
    case "arr": return Array.isArray(v) && v.every((x) => ref(t.t, x, strict, decls));
    case "tuple": {
      if (!Array.isArray(v)) return false;
      for (let i = 0; i < t.ts.length; i++) if (!ref(t.ts[i], v[i], strict, decls)) return false;
      if (t.rest) { for (let i = t.ts.length; i < v.length; i++) if (!ref(t.rest, v[i], strict, decls)) return false; }
      else if (v.length > t.ts.length) return false;
      return true;
    }
  }
  const s = objShape(t, decls);
  if (!s) throw new Error("ref " + t.k);
  if (typeof v !== "object" || v === null || Array.isArray(v)) return false;
  const names = s.props.map((p) => p.n);
  for (const p of s.props) {
    const x = own(v, p.n);
    if (p.opt && x == null) continue;
    if (!ref(p.t, x, strict, decls)) return false;
  }
  const others = Object.keys(v).filter((k) => !names.includes(k));
  if (s.index) {
    for (const k of others) {
      if (s.index.key === "tpl" && !/^x[\s\S]*$/.test(k)) return false;
      if (s.index.opt && v[k] == null) continue;
      if (!ref(s.index.val, v[k], strict, decls)) return false;
    }
    return true;
  }
  return strict ? others.length === 0 : true;
}
function genValue(t, decls, depth = 0) {
  switch (t.k) {
    case "str": return pick(["", "s", "p", "xq", "__proto__", "constructor"]);
    case "num": return pick([0, 1, -0, 1.5, NaN]);
    case "bool": return rnd() < 0.5;
    case "null": return pick([null, undefined]);
    case "lit": return t.v;
    case "ref": return genValue(decls[t.name], decls, depth + 1);
    case "union": return genValue(pick(t.ts), decls, depth + 1);
    case "arr": return Array.from({ length: Math.floor(rnd() * 3) }, () => genValue(t.t, decls, depth + 1));
    case "tuple": {
      const out = t.ts.map((x) => genValue(x, decls, depth + 1));
      if (t.rest && rnd() < 0.5) out.push(genValue(t.rest, decls, depth + 1));
      return out;
    }
  }
  const s = objShape(t, decls);
  const o = {};
  for (const p of s.props) {
    if (p.opt && rnd() < 0.4) continue;
    setOwn(o, p.n, genValue(p.t, decls, depth + 1));
  }
  if (s.index && rnd() < 0.6) o[pick(["xq", "xz"])] = genValue(s.index.val, decls, depth + 1);
  return o;
}
// all object positions inside a value
function positions(v, acc = []) {
  if (Array.isArray(v)) { v.forEach((x) => positions(x, acc)); }
  else if (v && typeof v === "object") { acc.push(v); Object.values(v).forEach((x) => positions(x, acc)); }
  return acc;
}
function mutate(v) {
  const c = structuredClone(v);
  const ps = positions(c);
  if (ps.length === 0) return c;
  const p = pick(ps);
  const r = rnd();
  const ks = Object.keys(p);
  if (r < 0.55) setOwn(p, pick(["zz", "xq", "a", "b", "t", "kind", "__proto__", "constructor", "0", ""]), pick([1, "s", null, undefined, { zz: 1 }, {}]));
  else if (r < 0.75 && ks.length) delete p[pick(ks)];
  else if (ks.length) setOwn(p, pick(ks), pick([1, "s", null, {}, { zz: 1 }, []]));
  return c;
}

const files = readdirSync(path.join(here, "out")).filter((f) => f.startsWith(prefix) && f.endsWith(".spec.json"));
let reportBad = 0; let checked = 0, mism = 0, skippedAllOf = 0, failedCompile = 0;
for (const f of files.sort()) {
  const name = f.replace(".spec.json", "");
  if (!existsSync(path.join(here, "out", name + ".js"))) { failedCompile++; continue; }
  const js = readFileSync(path.join(here, "out", name + ".js"), "utf8");
  const hasAllOf = js.includes("AllOfRuntype");
  const { decls, roots } = JSON.parse(readFileSync(path.join(here, "out", f), "utf8"));
  let parsers;
  try { parsers = await load(name); } catch (e) { console.log("LOAD FAIL", name, e.message); continue; }
  for (const [rn, t] of Object.entries(roots)) {
    for (let i = 0; i < 60; i++) {
      let v = genValue(t, decls);
      const nm = Math.floor(rnd() * 3);
      for (let j = 0; j < nm; j++) v = mutate(v);
      const bd = parsers[rn].validate(v);
      const bs = parsers[rn].validate(v, { disallowExtraProperties: true });
      const rd = ref(t, v, false, decls);
      const rs = ref(t, v, true, decls);
      checked++;
      if (bd && !bs) {
        const sp = parsers[rn].safeParse(v, { disallowExtraProperties: true });
        const leaves = [];
        const walk = (errs, base) => { for (const e of errs) { if (e.isUnionError) walk(e.errors, [...base, ...e.path]); else leaves.push({ message: e.message, path: [...base, ...e.path] }); } };
        walk(sp.errors, []);
        const extra = leaves.filter((l) => l.message === "extra property");
        const resolve = (val, pth) => { let cur = val; for (const seg of pth.slice(0, -1)) { if (cur == null) return false; const m = /^\[(\d+)\]$/.exec(seg); cur = m ? cur[Number(m[1])] : cur[seg]; } return cur != null && typeof cur === "object" && Object.prototype.hasOwnProperty.call(cur, pth[pth.length - 1]); };
        if (sp.success || extra.length === 0 || !extra.every((l) => resolve(v, l.path))) {
          reportBad++;
          if (reportBad <= 10) console.log(`BAD REPORT ${name} ${rn} value=${JSON.stringify(v)} report=${JSON.stringify(sp)}`);
        }
      }
      if (bd !== rd || bs !== rs) {
        if (hasAllOf) { skippedAllOf++; continue; }
        mism++;
        if (mism <= 25) console.log(`MISMATCH ${name} ${rn} value=${JSON.stringify(v)} beff(default=${bd},strict=${bs}) ref(default=${rd},strict=${rs})`);
      }
    }
  }
}
console.log({ reportBad, files: files.length, failedCompile, checked, mism, skippedAllOf });

// C11 finding 5: a declared key that contains a lone surrogate is compiled to U+FFFD, so the real key is "extra"
import { load, row } from "./load.mjs";
import { readFileSync } from "node:fs";
console.log(readFileSync(new URL("./progs/p17_surrogate.ts", import.meta.url), "utf8").split("\n")[0]);
const p = await load("p17_surrogate");
const show = (r) => console.log(`${r.label.padEnd(40)} default=${r.default} strict=${r.strict} ${r.strictParse}`);
show(row(p.L, 'L <- JSON {"\\ud800":"x","a":"s"}', JSON.parse('{"\\ud800":"x","a":"s"}')));
show(row(p.L, 'L <- JSON {"\\ud800":5,"a":"s"}', JSON.parse('{"\\ud800":5,"a":"s"}')));

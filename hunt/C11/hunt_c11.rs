// Compiles every _hunt/progs/*.ts with beff-core and writes the generated module body to _hunt/out/<name>.js
// (or <name>.err with the diagnostics).
use beff_core::test_tools::{failure, print_cgen, print_types};
use std::fs;
use std::panic;

#[test]
fn hunt_c11_compile_all() {
    let root = concat!(env!("CARGO_MANIFEST_DIR"), "/../../_hunt");
    let progs = format!("{}/progs", root);
    let out = format!("{}/out", root);
    fs::create_dir_all(&out).unwrap();
    let only = std::env::var("HUNT_ONLY").ok();
    let mut entries: Vec<_> = fs::read_dir(&progs).unwrap().map(|e| e.unwrap().path()).collect();
    entries.sort();
    for p in entries {
        if p.extension().and_then(|s| s.to_str()) != Some("ts") {
            continue;
        }
        let name = p.file_stem().unwrap().to_str().unwrap().to_string();
        if let Some(o) = &only {
            if !name.starts_with(o.as_str()) {
                continue;
            }
        }
        let src = fs::read_to_string(&p).unwrap();
        let src2 = src.clone();
        let r = panic::catch_unwind(move || (print_cgen(&src2), print_types(&src2)));
        match r {
            Ok((code, types)) => {
                fs::write(format!("{}/{}.js", out, name), code).unwrap();
                fs::write(format!("{}/{}.types", out, name), types).unwrap();
                let _ = fs::remove_file(format!("{}/{}.err", out, name));
            }
            Err(_) => {
                let src3 = src.clone();
                let msg = panic::catch_unwind(move || failure(&src3)).unwrap_or_else(|_| "PANIC (no diagnostics)".to_string());
                fs::write(format!("{}/{}.err", out, name), msg).unwrap();
                let _ = fs::remove_file(format!("{}/{}.js", out, name));
            }
        }
    }
}

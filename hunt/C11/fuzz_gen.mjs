// Differential fuzzer for C11, part 1: generates random type programs + a JSON description of every
// root type (own small AST) into _hunt/progs/fz_<n>.ts and _hunt/out/fz_<n>.spec.json
import { writeFileSync, mkdirSync } from "node:fs";
import path from "node:path";
const here = path.dirname(new URL(import.meta.url).pathname);

let seed = Number(process.argv[2] ?? 1);
const N = Number(process.argv[3] ?? 30);
function rnd() {
  // mulberry32
  seed |= 0; seed = (seed + 0x6d2b79f5) | 0;
  let t = Math.imul(seed ^ (seed >>> 15), 1 | seed);
  t = (t + Math.imul(t ^ (t >>> 7), 61 | t)) ^ t;
  return ((t ^ (t >>> 14)) >>> 0) / 4294967296;
}
const pick = (a) => a[Math.floor(rnd() * a.length)];
const int = (n) => Math.floor(rnd() * n);
const SPELL = process.argv[4] === "spell";
const HOSTILE = process.argv[5] === "hostile";
const KEYS = HOSTILE ? ["constructor", "toString", "hasOwnProperty", "valueOf", "0", "1", "", "a b", "é", "__defineGetter__", "length", "t", "kind"] : ["a", "b", "c", "d", "e", "t", "kind"];
const TAGS = HOSTILE ? ["valueOf", "constructor", "toString"] : ["p", "q", "r"];
const Q = (n) => (/^[A-Za-z_$][A-Za-z0-9_$]*$/.test(n) ? n : JSON.stringify(n));

function genPrim() {
  return pick([{ k: "str" }, { k: "num" }, { k: "bool" }, { k: "null" }, { k: "lit", v: pick(TAGS) }]);
}
function genObj(depth, opts = {}) {
  const n = int(4);
  const names = [...KEYS].sort(() => rnd() - 0.5).slice(0, n).filter((x) => !(opts.avoid ?? []).includes(x));
  const props = names.sort().map((name) => ({ n: name, opt: rnd() < 0.3, t: genType(depth - 1) }));
  let index = null;
  if (!opts.noIndex && rnd() < 0.15) {
    index = { key: pick(["string", "tpl"]), val: genType(depth - 1) };
  }
  const sp = opts.plain || !SPELL ? "plain" : pick(["plain", "plain", "iface", "extends", "generic", "mapped", "pickfrom", "exclude", "indexed", "cond"]);
  return { k: "obj", props, index, sp };
}
function genDisc(depth) {
  const tag = pick(["t", "kind"]);
  const n = 2 + int(2);
  const ts = [];
  for (let i = 0; i < n; i++) {
    const o = genObj(depth - 1, { avoid: [tag], noIndex: true });
    o.props.push({ n: tag, opt: false, t: { k: "lit", v: TAGS[i] } });
    o.props.sort((x, y) => (x.n < y.n ? -1 : 1));
    ts.push(o);
  }
  return { k: "union", ts };
}
function genType(depth, ctx = {}) {
  if (depth <= 0) return genPrim();
  const r = rnd();
  if (r < 0.2) return genPrim();
  if (r < 0.5) return genObj(depth);
  if (r < 0.6) return { k: "union", ts: [genType(depth - 1), genType(depth - 1)] };
  if (r < 0.68) return genDisc(depth);
  if (r < 0.76) {
    // intersection of inline object literals with disjoint keys
    const a = genObj(depth - 1, { noIndex: true, plain: true });
    const b = genObj(depth - 1, { noIndex: true, plain: true, avoid: a.props.map((p) => p.n) });
    return { k: "inter", ts: [a, b] };
  }
  if (r < 0.82) return { k: "arr", t: genType(depth - 1) };
  if (r < 0.86) return { k: "tuple", ts: [genType(depth - 1), genType(depth - 1)], rest: rnd() < 0.3 ? genType(depth - 1) : null };
  if (r < 0.9) return { k: "partial", t: genObj(depth - 1) };
  if (r < 0.93) {
    const o = genObj(depth - 1, { noIndex: true });
    const keys = o.props.filter(() => rnd() < 0.5).map((p) => p.n);
    if (keys.length === 0) return o;
    return { k: pick(["pick", "omit"]), t: o, keys };
  }
  if (r < 0.96) {
    const keys = [...KEYS].sort(() => rnd() - 0.5).slice(0, 1 + int(2)).sort();
    return { k: "record", keys, val: genType(depth - 1), partial: rnd() < 0.3 };
  }
  if (ctx.names && ctx.names.length > 0) return { k: "ref", name: pick(ctx.names) };
  return genObj(depth);
}

const DECLS = [];
export function toTS(t) {
  switch (t.k) {
    case "str": return "string";
    case "num": return "number";
    case "bool": return "boolean";
    case "null": return "null";
    case "lit": return JSON.stringify(t.v);
    case "obj": {
      const P = (p) => `${Q(p.n)}${p.opt ? "?" : ""}: ${toTS(p.t)}`;
      const ps = t.props.map(P);
      if (t.index) ps.push(`[k: ${t.index.key === "string" ? "string" : "`x${string}`"}]: ${toTS(t.index.val)}`);
      const lit = `{ ${ps.join("; ")} }`;
      const fresh = () => `X${DECLS.length}`;
      const sp = t.sp ?? "plain";
      if (sp === "iface") { const n = fresh(); DECLS.push(`interface ${n} ${lit}`); return n; }
      if (sp === "extends" && t.props.length >= 2 && !t.index) {
        const names = t.props.map((p) => p.n);
        const baseS = ps.slice(0, 1), restS = ps.slice(1);
        const nb = fresh(); DECLS.push(`interface ${nb} { ${baseS.join("; ")} }`);
        const nd = fresh(); DECLS.push(`interface ${nd} extends ${nb} { ${restS.join("; ")} }`);
        return nd;
      }
      if (sp === "generic" && t.props.length >= 1) {
        const [h, ...rest] = t.props;
        const rs = [`${Q(h.n)}${h.opt ? "?" : ""}: Q`, ...ps.slice(1)];
        const arg = toTS(h.t);
        const n = fresh();
        DECLS.push(`type ${n}<Q> = { ${rs.join("; ")} }`);
        return `${n}<${arg}>`;
      }
      if (sp === "mapped" && !t.index && t.props.length >= 1) {
        return "(" + t.props.map((p) => `{ [K in ${JSON.stringify(p.n)}]${p.opt ? "?" : ""}: ${toTS(p.t)} }`).join(" & ") + ")";
      }
      if (sp === "pickfrom" && !t.index && t.props.length >= 1) {
        return `Pick<{ ${[...ps, "zq: string"].join("; ")} }, ${t.props.map((p) => JSON.stringify(p.n)).join(" | ")}>`;
      }
      if (sp === "exclude") return `Exclude<${lit} | string, string>`;
      if (sp === "indexed") return `{ w: ${lit} }["w"]`;
      if (sp === "cond") { const n = fresh(); DECLS.push(`type ${n}<Q> = Q extends string ? ${lit} : never`); return `${n}<"s">`; }
      return lit;
    }
    case "union": return "(" + t.ts.map(toTS).join(" | ") + ")";
    case "inter": return "(" + t.ts.map(toTS).join(" & ") + ")";
    case "arr": return `Array<${toTS(t.t)}>`;
    case "tuple": return `[${[...t.ts.map(toTS), ...(t.rest ? [`...Array<${toTS(t.rest)}>`] : [])].join(", ")}]`;
    case "partial": return `Partial<${toTS(t.t)}>`;
    case "pick": return `Pick<${toTS(t.t)}, ${t.keys.map((k) => JSON.stringify(k)).join(" | ")}>`;
    case "omit": return `Omit<${toTS(t.t)}, ${t.keys.map((k) => JSON.stringify(k)).join(" | ")}>`;
    case "record": {
      const r = `Record<${t.keys.map((k) => JSON.stringify(k)).join(" | ")}, ${toTS(t.val)}>`;
      return t.partial ? `Partial<${r}>` : r;
    }
    case "ref": return t.name;
  }
  throw new Error("toTS " + t.k);
}

mkdirSync(path.join(here, "progs"), { recursive: true });
mkdirSync(path.join(here, "out"), { recursive: true });
for (let i = 0; i < N; i++) {
  const names = [];
  const decls = {};
  const nAliases = 2 + int(3);
  for (let j = 0; j < nAliases; j++) {
    const name = `N${j}`;
    decls[name] = genType(2, { names: [...names] });
    names.push(name);
  }
  const roots = {};
  for (let j = 0; j < 6; j++) {
    roots[`T${j}`] = genType(3, { names });
  }
  let src = "";
  DECLS.length = 0;
  let body = "";
  for (const [n, t] of Object.entries(decls)) body += `type ${n} = ${toTS(t)};\n`;
  for (const [n, t] of Object.entries(roots)) body += `type ${n} = ${toTS(t)};\n`;
  src += DECLS.map((d) => d + "\n").join("") + body;
  src += `parse.buildParsers<{ ${Object.keys(roots).map((n) => `${n}: ${n}`).join("; ")} }>();\n`;
  const id = `fz_${process.argv[2] ?? 1}_${i}`;
  writeFileSync(path.join(here, "progs", id + ".ts"), src);
  writeFileSync(path.join(here, "out", id + ".spec.json"), JSON.stringify({ decls, roots }));
}
console.log("generated", N);

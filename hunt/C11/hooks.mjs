// loader hook: ./x.js -> ./x.ts inside beff-client/src, zod stubbed
import { existsSync } from "node:fs";
import { fileURLToPath } from "node:url";
export async function resolve(specifier, context, next) {
  if (specifier === "zod") {
    return { url: "data:text/javascript,export const z = { custom: (f) => ({ _f: f }) };", shortCircuit: true };
  }
  if (specifier.startsWith(".") && specifier.endsWith(".js") && context.parentURL) {
    const u = new URL(specifier.replace(/\.js$/, ".ts"), context.parentURL);
    if (existsSync(fileURLToPath(u))) {
      return { url: u.href, shortCircuit: true };
    }
  }
  return next(specifier, context);
}
import { readFileSync } from "node:fs";
export async function load(url, context, next) {
  if (url.startsWith("file:") && url.includes("/beff-client/src/") && url.endsWith(".ts")) {
    let src = readFileSync(fileURLToPath(url), "utf8");
    // type-only imports that are not marked `type`
    src = src.replace(/^import \{[^}]*\} from "\.\/(json-schema|types)\.js";$/gm, "");
    // b.ts imports the interface Runtype by value
    if (url.endsWith("/b.ts")) src = src.replace(/^  Runtype,\n/m, "");
    return { format: "module-typescript", source: src, shortCircuit: true };
  }
  return next(url, context);
}

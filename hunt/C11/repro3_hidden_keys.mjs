// C11 finding 3: undeclared keys that Object.keys() does not list pass strict mode (and parse drops them)
import * as R from "../packages/beff-client/src/codegen-v2.ts";
import { row } from "./load.mjs";
const A = R.buildParserFromRuntype(new R.ObjectRuntype(undefined, { a: new R.TypeofRuntype(undefined, "string") }, []), "A", false);
const show = (r) => console.log(`${r.label.padEnd(44)} default=${r.default} strict=${r.strict} ${r.strictParse}`);
show(row(A, "{a:'x', extra:1}  (control)", { a: "x", extra: 1 }));
show(row(A, "{a:'x', [Symbol('extra')]:1}", { a: "x", [Symbol("extra")]: 1 }));
show(row(A, "own non-enumerable key 'extra'", Object.defineProperty({ a: "x" }, "extra", { value: 1, enumerable: false })));
show(row(A, "inherited enumerable key 'extra'", Object.assign(Object.create({ extra: 1 }), { a: "x" })));
// the same inherited spelling is honoured for declared keys:
show(row(A, "Object.create({a:'x'}) (a inherited)", Object.create({ a: "x" })));

// C11 finding 2: typeof of { ...recordTypedValue } loses the index signature: every key is "extra"
import { load, row } from "./load.mjs";
import { readFileSync } from "node:fs";
console.log(readFileSync(new URL("./out/p12_exotic.types", import.meta.url), "utf8"));
const p = await load("p12_exotic");
const show = (r) => console.log(`${r.label.padEnd(40)} default=${r.default} strict=${r.strict} ${r.strictParse}`);
show(row(p.S1, "S1 <- {k:1}", { k: 1 }));
show(row(p.S1, "S1 <- {k:'not a number'}", { k: "not a number" }));

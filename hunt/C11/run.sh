#!/bin/sh
# usage: run.sh script.mjs
exec /root/.nvm/versions/node/v22.22.2/bin/node --experimental-strip-types --no-warnings --import /tmp/hunt-C11/_hunt/register.mjs "$@"

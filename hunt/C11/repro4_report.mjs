// C11 finding 4: the strict-mode error report of an object drops its property errors when it finds extra
// keys, so inside a union a key that the matching branch declares is reported as "extra property"
import { load } from "./load.mjs";
const p = await load("p14_union_report");
const v = { t: true, x: 1, y: "s" };
console.log("default:", p.D3.validate(v), " strict:", p.D3.validate(v, { disallowExtraProperties: true }));
console.log(JSON.stringify(p.D3.safeParse(v, { disallowExtraProperties: true }), null, 1));
console.log(JSON.stringify(p.O.safeParse({ a: "str", b: 1 }, { disallowExtraProperties: true })));

// load.mjs: turns _hunt/out/<name>.js (beff-core emit_code output) into live parsers
import { readFileSync, writeFileSync, mkdirSync } from "node:fs";
import { pathToFileURL } from "node:url";
import path from "node:path";
const here = path.dirname(new URL(import.meta.url).pathname);
const client = pathToFileURL(path.join(here, "../packages/beff-client/src/codegen-v2.ts")).href;
export async function load(name) {
  const body = readFileSync(path.join(here, "out", name + ".js"), "utf8");
  const pre = `import * as R from ${JSON.stringify(client)};
const { TypeofRuntype, AnyRuntype, NullishRuntype, NeverRuntype, ConstRuntype, RegexRuntype, DateRuntype, BigIntRuntype, StringWithFormatRuntype, NumberWithFormatRuntype, AnyOfConstsRuntype, TupleRuntype, AllOfRuntype, AnyOfRuntype, ArrayRuntype, AnyOfDiscriminatedRuntype, ObjectRuntype, OptionalFieldRuntype, BaseRefRuntype, buildParserFromRuntype, TypedArrayRuntype, MapRuntype, SetRuntype } = R;
class RefRuntype extends BaseRefRuntype { getNamedRuntypes() { return namedRuntypes; } }
`;
  const post = `
const acc = {};
for (const k of Object.keys(buildParsersInput)) { acc[k] = buildParserFromRuntype(buildParsersInput[k], k, false); }
export default acc;
`;
  mkdirSync(path.join(here, "out", "mod"), { recursive: true });
  const f = path.join(here, "out", "mod", name + ".mjs");
  writeFileSync(f, pre + body + post);
  return (await import(pathToFileURL(f).href + "?t=" + Date.now())).default;
}
// the C11 oracle on one (parser, value): returns a row
export function row(p, label, v) {
  let d, s, sp;
  try { d = p.validate(v); } catch (e) { d = "THROW " + e.message; }
  try { s = p.validate(v, { disallowExtraProperties: true }); } catch (e) { s = "THROW " + e.message; }
  try { sp = p.safeParse(v, { disallowExtraProperties: true }); } catch (e) { sp = "THROW " + e.message; }
  return { label, default: d, strict: s, strictParse: JSON.stringify(sp) };
}

// C11 finding 1: a declared property called __proto__ is an "extra property" in strict mode
import { load, row } from "./load.mjs";
import { b } from "../packages/beff-client/src/b.ts";
const p = await load("p01_proto");
const show = (r) => console.log(`${r.label.padEnd(64)} default=${r.default} strict=${r.strict} ${r.strictParse}`);
show(row(p.P, 'P={__proto__:string;a:number} <- JSON {"__proto__":"x","a":1}', JSON.parse('{"__proto__":"x","a":1}')));
show(row(p.P, 'P                            <- JSON {"__proto__":5,"a":1}', JSON.parse('{"__proto__":5,"a":1}')));
show(row(p.RP, 'RP=Partial<Record<"__proto__"|"b",number>> <- JSON {"__proto__":1}', JSON.parse('{"__proto__":1}')));
const BP = b.Object({ ["__proto__"]: b.String(), a: b.Number() });
show(row(BP, 'b.Object({["__proto__"]:b.String(),a:b.Number()}) <- same JSON', JSON.parse('{"__proto__":"x","a":1}')));

type L = { "\ud800"?: string; a: string };
parse.buildParsers<{ L: L }>();

const extras: { [k: string]: number } = {};
const onlySpread = { ...extras };
type S1 = typeof onlySpread;
parse.buildParsers<{ S1: S1 }>();

type D3 = { t: true; x: number } | { t: false; y: string };
type O = { a: number };
parse.buildParsers<{ D3: D3; O: O }>();

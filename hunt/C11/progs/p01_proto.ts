type P = { "__proto__": string; a: number };
type RP = Partial<Record<"__proto__" | "b", number>>;
parse.buildParsers<{ P: P; RP: RP }>();

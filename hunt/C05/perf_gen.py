# usage: python3 perf_gen.py <n>  -> writes perf<n>.txt : two structurally identical n-member discriminated unions, U extends V
import sys
n = int(sys.argv[1])
def u(n):
    return " | ".join('{t: "k%d", a: %s, b: %s}' % (i, ['string','number','boolean','null'][i%4], ['number','boolean','null','string'][i%4]) for i in range(n))
open('perf%d.txt' % n,'w').write("type U = %s; type V = %s; ;; U ;; V\n" % (u(n), u(n)))

import * as rt from "../../packages/beff-client/src/codegen-v2.ts";
const { TypeofRuntype, ObjectRuntype } = rt;
const num = new TypeofRuntype(undefined, "number");
const str = new TypeofRuntype(undefined, "string");
const A = new ObjectRuntype(undefined, {}, [{ key: num, value: num }]);
const B = new ObjectRuntype(undefined, {}, [{ key: str, value: str }]);
const ctx = { disallowExtraProperties: false };
for (const v of [{}, { x: "s" }, { 1: "s" }, { 1: 2 }]) {
  console.log(JSON.stringify(v), "B(string->string):", B.validate(ctx, v), "A(number->number):", A.validate(ctx, v));
}

// loader hook: maps ./x.js -> ./x.ts inside packages/beff-client/src and stubs zod
import { existsSync } from "node:fs";
import { fileURLToPath, pathToFileURL } from "node:url";
export async function resolve(specifier, context, nextResolve) {
  if (specifier === "zod") {
    return { url: "data:text/javascript,export const z = {};", shortCircuit: true };
  }
  if (specifier.startsWith(".") && specifier.endsWith(".js") && context.parentURL?.startsWith("file:")) {
    const u = new URL(specifier.replace(/\.js$/, ".ts"), context.parentURL);
    if (existsSync(fileURLToPath(u))) return { url: u.href, shortCircuit: true };
  }
  return nextResolve(specifier, context);
}
import { readFileSync } from "node:fs";
export async function load(url, context, nextLoad) {
  if (url.startsWith("file:") && url.includes("/packages/beff-client/src/") && url.endsWith(".ts")) {
    let src = readFileSync(fileURLToPath(url), "utf8");
    // imports of pure type modules are written without `type`
    src = src.replace(/import \{([^}]*)\} from "\.\/(json-schema|types)\.js";/g, (m, a, f) => `import type {${a.replace(/\btype /g, "")}} from "./${f}.js";`);
    return { format: "module-typescript", source: src, shortCircuit: true };
  }
  return nextLoad(url, context);
}

// Differential fuzzer for the assignability decision (property C05).
//   node fuzz.mjs gen <seed> <count> > pairs.txt        (lines "decls ;; A ;; B" for hunt_c05.rs)
//   node fuzz.mjs check <seed> <count> < harness-output   (compares with the value-set reference)
// The reference enumerates EXACT values of A (declared keys only) over a small universe and tests
// them against B read structurally (extra properties allowed).

function rng(seed) {
  let s = seed >>> 0;
  return () => {
    s = (s + 0x6d2b79f5) >>> 0;
    let t = s;
    t = Math.imul(t ^ (t >>> 15), t | 1);
    t ^= t + Math.imul(t ^ (t >>> 7), t | 61);
    return ((t ^ (t >>> 14)) >>> 0) / 4294967296;
  };
}

// ---------- type AST ----------
const P = (k) => ({ k });
const lit = (v) => ({ k: "lit", v });
const arr = (t) => ({ k: "list", prefix: [], rest: t });
const tup = (prefix, rest) => ({ k: "list", prefix, rest });
const obj = (props, idx) => ({ k: "obj", props, idx }); // props: {name: {t, opt}}
const uni = (ts) => ({ k: "union", ts });
const inter = (ts) => ({ k: "inter", ts });
const ref = (n) => ({ k: "ref", n });

function show(t) {
  switch (t.k) {
    case "null": case "boolean": case "number": case "string": case "never":
      return t.k;
    case "lit":
      return JSON.stringify(t.v);
    case "list": {
      if (t.prefix.length === 0 && t.rest) return `Array<${show(t.rest)}>`;
      const parts = t.prefix.map(show);
      if (t.rest) parts.push(`...Array<${show(t.rest)}>`);
      return `[${parts.join(", ")}]`;
    }
    case "obj": {
      const parts = Object.keys(t.props).map((n) => `${n}${t.props[n].opt ? "?" : ""}: ${show(t.props[n].t)}`);
      if (t.idx) parts.push(`[k: string]: ${show(t.idx)}`);
      return `{${parts.join(", ")}}`;
    }
    case "union":
      return "(" + t.ts.map(show).join(" | ") + ")";
    case "inter":
      return "(" + t.ts.map(show).join(" & ") + ")";
    case "ref":
      return t.n;
  }
}

// ---------- generator ----------
function gen(r, depth, env) {
  const pick = (a) => a[Math.floor(r() * a.length)];
  const leaf = () => {
    const x = r();
    if (x < 0.12) return P("null");
    if (x < 0.22) return P("boolean");
    if (x < 0.34) return P("number");
    if (x < 0.46) return P("string");
    if (x < 0.5) return P("never");
    if (env.refs.length && x < 0.6) return ref(pick(env.refs));
    return lit(pick([true, false, 0, 1, "a", "b"]));
  };
  if (depth <= 0) return leaf();
  const x = r();
  if (x < 0.2) return leaf();
  if (x < 0.55) {
    const props = {};
    const n = Math.floor(r() * 3);
    for (let i = 0; i < n; i++) {
      props[pick(["a", "b", "c"])] = { t: gen(r, depth - 1, env), opt: r() < 0.4 };
    }
    const idx = r() < 0.3 ? gen(r, depth - 1, env) : null;
    return obj(props, idx);
  }
  if (x < 0.7) {
    if (r() < 0.5) return arr(gen(r, depth - 1, env));
    const n = Math.floor(r() * 3);
    const prefix = [];
    for (let i = 0; i < n; i++) prefix.push(gen(r, depth - 1, env));
    return tup(prefix, r() < 0.4 ? gen(r, depth - 1, env) : null);
  }
  if (x < 0.9) {
    const n = 2 + Math.floor(r() * 2);
    const ts = [];
    for (let i = 0; i < n; i++) ts.push(gen(r, depth - 1, env));
    return uni(ts);
  }
  // intersections: of objects only (others are refused or trivially empty)
  const ts = [];
  for (let i = 0; i < 2; i++) {
    let t = gen(r, depth - 1, env);
    if (t.k !== "obj") t = obj({ [pick(["a", "b"])]: { t, opt: r() < 0.4 } }, null);
    ts.push(t);
  }
  // two index signatures of the same key type are fine
  return inter(ts);
}

function clone(t) {
  return JSON.parse(JSON.stringify(t));
}
// a type related to `t` (wider, narrower or equivalent)
function mutate(t0, r, env, depth) {
  const pick = (a) => a[Math.floor(r() * a.length)];
  const t = clone(t0);
  const x = r();
  if (x < 0.08) return t;
  if (x < 0.16) return uni(r() < 0.5 ? [t, gen(r, 1, env)] : [gen(r, 1, env), t]);
  switch (t.k) {
    case "lit":
      return r() < 0.6 ? P(typeof t.v) : uni([t, gen(r, 0, env)]);
    case "boolean":
      return r() < 0.5 ? uni([lit(true), lit(false)]) : lit(true);
    case "number":
    case "string":
      return r() < 0.5 ? lit(t.k === "number" ? 1 : "a") : uni([t, P("null")]);
    case "null":
    case "never":
      return gen(r, 0, env);
    case "ref":
      return r() < 0.5 && env.defs[t.n] ? clone(env.defs[t.n]) : t;
    case "union": {
      const y = r();
      if (y < 0.25 && t.ts.length > 1) t.ts.splice(Math.floor(r() * t.ts.length), 1);
      else if (y < 0.45) t.ts.push(gen(r, 1, env));
      else if (y < 0.6) t.ts.reverse();
      else {
        const i = Math.floor(r() * t.ts.length);
        t.ts[i] = mutate(t.ts[i], r, env, depth - 1);
      }
      return t;
    }
    case "inter": {
      const y = r();
      if (y < 0.3) return t.ts[Math.floor(r() * t.ts.length)];
      if (y < 0.5) { t.ts.reverse(); return t; }
      if (y < 0.7 && t.ts.every((m) => m.k === "obj" && !m.idx)) {
        // merged spelling
        const props = {};
        for (const m of t.ts) for (const k of Object.keys(m.props)) {
          if (k in props) return t;
          props[k] = m.props[k];
        }
        return obj(props, null);
      }
      const i = Math.floor(r() * t.ts.length);
      const m = mutate(t.ts[i], r, env, depth - 1);
      if (m.k === "obj") t.ts[i] = m;
      return t;
    }
    case "obj": {
      const keys = Object.keys(t.props);
      const y = r();
      if (y < 0.15 && keys.length) { const k = pick(keys); t.props[k].opt = !t.props[k].opt; return t; }
      if (y < 0.27 && keys.length) { delete t.props[pick(keys)]; return t; }
      if (y < 0.4) { t.props[pick(["a", "b", "c"])] = { t: gen(r, 1, env), opt: r() < 0.5 }; return t; }
      if (y < 0.6 && keys.length) { const k = pick(keys); t.props[k].t = mutate(t.props[k].t, r, env, depth - 1); return t; }
      if (y < 0.7) { t.idx = t.idx ? null : gen(r, 1, env); return t; }
      if (y < 0.8 && t.idx) { t.idx = mutate(t.idx, r, env, depth - 1); return t; }
      if (y < 0.9 && keys.length) {
        // distribute a union-typed property over the object
        const k = pick(keys);
        if (t.props[k].t.k === "union") {
          return uni(t.props[k].t.ts.map((m) => { const c = clone(t); c.props[k].t = m; return c; }));
        }
        return t;
      }
      if (keys.length >= 2 && !t.idx) {
        const a = {}, b = {};
        keys.forEach((k, i) => ((i % 2 ? a : b)[k] = t.props[k]));
        return inter([obj(a, null), obj(b, null)]);
      }
      return t;
    }
    case "list": {
      const y = r();
      if (y < 0.2 && t.prefix.length) { const i = Math.floor(r() * t.prefix.length); t.prefix[i] = mutate(t.prefix[i], r, env, depth - 1); return t; }
      if (y < 0.35 && t.rest) { t.rest = mutate(t.rest, r, env, depth - 1); return t; }
      if (y < 0.5) { t.rest = t.rest ? null : gen(r, 1, env); return t; }
      if (y < 0.6 && t.prefix.length) { t.prefix.pop(); return t; }
      if (y < 0.7) { t.prefix.push(t.rest ? clone(t.rest) : gen(r, 1, env)); return t; }
      if (y < 0.8 && t.prefix.length) return arr(uni([...t.prefix, ...(t.rest ? [t.rest] : [])]));
      if (y < 0.9 && t.rest) {
        // Array<T> = [] | [T, ...T[]]
        return uni([tup(clone(t.prefix), null), tup([...clone(t.prefix), clone(t.rest)], clone(t.rest))]);
      }
      if (t.prefix.length && t.prefix[0].k === "union") {
        return uni(t.prefix[0].ts.map((m) => { const c = clone(t); c.prefix[0] = m; return c; }));
      }
      return t;
    }
  }
  return t;
}

// a type that contains every value of `t` (so t <: widen(t) must hold)
function widen(t0, r, env) {
  const pick = (a) => a[Math.floor(r() * a.length)];
  const t = clone(t0);
  const x = r();
  if (x < 0.05) return t;
  if (x < 0.15) return uni(r() < 0.5 ? [t, gen(r, 1, env)] : [gen(r, 1, env), t]);
  switch (t.k) {
    case "lit":
      return r() < 0.7 ? P(typeof t.v) : uni([gen(r, 0, env), t]);
    case "boolean":
      return uni(r() < 0.5 ? [lit(true), lit(false)] : [lit(false), lit(true), P("null")]);
    case "number":
    case "string":
    case "null":
      return uni([gen(r, 0, env), t]);
    case "never":
      return gen(r, 1, env);
    case "ref":
      return env.defs[t.n] ? clone(env.defs[t.n]) : t;
    case "union": {
      const y = r();
      if (y < 0.3) t.ts.splice(Math.floor(r() * (t.ts.length + 1)), 0, gen(r, 1, env));
      else if (y < 0.5) t.ts.reverse();
      else {
        const i = Math.floor(r() * t.ts.length);
        t.ts[i] = widen(t.ts[i], r, env);
      }
      return t;
    }
    case "inter": {
      const y = r();
      if (y < 0.3) return t.ts[Math.floor(r() * t.ts.length)];
      if (y < 0.5) { t.ts.reverse(); return t; }
      const i = Math.floor(r() * t.ts.length);
      const m = widen(t.ts[i], r, env);
      if (m.k === "obj") t.ts[i] = m;
      return t;
    }
    case "obj": {
      const keys = Object.keys(t.props);
      const y = r();
      if (y < 0.15 && keys.length) { t.props[pick(keys)].opt = true; return t; }
      if (y < 0.3 && keys.length && !t.idx) { delete t.props[pick(keys)]; return t; }
      if (y < 0.55 && keys.length) { const k = pick(keys); t.props[k].t = widen(t.props[k].t, r, env); return t; }
      if (y < 0.65 && t.idx) { t.idx = null; return t; }
      if (y < 0.8 && t.idx) { t.idx = widen(t.idx, r, env); return t; }
      if (y < 0.9 && keys.length) {
        const k = pick(keys);
        if (t.props[k].t.k === "union") {
          return uni(t.props[k].t.ts.map((m) => { const c = clone(t); c.props[k].t = m; return c; }));
        }
        return t;
      }
      if (keys.length >= 2 && !t.idx) {
        const a = {}, b = {};
        keys.forEach((k, i) => ((i % 2 ? a : b)[k] = t.props[k]));
        return inter([obj(a, null), obj(b, null)]);
      }
      return t;
    }
    case "list": {
      const y = r();
      if (y < 0.25 && t.prefix.length) { const i = Math.floor(r() * t.prefix.length); t.prefix[i] = widen(t.prefix[i], r, env); return t; }
      if (y < 0.4 && t.rest) { t.rest = widen(t.rest, r, env); return t; }
      if (y < 0.5 && !t.rest) { t.rest = gen(r, 1, env); return t; }
      if (y < 0.6 && t.prefix.length && t.rest) { const last = t.prefix.pop(); t.rest = uni([t.rest, last]); return t; }
      if (y < 0.7 && t.prefix.length) return arr(uni([...t.prefix, ...(t.rest ? [t.rest] : [])]));
      if (y < 0.85 && t.rest) {
        return uni([tup(clone(t.prefix), null), tup([...clone(t.prefix), clone(t.rest)], clone(t.rest))]);
      }
      if (t.prefix.length && t.prefix[0].k === "union") {
        return uni(t.prefix[0].ts.map((m) => { const c = clone(t); c.prefix[0] = m; return c; }));
      }
      return t;
    }
  }
  return t;
}

function genCase(r) {
  const env = { refs: [], defs: {} };
  const decls = [];
  if (r() < 0.4) {
    const names = r() < 0.5 ? ["N0"] : ["N0", "N1"];
    env.refs = names;
    for (const n of names) {
      // named types must be objects or tuples for recursion to be accepted
      let t;
      for (;;) {
        t = gen(r, 2, env);
        if (t.k === "obj" || (t.k === "list" && t.prefix.length > 0)) break;
      }
      env.defs[n] = t;
      decls.push(`type ${n} = ${show(t)};`);
    }
  }
  let A = gen(r, Number(process.env.DEPTH || 2), env);
  let B = clone(A);
  const n = 1 + Math.floor(r() * Number(process.env.STEPS || 3));
  let expectY = false;
  if (process.env.WIDEN) {
    for (let i = 0; i < n; i++) B = widen(B, r, env);
    expectY = true;
  } else {
    for (let i = 0; i < n; i++) B = mutate(B, r, env, 2);
    if (r() < 0.5) [A, B] = [B, A];
  }
  return { decls: decls.join(" "), A, B, env, expectY };
  return { decls: decls.join(" "), A, B, env };
}

// ---------- reference ----------
const KEYPOOL = ["a", "b", "c", "p", "q"];
const MAXV = 1200;
function cap(a) {
  return sample(a, MAXV);
}
function kindOf(v) {
  if (v === null) return "null";
  if (Array.isArray(v)) return "arr" + Math.min(v.length, 2);
  if (typeof v === "object") return "obj:" + Object.keys(v).sort().join(",");
  return typeof v;
}
// keeps at most n values, round-robin over the kinds of value present
function sample(a, n) {
  if (a.length <= n) return a;
  const groups = new Map();
  for (const v of a) {
    const k = kindOf(v);
    if (!groups.has(k)) groups.set(k, []);
    groups.get(k).push(v);
  }
  const gs = [...groups.values()];
  const out = [];
  for (let round = 0; out.length < n; round++) {
    let any = false;
    for (const g of gs) {
      if (round < g.length && out.length < n) {
        // spread inside the group
        out.push(g[round % 2 === 0 ? round / 2 : g.length - 1 - (round - 1) / 2]);
        any = true;
      }
    }
    if (!any) break;
  }
  return out;
}
// full product when small, otherwise every pair of positions takes all combinations of its options
// while the others stay at a base choice (first or last option)
function combos(options) {
  let size = 1;
  for (const o of options) size *= o.length;
  if (size <= 1500) {
    let partial = [[]];
    for (const o of options) {
      const next = [];
      for (const p of partial) for (const v of o) next.push([...p, v]);
      partial = next;
    }
    return partial;
  }
  const out = [];
  const n = options.length;
  for (const base of [0, 1]) {
    const b = options.map((o) => (base === 0 ? o[0] : o[o.length - 1]));
    for (let i = 0; i < n; i++) for (let j = i + 1; j < n; j++) {
      for (const x of options[i]) for (const y of options[j]) {
        const c = b.slice();
        c[i] = x;
        c[j] = y;
        out.push(c);
      }
    }
  }
  return out;
}
function dedupe(vs) {
  const seen = new Set();
  const out = [];
  for (const v of vs) {
    const s = JSON.stringify(v, (k, x) => (x && typeof x === "object" && !Array.isArray(x) ? Object.fromEntries(Object.entries(x).sort()) : x));
    if (!seen.has(s)) {
      seen.add(s);
      out.push(v);
    }
  }
  return out;
}

// exact values of the intersection of the list of types `ts`
function exact(ts, env, fuel) {
  if (fuel < 0) return [];
  // unfold refs, flatten inter, distribute unions
  for (let i = 0; i < ts.length; i++) {
    const t = ts[i];
    if (t.k === "ref") return exact([...ts.slice(0, i), env.defs[t.n], ...ts.slice(i + 1)], env, fuel - 1);
    if (t.k === "inter") return exact([...ts.slice(0, i), ...t.ts, ...ts.slice(i + 1)], env, fuel);
    if (t.k === "union") {
      let out = [];
      for (const m of t.ts) out = out.concat(exact([...ts.slice(0, i), m, ...ts.slice(i + 1)], env, fuel));
      return cap(dedupe(out));
    }
  }
  if (ts.some((t) => t.k === "never")) return [];
  const kinds = new Set(ts.map((t) => (t.k === "lit" ? typeof t.v : t.k)));
  if (ts.every((t) => t.k === "obj")) {
    // merged exact object
    const declared = new Set();
    let anyIdx = false;
    for (const t of ts) {
      Object.keys(t.props).forEach((k) => declared.add(k));
      if (t.idx) anyIdx = true;
    }
    const keys = anyIdx ? KEYPOOL : [...declared];
    const ABSENT = { absent: true };
    const options = [];
    for (const k of keys) {
      const cons = [];
      let mayBeAbsent = true;
      for (const t of ts) {
        if (k in t.props) {
          cons.push(t.props[k].t);
          if (!t.props[k].opt) mayBeAbsent = false;
        } else if (t.idx) {
          cons.push(t.idx);
        }
      }
      let vals = cons.length ? exact(cons, env, fuel - 1) : [];
      vals = sample(vals, declared.has(k) ? 14 : 8);
      const o = mayBeAbsent ? [ABSENT, ...vals] : vals;
      if (!o.length) return [];
      options.push(o);
    }
    const build = (choice) => {
      const v = {};
      keys.forEach((k, i) => { if (choice[i] !== ABSENT) v[k] = choice[i]; });
      return v;
    };
    const partial = combos(options).map(build);
    return cap(partial);
  }
  if (ts.every((t) => t.k === "list")) {
    let out = [];
    const maxPrefix = Math.max(...ts.map((t) => t.prefix.length));
    for (let len = 0; len <= maxPrefix + 2; len++) {
      let ok = true;
      const elemCons = [];
      for (let i = 0; i < len; i++) elemCons.push([]);
      for (const t of ts) {
        if (len < t.prefix.length || (len > t.prefix.length && !t.rest)) {
          ok = false;
          break;
        }
        for (let i = 0; i < len; i++) elemCons[i].push(i < t.prefix.length ? t.prefix[i] : t.rest);
      }
      if (!ok) continue;
      const options = [];
      let dead = false;
      for (let i = 0; i < len; i++) {
        const vals = sample(exact(elemCons[i], env, fuel - 1), 10);
        if (!vals.length) { dead = true; break; }
        options.push(vals);
      }
      if (dead) continue;
      const partial = combos(options);
      out = out.concat(partial);
    }
    return cap(out);
  }
  if (kinds.size !== 1 && !(kinds.size === 2 && ts.some((t) => t.k === "lit"))) {
    // mixed: only literal-vs-primitive can overlap
    const prim = ts.filter((t) => t.k !== "lit").map((t) => t.k);
    const lits = ts.filter((t) => t.k === "lit");
    if (!lits.length) return [];
    const v = lits[0].v;
    if (!lits.every((l) => l.v === v)) return [];
    if (!prim.every((p) => p === typeof v)) return [];
    return [v];
  }
  // single kind
  const lits = ts.filter((t) => t.k === "lit");
  if (lits.length) {
    const v = lits[0].v;
    if (!lits.every((l) => l.v === v)) return [];
    if (!ts.every((t) => t.k === "lit" || t.k === typeof v)) return [];
    return [v];
  }
  switch (ts[0].k) {
    case "null":
      return [null];
    case "boolean":
      return [true, false];
    case "number":
      return [0, 1, 2];
    case "string":
      return ["a", "b", "c"];
  }
  return [];
}

// structural membership
function member(v, t, env) {
  switch (t.k) {
    case "never":
      return false;
    case "null":
      return v === null;
    case "boolean":
    case "number":
    case "string":
      return typeof v === t.k;
    case "lit":
      return v === t.v;
    case "ref":
      return member(v, env.defs[t.n], env);
    case "union":
      return t.ts.some((m) => member(v, m, env));
    case "inter":
      return t.ts.every((m) => member(v, m, env));
    case "list": {
      if (!Array.isArray(v)) return false;
      if (v.length < t.prefix.length) return false;
      if (v.length > t.prefix.length && !t.rest) return false;
      return v.every((x, i) => member(x, i < t.prefix.length ? t.prefix[i] : t.rest, env));
    }
    case "obj": {
      if (v === null || typeof v !== "object" || Array.isArray(v)) return false;
      for (const k of Object.keys(t.props)) {
        if (!(k in v)) {
          if (!t.props[k].opt) return false;
        } else if (!member(v[k], t.props[k].t, env)) return false;
      }
      if (t.idx) {
        for (const k of Object.keys(v)) {
          if (k in t.props) continue;
          if (!member(v[k], t.idx, env)) return false;
        }
      }
      return true;
    }
  }
}

function objLike(t, env) {
  return t.k === "obj" || t.k === "inter" || (t.k === "ref" && env.defs[t.n].k === "obj") || (t.k === "union" && t.ts.some((m) => objLike(m, env)));
}
function flatUnion(t) {
  return t.k === "union" ? t.ts.flatMap(flatUnion) : [t];
}
// a union with two object members somewhere: the family of the known union-order defect
function hasObjUnion(t, env, seen = new Set()) {
  switch (t.k) {
    case "union": {
      const ms = flatUnion(t);
      if (ms.filter((m) => objLike(m, env)).length >= 2) return true;
      return ms.some((m) => hasObjUnion(m, env, seen));
    }
    case "inter":
      return t.ts.some((m) => hasObjUnion(m, env, seen));
    case "obj":
      return Object.values(t.props).some((p) => hasObjUnion(p.t, env, seen)) || (t.idx ? hasObjUnion(t.idx, env, seen) : false);
    case "list":
      return t.prefix.some((m) => hasObjUnion(m, env, seen)) || (t.rest ? hasObjUnion(t.rest, env, seen) : false);
    case "ref":
      if (seen.has(t.n)) return false;
      seen.add(t.n);
      return hasObjUnion(env.defs[t.n], env, seen);
  }
  return false;
}
const [mode, seedS, countS] = process.argv.slice(2);
const seed = Number(seedS), count = Number(countS);
const r = rng(seed);
const cases = [];
for (let i = 0; i < count; i++) cases.push(genCase(r));

if (mode === "gen") {
  for (const c of cases) console.log(`${c.decls} ;; ${show(c.A)} ;; ${show(c.B)}`);
} else {
  const fs = await import("node:fs");
  const lines = fs.readFileSync(0, "utf8").split("\n").filter((l) => /^(Y|N|ERR|\?\?)/.test(l));
  if (lines.length !== cases.length) console.log("line count mismatch", lines.length, cases.length);
  let wrongY = 0, suspN = 0, err = 0;
  lines.forEach((l, i) => {
    const c = cases[i];
    const ans = l.split("|")[0].trim();
    if (ans.startsWith("ERR")) { err++; return; }
    const vals = exact([c.A], c.env, 6);
    const witness = vals.find((v) => !member(v, c.B, c.env));
    if (ans === "Y" && witness !== undefined) {
      wrongY++;
      console.log(`WRONG-Y${hasObjUnion(c.A, c.env) ? "(objunion)" : "!!!"}  ${c.decls} ;; ${show(c.A)} ;; ${show(c.B)}   witness ${JSON.stringify(witness)}`);
    }
    if (ans === "N" && c.expectY) {
      console.log(`MUST-BE-Y ${c.decls} ;; ${show(c.A)} ;; ${show(c.B)}`);
    }
    if (ans === "N" && witness === undefined && !c.expectY) {
      suspN++;
      console.log(`SUSP-N   ${c.decls} ;; ${show(c.A)} ;; ${show(c.B)}   (${vals.length} values, all members)`);
    }
  });
  console.log(`cases ${cases.length} wrongY ${wrongY} suspN ${suspN} err ${err}`);
}

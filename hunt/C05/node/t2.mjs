// runtime value sets behind the Map and optional/undefined findings
import * as rt from "../../packages/beff-client/src/codegen-v2.ts";
const { TypeofRuntype, ObjectRuntype, MapRuntype, AnyOfRuntype, ConstRuntype, NullishRuntype, OptionalFieldRuntype, NeverRuntype } = rt;
const ctx = { disallowExtraProperties: false };
const str = new TypeofRuntype(undefined, "string");
const num = new TypeofRuntype(undefined, "number");
const A = new ConstRuntype(undefined, "a");
const B = new ConstRuntype(undefined, "b");
const AB = new AnyOfRuntype(undefined, [A, B]);

console.log("--- Map<string,'a'|'b'>  vs  Map<string,'a'> | Map<string,'b'>");
const mAB = new MapRuntype(undefined, str, AB);
const mA_or_mB = new AnyOfRuntype(undefined, [new MapRuntype(undefined, str, A), new MapRuntype(undefined, str, B)]);
const w = new Map([["x", "a"], ["y", "b"]]);
console.log("Map{x:a,y:b}  in left:", mAB.validate(ctx, w), " in right:", mA_or_mB.validate(ctx, w));

console.log("--- Map<string|number,string>  vs  Map<string,string> | Map<string|number,string>");
const sn = new AnyOfRuntype(undefined, [str, num]);
const left = new MapRuntype(undefined, sn, str);
const right = new AnyOfRuntype(undefined, [new MapRuntype(undefined, str, str), new MapRuntype(undefined, sn, str)]);
for (const v of [new Map(), new Map([["x", "s"]]), new Map([[1, "s"]]), new Map([[1, "s"], ["x", "t"]])]) {
  console.log([...v], "left:", left.validate(ctx, v), "right:", right.validate(ctx, v));
}

console.log("--- Map<string,never>  vs  Map<number,number>");
const mNever = new MapRuntype(undefined, str, new NeverRuntype(undefined));
const mNN = new MapRuntype(undefined, num, num);
for (const v of [new Map(), new Map([["x", 1]])]) {
  console.log([...v], "Map<string,never>:", mNever.validate(ctx, v), "Map<number,number>:", mNN.validate(ctx, v));
}

console.log("--- {a: string | undefined}  vs  {a?: string}");
const undef = new NullishRuntype(undefined, "undefined");
const L = new ObjectRuntype(undefined, { a: new AnyOfRuntype(undefined, [undef, str]) }, []);
const R = new ObjectRuntype(undefined, { a: new OptionalFieldRuntype(str) }, []);
for (const v of [{}, { a: undefined }, { a: "s" }, { a: 1 }]) {
  console.log(v, "{a: string|undefined}:", L.validate(ctx, v), "{a?: string}:", R.validate(ctx, v));
}

import * as rt from "../../packages/beff-client/src/codegen-v2.ts";
const { TypeofRuntype, ObjectRuntype, OptionalFieldRuntype } = rt;
const ctx = { disallowExtraProperties: false };
const str = new TypeofRuntype(undefined, "string");
const T = new ObjectRuntype(undefined, { toString: new OptionalFieldRuntype(str) }, []);
console.log("{} valid for {toString?: string}:", T.validate(ctx, {}));

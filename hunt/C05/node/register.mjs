import { register } from "node:module";
register("./hook.mjs", import.meta.url);

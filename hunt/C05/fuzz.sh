#!/bin/sh
# usage: fuzz.sh <seed> <count>
N=/root/.nvm/versions/node/v22.22.2/bin/node
D=/tmp/hunt-C05/_hunt
cd $D/node && $N fuzz.mjs gen $1 $2 > $D/fz.txt || exit 1
cd /tmp/hunt-C05 && HUNT_FILE=$D/fz.txt CARGO_NET_OFFLINE=true CARGO_TARGET_DIR=/tmp/hunt-C05/target cargo test -p beff-core --test hunt_c05 -- --nocapture 2>/dev/null > $D/fz.out
cd $D/node && $N fuzz.mjs check $1 $2 < $D/fz.out

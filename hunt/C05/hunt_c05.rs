// Copy to packages/beff-core/tests/hunt_c05.rs
// HUNT_FILE=<file> cargo test -p beff-core --test hunt_c05 -- --nocapture
// every non-empty, non-# line:   decls ;; A ;; B     -> prints whether  A extends B
// a line starting with "PRINT " prints the types of the program that follows (\n as literal backslash-n)
#[cfg(test)]
mod tests {
    use beff_core::test_tools::{print_cgen, print_types};

    fn run(prog: String) -> String {
        let r = std::panic::catch_unwind(|| print_types(&prog));
        match r {
            Ok(s) => s,
            Err(e) => {
                let msg = if let Some(s) = e.downcast_ref::<String>() {
                    s.clone()
                } else if let Some(s) = e.downcast_ref::<&str>() {
                    s.to_string()
                } else {
                    "?".to_string()
                };
                format!("ERR {}", msg.chars().take(300).collect::<String>())
            }
        }
    }

    #[test]
    fn hunt() {
        std::panic::set_hook(Box::new(|_| {}));
        let f = std::env::var("HUNT_FILE").expect("HUNT_FILE");
        let txt = std::fs::read_to_string(f).unwrap();
        for line in txt.lines() {
            let line = line.trim();
            if line.is_empty() || line.starts_with('#') {
                continue;
            }
            if let Some(p) = line.strip_prefix("CGEN ") {
                let prog = p.replace("\\n", "\n");
                let r = std::panic::catch_unwind(|| print_cgen(&prog));
                println!("=== {}\n{}", line, r.unwrap_or("ERR".to_string()));
                continue;
            }
            if let Some(p) = line.strip_prefix("PRINT ") {
                let prog = p.replace("\\n", "\n");
                println!("=== {}\n{}", line, run(prog));
                continue;
            }
            let parts: Vec<&str> = line.split(";;").collect();
            if parts.len() != 3 {
                println!("BAD LINE {}", line);
                continue;
            }
            let prog = format!(
                "{}\ntype R = {} extends {} ? \"Y\" : \"N\";\nparse.buildParsers<{{ R: R }}>();\n",
                parts[0].trim(),
                parts[1].trim(),
                parts[2].trim()
            );
            let out = run(prog);
            let res = if out.starts_with("ERR") {
                out.clone()
            } else if out.contains("type R = \"Y\"") {
                "Y".to_string()
            } else if out.contains("type R = \"N\"") {
                "N".to_string()
            } else {
                format!("?? {}", out)
            };
            println!("{:<4} | {} | {}  <:  {}", res, parts[0].trim(), parts[1].trim(), parts[2].trim());
        }
    }
}

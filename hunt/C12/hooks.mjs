// loader hook: map ./x.js -> ./x.ts inside packages/beff-client/src, stub zod,
// and make imports from the type-only modules (types.ts, json-schema.ts) type-only for strip-types
import { existsSync, readFileSync } from "node:fs";
import { fileURLToPath, pathToFileURL } from "node:url";
export async function resolve(specifier, context, nextResolve) {
  if (specifier === "zod") {
    return { url: "data:text/javascript,export const z={custom:(a,b)=>({a,b})};", shortCircuit: true };
  }
  if (specifier.startsWith(".") && specifier.endsWith(".js") && context.parentURL?.startsWith("file:")) {
    const p = fileURLToPath(new URL(specifier, context.parentURL));
    if (!existsSync(p)) {
      const ts = p.slice(0, -3) + ".ts";
      if (existsSync(ts)) return { url: pathToFileURL(ts).href, shortCircuit: true };
    }
  }
  return nextResolve(specifier, context);
}
export async function load(url, context, nextLoad) {
  if (url.startsWith("file:") && url.includes("/packages/beff-client/src/") && url.endsWith(".ts")) {
    let src = readFileSync(fileURLToPath(url), "utf8");
    src = src.replace(
      /^(import|export) \{([^}]*)\} from "\.\/(types|json-schema)\.js";/gm,
      (m, kw, names, mod) => `${kw} type {${names.replace(/\btype /g, "")}} from "./${mod}.js";`,
    );
    src = src.replace(/^\s*Runtype,\n/m, ""); // b.ts imports the interface Runtype among values
    return { format: "module-typescript", source: src, shortCircuit: true };
  }
  return nextLoad(url, context);
}

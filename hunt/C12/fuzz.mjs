// invariant checker over hostile values for the parsers of p1/p3/p4/p5
import P1 from "./out/p1.mjs"; import P3 from "./out/p3.mjs"; import P4 from "./out/p4.mjs"; import P5 from "./out/p5.mjs";
import { formats, printErrors } from "./common.mjs";
const parsers = { ...P1.buildParsers(formats) };
for (const [pre, P] of [["3", P3], ["4", P4], ["5", P5]]) for (const [k, v] of Object.entries(P.buildParsers(formats))) parsers[pre + k] = v;
const np = Object.create(null); np.type = "a"; np.x = 1;
const nptj = Object.create(null); nptj.toJSON = () => undefined;
const sym = Symbol("s");
class K { get type() { return "a"; } get x() { return 5; } }
const sparse = []; sparse[3] = "x";
const hostile = [
  undefined, null, NaN, -0, 1e308 * 10, 10n, sym, () => 1, "", "__proto__", np, nptj, new K(), sparse, [ , ], new String("x"), new Number(1),
  { __proto__: null }, JSON.parse('{"__proto__": 1, "type": "a"}'), JSON.parse('{"type":"__proto__"}'), { type: "toString" }, { type: ["a"] }, { type: { toString() { return "a"; } } },
  { k: "constructor" }, { t: "p", inner: { t: "hasOwnProperty" } }, { t: "p", inner: [] }, { t: "p" },
  new Map([[sym, 1]]), new Map([[nptj, 1]]), new Map([[NaN, "x"], [null, "y"]]), new Map([["a", 10n]]), new Map([[{}, 1], [{}, 2]]),
  new Set([sym]), new Set([nptj]), new Set([{ id: 10n }, { id: "x" }, { id: "x" }]), new Set([new Set()]),
  ["a", "b", "c"], ["a", undefined, 1], [1], Object.assign(["a"], { extra: 1 }), new Proxy({}, {}), new Proxy([], {}), new Date(NaN), /x/, new Uint8Array(3),
  { next: { next: { next: 1 } } }, { 1: "a" }, { "a.b": 1, "[0]": 2 }, { a: 10n, b: () => 1, c: sym }, [[["x", 10n, sym]]], { vals: sparse, id: 1 }, { vals: [1, "x"], id: 1 },
  { a: "x", c: "bad" }, -1, 2, 3, "-1",
];
const sstr = (v) => { try { const o = JSON.stringify(v, (_, x) => typeof x === "bigint" ? `${x}n` : x); return o === undefined ? String(v) : o; } catch { return "?"; } };
function resolve(root, path) {
  let cur = root, exists = true;
  for (const seg of path) {
    if (cur === null || (typeof cur !== "object" && typeof cur !== "function")) return { bad: `segment ${seg} under non-object ${typeof cur}` };
    let m;
    if (cur instanceof Map && (m = /^(key|value)\((.*)\)$/s.exec(seg))) { const hit = [...cur].filter(([k]) => sstr(k) === m[2] || String(k) === m[2]); if (!hit.length) return { bad: "no map member " + seg }; return { multi: hit.map(([k, v]) => m[1] === "key" ? k : v) }; }
    if (cur instanceof Set && (m = /^item\((.*)\)$/s.exec(seg))) { const hit = [...cur].filter((k) => sstr(k) === m[1] || String(k) === m[1]); if (!hit.length) return { bad: "no set member " + seg }; return { multi: hit }; }
    if (Array.isArray(cur) && (m = /^\[(\d+)\]$/.exec(seg))) { cur = cur[Number(m[1])]; continue; }
    cur = cur[seg];
  }
  return { value: cur };
}
let problems = 0;
const flag = (...a) => { problems++; console.log("PROBLEM", ...a); };
function checkErrs(name, v, errs, root, nested) {
  if (errs.length < 1 && !nested) flag(name, sstr(v), "no errors");
  if (errs.length > 10) flag(name, sstr(v).slice(0, 60), nested ? "nested" : "top", "count", errs.length);
  for (const e of errs) {
    const r = resolve(root, e.path);
    if (r.bad) flag(name, sstr(v), "path", JSON.stringify(e.path), r.bad);
    else if (r.multi) { if (!r.multi.some((x) => Object.is(x, e.received)) && !e.isUnionError) { /* nested below member: skip */ } }
    else if (!Object.is(r.value, e.received)) flag(name, sstr(v), "received mismatch at", JSON.stringify(e.path), "reported", sstr(e.received), "found", sstr(r.value), "msg:", e.message);
    if (e.isUnionError && !r.bad && !r.multi) checkErrs(name, v, e.errors, r.value, true);
  }
}
for (const [name, p] of Object.entries(parsers)) for (const v of hostile) {
  let r;
  try { r = p.safeParse(v, { disallowExtraProperties: process.env.STRICT === "1" }); } catch (e) { flag(name, sstr(v), "safeParse threw", e.message); continue; }
  if (r.success) continue;
  checkErrs(name, v, r.errors, v, false);
  try { const a = printErrors(r.errors), b = printErrors(p.safeParse(v, { disallowExtraProperties: process.env.STRICT === "1" }).errors); if (a !== b) flag(name, sstr(v), "nondeterministic"); } catch (e) { flag(name, sstr(v), "printErrors threw", e.message); }
  try { p.parse(v); } catch (e) { if (!e.message.startsWith("Failed to parse")) flag(name, sstr(v), "parse threw", e.message); }
}
console.log("done, problems:", problems);

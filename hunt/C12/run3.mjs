import P from "./out/p3.mjs";
import { formats, printErrors } from "./common.mjs";
const p = P.buildParsers(formats);
const tryIt = (name, v) => {
  let val, sp;
  try { val = String(p[name].validate(v)); } catch (e) { val = "THREW " + e.constructor.name; }
  try { const r = p[name].safeParse(v); sp = r.success ? "OK" : "errors=" + r.errors.length; } catch (e) { sp = "THREW " + e.constructor.name + ": " + e.message; }
  return `validate=${val} safeParse=${sp}`;
};
for (const d of [500, 1000, 1500, 2000, 2500, 3000, 4000, 6000]) {
  // plain JSON texts: a chain {"next":{"next":...5}} and nested arrays [[[...[undefined-ish]]]]
  const chain = JSON.parse('{"next":'.repeat(d) + "5" + "}".repeat(d));
  console.log("L depth", d, tryIt("L", chain));
  let arr = JSON.parse("[".repeat(d) + "]".repeat(d));
  // make the innermost leaf invalid for J (a bigint is not JSON)
  let cur = arr; while (cur.length) cur = cur[0]; cur.push(1n);
  console.log("J depth", d, tryIt("J", arr));
}
console.log(tryIt("NumIdx", { 1: "a" }), JSON.stringify(p.NumIdx.safeParse({ 1: "a" })));

import P from "./out/p2.mjs";
import { formats } from "./common.mjs";
const p = P.buildParsers(formats);
let lo = 100000, hi = 150000;
const throws = (n) => { try { p.Batch.safeParse({ items: Array(n).fill("x") }); return false; } catch { return true; } };
while (hi - lo > 500) { const mid = (lo + hi) >> 1; if (throws(mid)) hi = mid; else lo = mid; }
console.log("Batch {items:number[]}: safeParse starts throwing RangeError between", lo, "and", hi, "invalid items; JSON size ~", JSON.stringify({ items: Array(hi).fill("x") }).length, "bytes");
try { p.Batch.parse({ items: Array(hi).fill("x") }); } catch (e) { console.log("parse():", e.constructor.name, e.message); console.log(e.stack.split("\n").slice(1, 4).join("\n")); }

import P from "./out/p2.mjs";
import { formats, printErrors } from "./common.mjs";
const p = P.buildParsers(formats);
for (const n of [10, 1000, 100000, 150000, 200000, 1000000]) {
  const items = JSON.parse("[" + Array(n).fill('"x"').join(",") + "]");
  for (const [name, v] of [["Batch", { items }], ["Pair", [items, "s"]], ["Both", { a: "s", items }]]) {
    try {
      const r = p[name].safeParse(v);
      console.log(name, n, "success:", r.success, "errors:", r.errors?.length);
    } catch (e) {
      console.log(name, n, "safeParse THREW", e.constructor.name, e.message);
    }
  }
}

type L = { next: L | null };
type J = string | number | boolean | null | J[] | { [k: string]: J };
type NumIdx = { [k: number]: string };
type N = -1 | 2;
parse.buildParsers<{ L: L; J: J; NumIdx: NumIdx; N: N }>();

import P from "./out/p6.mjs";
import { formats, printErrors } from "./common.mjs";
const p = P.buildParsers(formats);
for (const n of [50, 100, 150, 200]) {
  const t0 = Date.now(); const r = p.Slug.safeParse("-".repeat(n)); console.log("Slug n=" + n, r.success, (Date.now() - t0) + "ms");
}
for (const d of [10, 15, 18, 20]) {
  let v = 5; for (let i = 0; i < d; i++) v = { a: v };
  const t0 = Date.now(); const ok = p.T.validate(v); const t1 = Date.now(); const r = p.T.safeParse(v); console.log("T depth=" + d, ok, "validate", (t1 - t0) + "ms", "safeParse", (Date.now() - t1) + "ms", "errors", r.errors?.length);
}

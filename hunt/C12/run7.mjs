// Map key / Set item whose JSON.stringify is undefined and that has no toString: safeStringify falls back to String(value), which throws
import P from "./out/p4.mjs";
import { formats } from "./common.mjs";
const p = P.buildParsers(formats);
const k = Object.create(null); k.toJSON = () => undefined;
for (const [n, v] of [["M", new Map([[k, "not a number"]])], ["S", new Set([k])]]) {
  console.log(n, "validate:", p[n].validate(v));
  try { console.log(p[n].safeParse(v)); } catch (e) { console.log(n, "safeParse THREW", e.constructor.name + ":", e.message); }
}

// D1: errors nested in a union error are not capped at ten
import P from "./out/p1.mjs";
import { formats, printErrors } from "./common.mjs";
const p = P.buildParsers(formats);
for (const n of [12, 1000, 100000]) {
  const v = Array.from({ length: n }, (_, i) => "s" + i);
  const r = p.U.safeParse(v); // type U = string | number[]
  const count = (es) => es.reduce((a, e) => a + 1 + (e.isUnionError ? count(e.errors) : 0), 0);
  console.log(`U on ${n} strings: top-level errors=${r.errors.length}, nested errors in errors[0]=${r.errors[0].errors.length}, total reported=${count(r.errors)}, JSON size of report=${JSON.stringify(r.errors).length}`);
}

type A = { type: "a"; x: string } | { type: "b"; y: number };
type U = string | number[];
type I = ({ a: string } | { b: string }) & { c: number };
parse.buildParsers<{ A: A; U: U; I: I }>();

type Batch = { items: number[] };
type Pair = [number[], string];
type Both = { a: string } & { items: number[] };
parse.buildParsers<{ Batch: Batch; Pair: Pair; Both: Both }>();

export { printErrors } from "../packages/beff-client/src/err.ts";
const always = () => true;
export const formats = { stringFormats: { password: always, User: always, ReadAuthorizedUser: always, WriteAuthorizedUser: always }, numberFormats: { age: always, NonInfiniteNumber: always, NonNegativeNumber: always, Rate: always } };

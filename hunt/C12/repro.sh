#!/bin/bash
# Rebuilds the generated parsers with beff-core (integration test packages/beff-core/tests/hunt_c12.rs, copy in _hunt/hunt_c12.rs)
# and runs every reproduction on top of packages/beff-client/src.
set -e
cd /tmp/hunt-C12/_hunt
export CARGO_NET_OFFLINE=true CARGO_TARGET_DIR=/tmp/hunt-C12/target
cp hunt_c12.rs ../packages/beff-core/tests/hunt_c12.rs
(cd .. && cargo test -p beff-core --test hunt_c12 --no-run 2>&1 | tail -2)
mkdir -p out
for n in 1 2 3 4 5 6; do ./compile.sh p$n.ts out/p$n.mjs; done
NODE="/root/.nvm/versions/node/v22.22.2/bin/node --experimental-strip-types --no-warnings --import ./register.mjs"
for s in ${@:-run1b run2 run2b run5 run6 run3 run7}; do echo "=== $s"; $NODE $s.mjs; done

import P from "./out/p5.mjs";
import { formats, printErrors } from "./common.mjs";
const p = P.buildParsers(formats);
const show = (n, v) => { const r = p[n].safeParse(v); console.log(n, JSON.stringify(v), "=>", r.success ? "OK" : JSON.stringify(r.errors)); if (!r.success) console.log("   ", printErrors(r.errors)); };
show("Mix", "hello");
show("Mix", 5);
const vals = Array.from({ length: 12 }, (_, i) => "s" + i);
show("Crowd", { vals, id: 1 });       // accepted?
show("Crowd", { vals, id: "bad" });   // only id is wrong
show("Crowd2", { vals, id: "bad" });

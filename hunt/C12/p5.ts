type Mix = (string | number) & (number | boolean);
type Vals = { vals: number[] } | { vals: string[] };
type WithId = { id: number } | { id: boolean };
type Crowd = Vals & WithId;
type Crowd2 = ({ vals: number[] } | { vals: string[] }) & { id: number };
parse.buildParsers<{ Mix: Mix; Crowd: Crowd; Crowd2: Crowd2 }>();

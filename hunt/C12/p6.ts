type Slug = `${string}-${string}-${string}-${string}-${string}!`;
type T = { a: T; x: string } | { a: T; y: string } | null;
parse.buildParsers<{ Slug: Slug; T: T }>();

#!/bin/bash
# usage: compile.sh prog.ts out.mjs  -- compiles a beff program with beff-core and wraps it like bundle-to-disk.ts does
set -e
export CARGO_NET_OFFLINE=true CARGO_TARGET_DIR=/tmp/hunt-C12/target
SRC=$(realpath "$1"); OUT=$(realpath -m "$2")
cd /tmp/hunt-C12
BIN=$(ls -t target/debug/deps/hunt_c12-* | grep -v '\.d$' | head -1)
RAW=$(HUNT_SRC="$SRC" "$BIN" --nocapture 2>&1) || { echo "$RAW" | tail -30; exit 1; }
{
  sed -e 's#"@beff/client/codegen-v2"#"/tmp/hunt-C12/packages/beff-client/src/codegen-v2.ts"#' packages/beff-wasm/bundled-code/codegen-v2.js
  echo 'const RequiredStringFormats = ["password","User","ReadAuthorizedUser","WriteAuthorizedUser"];'
  echo 'const RequiredNumberFormats = ["age","NonInfiniteNumber","NonNegativeNumber","Rate"];'
  echo "$RAW" | sed -n '/CGEN-BEGIN/,/CGEN-END/p' | sed '1d;$d'
  echo 'export default { buildParsers };'
} > "$OUT"

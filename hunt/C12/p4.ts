type Br = string & { __brand: "x" };
type Mix = (string | number) & (number | boolean);
type OptT = [string, number | undefined];
type RestT = [string, ...number[]];
enum E { A = "a", B = "b" }
type DE = { k: E.A; x: string } | { k: E.B; y: number };
type Nested = { t: "p"; inner: { t: "q"; v: string } | { t: "r"; w: number } } | { t: "s" };
type M = Map<string, number>;
type S = Set<{ id: number }>;
parse.buildParsers<{ Br: Br; Mix: Mix; OptT: OptT; RestT: RestT; DE: DE; Nested: Nested; M: M; S: S }>();

use beff_core::test_tools::print_cgen;
#[test]
fn hunt_print() {
    let path = std::env::var("HUNT_SRC").expect("HUNT_SRC");
    let from = std::fs::read_to_string(path).unwrap();
    println!("=====CGEN-BEGIN=====\n{}\n=====CGEN-END=====", print_cgen(&from));
}

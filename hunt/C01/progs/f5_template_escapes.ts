type W = `C:\\${string}`;
type NL = `a\nb`;
type U = `\u00e9${number}`;
type D = `a.b${number}`;
type P = `(x|y${number}`;
type Q = `what?${string}`;
parse.buildParsers<{ W: W, NL: NL, U: U, D: D, P: P, Q: Q }>();
//! W | "C:\\dir" | true
//! W | "C:\\\\dir" | false
//! NL | "a\nb" | true
//! NL | "a\\nb" | false
//! U | "\u00e91" | true
//! D | "a.b1" | true
//! D | "axb1" | false
//! P | "(x|y1" | true
//! P | "(x" | false
//! Q | "what?x" | true
//! Q | "whax" | false

const k = "foo";
type T = { [k]: string };
parse.buildParsers<{ T: T }>();
//! T | {foo: "x"} | true
//! T | {k: "x"} | false

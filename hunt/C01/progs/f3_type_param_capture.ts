// a type parameter (or a mapped-type key variable) of the type being expanded captures a
// same-named GLOBAL alias inside every other, non-generic declaration reached from it
type ID = number;
type Item = { id: ID };                                  // ID here is the alias: number
type Page<ID> = { items: Item[], cursor: ID };           // this ID is a parameter of Page only
type P = Page<string>;
type I = Item;                                           // the cached definition of Item is polluted too

type K = "zzz";
type Inner = { k: K };                                   // K here is the alias: "zzz"
type M = { [K in "a" | "b"]: Inner };                    // this K is the mapped key variable

parse.buildParsers<{ P: P, I: I, M: M }>();
//! P | {items: [{id: 1}], cursor: "c"} | true
//! P | {items: [{id: "1"}], cursor: "c"} | false
//! I | {id: 1} | true
//! I | {id: "1"} | false
//! M | {a: {k: "zzz"}, b: {k: "zzz"}} | true
//! M | {a: {k: "a"}, b: {k: "a"}} | false

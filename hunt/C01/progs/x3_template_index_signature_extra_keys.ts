type T = { [k: `a${string}`]: number };
type R = Record<`id_${number}`, string>;
parse.buildParsers<{ T: T, R: R }>();
//! T | {a1: 1} | true
//! T | {a1: 1, other: "x"} | true
//! T | {a1: "x"} | false
//! R | {id_1: "x", z: 1} | true

type R = Record<string, number>;
type V = R["x"];
type O = { a: string, [k: string]: string | number };
type W = O["b"];
parse.buildParsers<{ V: V, W: W }>();
//! V | 1 | true
//! W | 1 | true
//! W | "s" | true

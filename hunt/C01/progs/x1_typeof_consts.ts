const s = "a";
const n = 1;
const arr = ["a", "b"];
const pre = "x" as const;
const t = `pre-${pre}-post` as const;
const big = 10n;
type S = typeof s;
type N = typeof n;
type A = typeof arr;
type TT = typeof t;
type BL = 10n;
parse.buildParsers<{ S: S, N: N, A: A, TT: TT, BL: BL }>();
//! S | "a" | true
//! S | "b" | false
//! N | 2 | false
//! A | ["a"] | true
//! A | ["a", "b", "c"] | true
//! TT | "pre-x-post" | true
//! TT | "x" | false
//! BL | 10n | true
//! BL | 11n | false

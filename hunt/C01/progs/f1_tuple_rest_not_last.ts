type T = [string, ...number[], boolean];
type L = [...string[], number];
parse.buildParsers<{ T: T, L: L }>();
//! T | ["a", 1, 2, true] | true
//! T | ["a", true] | true
//! T | ["a", true, 1, 2] | false
//! L | ["a", "b", 1] | true
//! L | [1, "a"] | false

enum E { A = 1, B = 2 }
type R = Record<E, string>;
type L = Record<1 | 2, string>;
type S = Record<string | "a", number>;
parse.buildParsers<{ R: R, L: L, S: S }>();
//! R | {1: "x", 2: "y"} | true
//! R | {} | false
//! L | {1: "x", 2: "y"} | true
//! L | {} | false
//! S | {} | true

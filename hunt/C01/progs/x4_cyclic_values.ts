type T = { next?: T };
type L = { items: L[] };
parse.buildParsers<{ T: T, L: L }>();
//! T | (() => { const a = {}; a.next = a; return a; })() | true
//! L | (() => { const a = {items: []}; a.items.push(a); return a; })() | true

type M = { [K in "a" | "b" as `x_${K}`]: string };
type F = { [K in "a" | "b" as Exclude<K, "a">]: number };
parse.buildParsers<{ M: M, F: F }>();
//! M | {x_a: "1", x_b: "2"} | true
//! M | {a: "1", b: "2"} | false
//! F | {b: 1} | true

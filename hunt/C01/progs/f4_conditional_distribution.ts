type F<T> = T extends string ? "s" : "n";
type U = string | number;
type R = F<U>;
type G<T> = T extends true ? "t" : "f";
type B = G<boolean>;
type N = F<never>;
enum E { A = "a", B = 2 }
type RE = F<E>;
parse.buildParsers<{ R: R, B: B, N: N, RE: RE }>();
//! R | "s" | true
//! R | "n" | true
//! B | "t" | true
//! B | "f" | true
//! N | "s" | false
//! RE | "s" | true
//! RE | "n" | true

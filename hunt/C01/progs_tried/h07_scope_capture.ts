type ID = number;
type Item = { id: ID };
type Page<ID> = { items: Item[], cursor: ID };
type P = Page<string>;
type I = Item;
parse.buildParsers<{ P: P, I: I }>();
//! P | {items: [{id: 1}], cursor: "c"} | true
//! P | {items: [{id: "1"}], cursor: "c"} | false
//! I | {id: 1} | true
//! I | {id: "1"} | false

type T = { toString?: string, a: number };
type C = { constructor: string };
type H = { hasOwnProperty: boolean };
type D = { t: "a", v: number } | { t: "b" };
type R = Record<string, number>;
type Rq = { a: string };
parse.buildParsers<{ T: T, C: C, H: H, D: D, R: R, Rq: Rq }>();
//! T | {a: 1} | true
//! C | {constructor: "x"} | true
//! H | {hasOwnProperty: true} | true
//! D | Object.create({t: "a", v: 1}) | true
//! R | JSON.parse('{"__proto__": 1, "a": 2}') | true
//! R | JSON.parse('{"__proto__": "x"}') | false
//! Rq | Object.create({a: "x"}) | true
//! Rq | new Proxy({}, { get: () => "x" }) | true

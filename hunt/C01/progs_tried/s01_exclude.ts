type A = { t: "a", x: string };
type B = { t: "b", y: number };
type C = { t: "c" };
type U = A | B | C;
type E1 = Exclude<U, { t: "a" }>;
type E2 = Exclude<"a" | "b" | 1 | true | null, "a" | null>;
type E3 = Exclude<string | number | boolean, string>;
type E4 = Exclude<U, A | B>;
type E5 = Exclude<boolean, true>;
type E6 = Exclude<[1, 2] | [3], [3]>;
type E7 = Exclude<string[] | number, number>;
type E8 = Exclude<"a" | undefined, undefined>;
parse.buildParsers<{ E1: E1, E2: E2, E3: E3, E4: E4, E5: E5, E6: E6, E7: E7, E8: E8 }>();
//! E1 | {t: "a", x: "s"} | false
//! E1 | {t: "b", y: 1} | true
//! E1 | {t: "c"} | true
//! E2 | "b" | true
//! E2 | 1 | true
//! E2 | true | true
//! E2 | "a" | false
//! E2 | null | false
//! E3 | 1 | true
//! E3 | false | true
//! E3 | "s" | false
//! E4 | {t: "c"} | true
//! E4 | {t: "b", y: 1} | false
//! E5 | false | true
//! E5 | true | false
//! E6 | [1, 2] | true
//! E6 | [3] | false
//! E7 | ["a"] | true
//! E7 | 1 | false
//! E8 | "a" | true
//! E8 | undefined | false

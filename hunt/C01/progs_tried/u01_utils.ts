interface Base { id: string; opt?: number }
interface Child extends Base { extra: boolean }
interface Opt2 extends Base { opt: number }
type P1 = Partial<Child>;
type P2 = Pick<Child, "id">;
type P3 = Omit<Child, "extra">;
type P5 = keyof Child;
type G<T> = { v: T, next?: G<T> };
type P6 = G<number>;
type P7 = Partial<Record<"a" | "b", number>>;
type P8 = Required<{ a?: string | undefined }>;
type P9 = Pick<{ a?: string, b: number }, "a">;
type P10 = Readonly<string[]>;
type P11 = Omit<{ a: string } & { b: number }, "a">;
type P12 = Partial<{ a: string } & { b: number }>;
type P13 = Omit<Record<string, number> & { a: number }, "a">;
parse.buildParsers<{ Child: Child, Opt2: Opt2, P1: P1, P2: P2, P3: P3, P5: P5, P6: P6, P7: P7, P8: P8, P9: P9, P10: P10, P11: P11, P12: P12 }>();
//! Opt2 | {id: "x"} | false
//! Opt2 | {id: "x", opt: 1} | true
//! P5 | "extra" | true
//! P5 | "opt" | true
//! P6 | {v: 1, next: {v: 2}} | true
//! P6 | {v: 1, next: {v: "2"}} | false
//! P7 | {a: 1} | true
//! P7 | {a: "x"} | false
//! P8 | {} | false
//! P9 | {} | true
//! P9 | {a: 1} | false
//! P10 | ["a"] | true
//! P11 | {b: 1} | true
//! P11 | {} | false
//! P12 | {} | true
//! P12 | {b: "s"} | false

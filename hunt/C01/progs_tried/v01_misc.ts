type Neg = -1 | 1;
type K = "zzz";
type Inner = { k: K };
type M = { [K in "a" | "b"]: Inner };
interface IX<K> { inner: Inner; k: K }
type IXN = IX<number>;
type Fn<K> = K extends string ? Inner : never;
type FnS = Fn<"q">;
parse.buildParsers<{ Neg: Neg, M: M }>();
//! Neg | -1 | true
//! Neg | 0 | false
//! M | {a: {k: "zzz"}, b: {k: "zzz"}} | true
//! M | {a: {k: "a"}, b: {k: "b"}} | false

type A = { a: string, c: number };
type B = { b: string, c: number };
type K1 = keyof (A | B);
type K2 = keyof (A & B);
type K3 = keyof Record<string, number>;
type K4 = keyof { [k: string]: number, a: number };
type K5 = keyof [string, number];
type K6 = keyof string[];
type K7 = keyof Record<"x" | "y", number>;
parse.buildParsers<{ K1: K1, K2: K2, K3: K3, K4: K4, K7: K7 }>();
//! K1 | "c" | true
//! K1 | "a" | false
//! K2 | "a" | true
//! K2 | "b" | true
//! K2 | "c" | true
//! K3 | "anything" | true
//! K3 | 1 | true
//! K4 | "zzz" | true
//! K7 | "x" | true
//! K7 | "z" | false

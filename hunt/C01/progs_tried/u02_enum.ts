enum Color { Red = "red", Green = "green" }
enum Num { One = 1, Two = 2 }
enum Mix { A = "a", B = 1 << 2, C = "x".length }
type C1 = Color;
type C2 = Color.Red;
type C3 = `${Color}-x`;
type C4 = { [K in Color]: number };
type C5 = Exclude<Color, Color.Red>;
type C6 = Record<Color, boolean>;
type N1 = Num;
const c = Color.Red;
type C7 = typeof c;
type C8 = { c: Color.Green } | { c: Color.Red, r: number };
parse.buildParsers<{ C1: C1, C2: C2, C3: C3, C4: C4, C5: C5, C6: C6, N1: N1, C7: C7, C8: C8 }>();
//! C1 | "red" | true
//! C1 | "Red" | false
//! C2 | "red" | true
//! C2 | "green" | false
//! C3 | "red-x" | true
//! C3 | "blue-x" | false
//! C4 | {red: 1, green: 2} | true
//! C4 | {red: 1} | false
//! C5 | "green" | true
//! C5 | "red" | false
//! C6 | {red: true, green: false} | true
//! N1 | 1 | true
//! N1 | 3 | false
//! C7 | "red" | true
//! C7 | "green" | false
//! C8 | {c: "red", r: 1} | true
//! C8 | {c: "red"} | false
//! C8 | {c: "green"} | true

type A = { a: string } & { [k: string]: string | number };
type B = { a: string } & { a?: string, b: number };
type C = ({ a: string } | { b: number }) & { c: boolean };
type D = string & { __brand: "x" };
type E = { a: { x: string } } & { a: { y: number } };
type F = [string, number] & { length: 2 };
type G = (string | number) & (number | boolean);
type H = { a: string } & Record<string, unknown>;
type I = Partial<{ a: string }> & Required<{ b?: number }>;
type J = ({ t: "a", x: string } | { t: "b" }) & { t: "a" };
parse.buildParsers<{ A: A, B: B, C: C, E: E, G: G, H: H, I: I, J: J }>();
//! A | {a: "s", z: 1} | true
//! A | {a: 1} | false
//! B | {a: "s", b: 1} | true
//! B | {b: 1} | false
//! C | {a: "s", c: true} | true
//! C | {b: 1, c: true} | true
//! C | {c: true} | false
//! E | {a: {x: "s", y: 1}} | true
//! E | {a: {x: "s"}} | false
//! G | 1 | true
//! G | "s" | false
//! G | true | false
//! H | {a: "s", q: [1]} | true
//! H | {q: 1} | false
//! I | {b: 1} | true
//! I | {a: "s"} | false
//! J | {t: "a", x: "s"} | true
//! J | {t: "b"} | false
//! J | {t: "a"} | false

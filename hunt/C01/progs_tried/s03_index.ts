const arr = ["a", "b"] as const;
type T1 = (typeof arr)[number];
type Tup = [string, number, boolean];
type T2 = Tup[0];
type T3 = Tup[number];
type T4 = Tup["length"];
type O = { a: { b: { c: 1 } }, d?: string };
type T5 = O["a"]["b"]["c"];
type T6 = O["d"];
type T7 = O["a" | "d"];
type T8 = string[][number];
type T9 = (A1 | A2)["k"];
type A1 = { k: string };
type A2 = { k: number };
type T10 = O[keyof O];
parse.buildParsers<{ T1: T1, T2: T2, T3: T3, T4: T4, T5: T5, T6: T6, T7: T7, T8: T8, T9: T9, T10: T10 }>();
//! T1 | "a" | true
//! T1 | "c" | false
//! T2 | "s" | true
//! T2 | 1 | false
//! T3 | true | true
//! T3 | 1 | true
//! T3 | null | false
//! T4 | 3 | true
//! T4 | 4 | false
//! T5 | 1 | true
//! T5 | 2 | false
//! T6 | "s" | true
//! T6 | undefined | true
//! T6 | 1 | false
//! T7 | {b: {c: 1}} | true
//! T7 | "s" | true
//! T8 | "s" | true
//! T9 | "s" | true
//! T9 | 1 | true
//! T9 | true | false
//! T10 | "s" | true
//! T10 | {b: {c: 1}} | true

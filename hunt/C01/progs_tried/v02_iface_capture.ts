type K = "zzz";
type Inner = { k: K };
interface IX<K> { inner: Inner; k: K }
type IXN = IX<number>;
parse.buildParsers<{ IXN: IXN }>();
//! IXN | {inner: {k: "zzz"}, k: 1} | true
//! IXN | {inner: {k: 5}, k: 1} | false

#!/bin/sh
# usage: _hunt/go.sh <name>...
# 1. compiles every _hunt/progs/*.ts with the real beff-core (integration test packages/beff-core/tests/hunt_c01.rs,
#    a copy of _hunt/hunt_c01.rs, which calls beff_core::test_tools::print_cgen / print_types) into _hunt/out/
# 2. loads _hunt/out/<name>.js on top of the real client runtime (packages/beff-client/src/codegen-v2.ts) under Node
#    and runs the `//! Parser | value | expected-by-TypeScript` lines of _hunt/progs/<name>.ts through parser.validate
set -e
cd /tmp/hunt-C01
cp _hunt/hunt_c01.rs packages/beff-core/tests/hunt_c01.rs
mkdir -p _hunt/out
if ! HUNT_DIR=/tmp/hunt-C01/_hunt CARGO_NET_OFFLINE=true CARGO_TARGET_DIR=/tmp/hunt-C01/target \
    cargo test -q -p beff-core --test hunt_c01 -- --nocapture >_hunt/compile.log 2>&1; then
  tail -20 _hunt/compile.log
  exit 1
fi
cd _hunt/harness
/root/.nvm/versions/node/v22.22.2/bin/node --no-warnings --experimental-strip-types --import ./register.mjs run.mjs "$@"

// loader hooks: ./x.js -> ./x.ts inside packages/beff-client/src, and a stub for zod
import { existsSync } from "node:fs";
import { fileURLToPath, pathToFileURL } from "node:url";
export async function resolve(specifier, context, nextResolve) {
  if (specifier === "zod") {
    return { url: "data:text/javascript,export const z = { custom: () => ({}) };", shortCircuit: true };
  }
  if (specifier.startsWith(".") && specifier.endsWith(".js") && context.parentURL?.startsWith("file:")) {
    const u = new URL(specifier.replace(/\.js$/, ".ts"), context.parentURL);
    if (existsSync(fileURLToPath(u))) return { url: u.href, shortCircuit: true };
  }
  return nextResolve(specifier, context);
}
// type-only imports written without `type` cannot be elided by type stripping: mark them
import { readFileSync } from "node:fs";
export async function load(url, context, nextLoad) {
  if (url.startsWith("file:") && url.includes("/packages/beff-client/src/") && url.endsWith(".ts")) {
    let source = readFileSync(fileURLToPath(url), "utf8");
    source = source.replace(/^import \{([^}]*)\} from "\.\/(json-schema|types)\.js";/gm, (m, names, mod) =>
      `import type {${names.replace(/\btype /g, "")}} from "./${mod}.js";`);
    return { format: "module-typescript", source, shortCircuit: true };
  }
  return nextLoad(url, context);
}

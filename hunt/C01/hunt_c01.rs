// Hunt driver: compiles every _hunt/progs/*.ts with beff-core's public test API and writes
// the generated module (or the diagnostics / panic message) to _hunt/out/<name>.js|.err
use beff_core::test_tools::{failure, print_cgen, print_types};
use std::panic::{AssertUnwindSafe, catch_unwind};

#[test]
fn hunt_compile_all() {
    let root = std::env::var("HUNT_DIR").unwrap_or("/tmp/hunt-C01/_hunt".to_string());
    let only = std::env::var("HUNT_ONLY").ok();
    let mut entries: Vec<_> = std::fs::read_dir(format!("{root}/progs"))
        .unwrap()
        .map(|e| e.unwrap().path())
        .filter(|p| p.extension().map(|e| e == "ts").unwrap_or(false))
        .collect();
    entries.sort();
    for p in entries {
        let name = p.file_stem().unwrap().to_string_lossy().to_string();
        if let Some(o) = &only {
            if !name.contains(o.as_str()) {
                continue;
            }
        }
        let src = std::fs::read_to_string(&p).unwrap();
        let _ = std::fs::remove_file(format!("{root}/out/{name}.js"));
        let _ = std::fs::remove_file(format!("{root}/out/{name}.err"));
        let _ = std::fs::remove_file(format!("{root}/out/{name}.types"));
        let r = catch_unwind(AssertUnwindSafe(|| print_cgen(&src)));
        match r {
            Ok(code) => {
                std::fs::write(format!("{root}/out/{name}.js"), code).unwrap();
                if let Ok(t) = catch_unwind(AssertUnwindSafe(|| print_types(&src))) {
                    std::fs::write(format!("{root}/out/{name}.types"), t).unwrap();
                }
            }
            Err(e) => {
                let msg = if let Some(s) = e.downcast_ref::<String>() {
                    s.clone()
                } else if let Some(s) = e.downcast_ref::<&str>() {
                    s.to_string()
                } else {
                    "panic".to_string()
                };
                let diag = catch_unwind(AssertUnwindSafe(|| failure(&src))).unwrap_or("(no diag)".to_string());
                std::fs::write(format!("{root}/out/{name}.err"), format!("{msg}\n----\n{diag}")).unwrap();
            }
        }
    }
}

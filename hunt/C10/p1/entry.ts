import * as ns from "./a";
/** doc A */
export type A = { /** px */ x: string, y: typeof ns };
parse.buildParsers<{ A: A }>();

export const v1 = 1;
export const v2 = "a";
export const v3 = { a: 1 };
export enum E { X = "x" }

// Determinism hunting harness: compiles the project found in the directory $HUNT_DIR
// (every regular file is a project file, entry.ts is the entry point) and prints the generated
// code or the diagnostics. $HUNT_ORDER = "rev" registers the files in reverse order,
// $HUNT_REPEAT = n compiles n times in the same thread and reports differences.
use beff_core::{
    BeffUserSettings, BffFileName, EntryPoints, FileManager, ParsedModule,
    diag::Location,
    swc_tools::bind_exports::{FsModuleResolver, parse_and_bind},
};
use std::{collections::BTreeMap, collections::BTreeSet, rc::Rc};
use swc_common::{GLOBALS, Globals};

struct Fm {
    fs: BTreeMap<BffFileName, Rc<ParsedModule>>,
}
fn resolve(spec: &str) -> Option<BffFileName> {
    if !spec.starts_with("./") {
        return None;
    }
    let r = spec.replacen("./", "", 1);
    if r == "missing" {
        return None;
    }
    Some(BffFileName::new(format!("{}.ts", r)))
}
impl FileManager for Fm {
    fn get_or_fetch_file(&mut self, name: &BffFileName) -> Option<Rc<ParsedModule>> {
        self.fs.get(name).cloned()
    }
    fn get_existing_file(&self, name: &BffFileName) -> Option<Rc<ParsedModule>> {
        self.fs.get(name).cloned()
    }
    fn resolve_import(&mut self, _c: BffFileName, spec: &str) -> Option<BffFileName> {
        resolve(spec)
    }
}
struct Rs;
impl FsModuleResolver for Rs {
    fn resolve_import(&mut self, _c: BffFileName, spec: &str) -> Option<BffFileName> {
        resolve(spec)
    }
}

fn compile(files: &[(String, String)]) -> String {
    let mut fs = BTreeMap::new();
    for (n, c) in files {
        let name = BffFileName::new(n.clone());
        let parsed = GLOBALS.set(&Globals::new(), || {
            parse_and_bind(&mut Rs, &name, c).expect("parse")
        });
        fs.insert(name, parsed);
    }
    let mut man = Fm { fs };
    let entry = EntryPoints {
        parser_entry_point: BffFileName::new("entry.ts".into()),
        settings: BeffUserSettings {
            string_formats: BTreeSet::from_iter(vec!["password".to_string(), "User".to_string()]),
            number_formats: BTreeSet::from_iter(vec!["age".to_string()]),
        },
    };
    let p = beff_core::extract(&mut man, entry);
    let mut out = String::new();
    if p.errors.is_empty() {
        out.push_str("== TYPES\n");
        out.push_str(&p.debug_print());
        out.push_str("\n== CODE\n");
        match p.emit_code() {
            Ok(c) => out.push_str(&c),
            Err(e) => out.push_str(&format!("EMIT ERROR {e:?}")),
        }
    } else {
        out.push_str("== ERRORS\n");
        for e in &p.errors {
            let loc = match &e.loc {
                Location::Full(f) => format!("{}:{}-{}", f.file_name, f.offset_lo, f.offset_hi),
                Location::Unknown(u) => format!("{}:?", u.current_file),
            };
            out.push_str(&format!("{} @ {}\n", e.message.to_string(), loc));
        }
    }
    out
}

#[test]
fn hunt() {
    let dir = match std::env::var("HUNT_DIR") {
        Ok(d) => d,
        Err(_) => return,
    };
    let mut files = vec![];
    let mut names: Vec<_> = std::fs::read_dir(&dir)
        .unwrap()
        .map(|e| e.unwrap().path())
        .filter(|p| p.is_file())
        .collect();
    names.sort();
    if std::env::var("HUNT_ORDER").as_deref() == Ok("rev") {
        names.reverse();
    }
    for p in names {
        let n = p.file_name().unwrap().to_string_lossy().to_string();
        files.push((n, std::fs::read_to_string(&p).unwrap()));
    }
    let repeat: usize = std::env::var("HUNT_REPEAT").ok().and_then(|s| s.parse().ok()).unwrap_or(1);
    let first = compile(&files);
    for i in 1..repeat {
        let again = compile(&files);
        if again != first {
            println!("!! run {} differs from run 0", i);
            println!("{}", again);
        }
    }
    println!("{}", first);
}

// Session harness over beff_wasm::verif (feature beff_verif): an in-memory host and a script of
// steps. Each scenario compares a session with a history against a fresh session (new thread =
// new thread-local BUNDLER) over the same final project contents.
#![cfg(feature = "beff_verif")]
use beff_wasm::verif::{self, Host};
use std::cell::RefCell;
use std::collections::BTreeMap;
use std::rc::Rc;

type Fs = Rc<RefCell<BTreeMap<String, String>>>;

struct MemHost {
    fs: Fs,
}
// TypeScript-like resolution of "./x": x.ts, then x.d.ts, then x/index.ts
fn resolve(fs: &BTreeMap<String, String>, spec: &str) -> Option<String> {
    let base = spec.strip_prefix("./")?;
    for cand in [format!("{base}.ts"), format!("{base}.d.ts"), format!("{base}/index.ts")] {
        if fs.contains_key(&cand) {
            return Some(cand);
        }
    }
    None
}
impl Host for MemHost {
    fn resolve_import(&mut self, _cur: &str, spec: &str) -> Option<String> {
        resolve(&self.fs.borrow(), spec)
    }
    fn read_file_content(&mut self, name: &str) -> Option<String> {
        self.fs.borrow().get(name).cloned()
    }
}

const SETTINGS: &str = r#"{"string_formats":[],"number_formats":[]}"#;

fn build() -> String {
    match verif::bundle_to_string("entry.ts", SETTINGS) {
        Ok(s) => format!("OK\n{s}"),
        Err(_) => format!("ERR {:?}", verif::take_emitted_diagnostics()),
    }
}

fn fresh(files: &[(&str, &str)]) -> String {
    let files: Vec<(String, String)> =
        files.iter().map(|(a, b)| (a.to_string(), b.to_string())).collect();
    std::thread::spawn(move || {
        let fs: Fs = Rc::new(RefCell::new(files.into_iter().collect()));
        verif::set_host(Box::new(MemHost { fs }));
        build()
    })
    .join()
    .unwrap()
}

#[test]
fn deleted_dependency_stays_alive() {
    let out = std::thread::spawn(|| {
        let fs: Fs = Rc::new(RefCell::new(BTreeMap::new()));
        verif::set_host(Box::new(MemHost { fs: fs.clone() }));
        fs.borrow_mut().insert("entry.ts".into(), ENTRY.into());
        fs.borrow_mut().insert("a.ts".into(), "export type T = { a: string };".into());
        let first = build();
        // the dependency is deleted from the project
        fs.borrow_mut().remove("a.ts");
        let second = build();
        (first, second)
    })
    .join()
    .unwrap();
    let fresh_out = fresh(&[("entry.ts", ENTRY)]);
    println!("HISTORY 1st build:\n{}\nHISTORY 2nd build (a.ts deleted):\n{}\nFRESH:\n{}", out.0, out.1, fresh_out);
    println!("SAME={}", out.1 == fresh_out);
}

const ENTRY: &str = r#"
import { T } from "./a";
parse.buildParsers<{ T: T }>();
"#;

#[test]
fn resolution_change_is_not_seen() {
    let dts = "export type T = { from_dts: string };";
    let ts = "export type T = { from_ts: number };";
    let out = std::thread::spawn(move || {
        let fs: Fs = Rc::new(RefCell::new(BTreeMap::new()));
        verif::set_host(Box::new(MemHost { fs: fs.clone() }));
        fs.borrow_mut().insert("entry.ts".into(), ENTRY.into());
        fs.borrow_mut().insert("a.d.ts".into(), dts.into());
        let first = build();
        // a.ts is created: "./a" now resolves to a.ts; the watcher reports the new file
        fs.borrow_mut().insert("a.ts".into(), ts.into());
        verif::update_file_content("a.ts", ts);
        let second = build();
        (first, second)
    })
    .join()
    .unwrap();
    let fresh_out = fresh(&[("entry.ts", ENTRY), ("a.d.ts", dts), ("a.ts", ts)]);
    println!("HISTORY 2nd build:\n{}\nFRESH:\n{}", out.1, fresh_out);
    println!("SAME={}", out.1 == fresh_out);
}

export type Shape = { kind: "circle", r: number } | { kind: "square", s: number } | { kind: "tri", a: number, b: number };
export type Tree = { value: string | number, children: Tree[] };

export type Rec = { v: number, next: Rec | null };
export type G<T> = { item: T, list: T[] };
export const c1 = { a: 1, b: "x" } as const;
export const c2 = [1, 2, 3] as const;
export const c0 = `x${c1.b}`;
export enum E { A = "a", B = "b" }
export * from "./a";

// The resolve_import host function of the real ts-node/bundler.ts keeps every successful
// resolution for the life of the process: a file created later that the TypeScript rules prefer
// (a.ts over a.d.ts) is never seen, not even when the importing file is parsed again.
import * as fs from "node:fs";
import * as path from "node:path";
await import("../../packages/beff-wasm/ts-node/bundler.ts");
const dir = path.join(import.meta.dirname, "tmp-res");
fs.rmSync(dir, { recursive: true, force: true });
fs.mkdirSync(dir);
const entry = path.join(dir, "entry.ts");
fs.writeFileSync(entry, 'import { T } from "./a";');
fs.writeFileSync(path.join(dir, "a.d.ts"), "export type T = string;");
const first = globalThis.resolve_import(entry, "./a");
fs.writeFileSync(path.join(dir, "a.ts"), "export type T = number;");
const second = globalThis.resolve_import(entry, "./a");
console.log("before a.ts exists :", path.basename(first));
console.log("after a.ts exists  :", path.basename(second), "(a fresh process answers a.ts)");
fs.rmSync(path.join(dir, "a.d.ts")); fs.rmSync(path.join(dir, "a.ts"));
console.log("after both deleted :", globalThis.resolve_import(entry, "./a") && path.basename(globalThis.resolve_import(entry, "./a")), "(a fresh process answers undefined)");
fs.rmSync(dir, { recursive: true, force: true });

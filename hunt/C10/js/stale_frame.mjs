// Watch-mode sequence against the real ts-node/bundler.ts: the same diagnostic is rendered after the
// file was edited; the code frame is cut out of the text cached at the first rendering.
import * as fs from "node:fs";
import * as path from "node:path";
await import("../../packages/beff-wasm/ts-node/bundler.ts");
const dir = path.join(import.meta.dirname, "tmp-frame");
fs.rmSync(dir, { recursive: true, force: true });
fs.mkdirSync(dir);
const file = path.join(dir, "entry.ts");
const diag = (line) => JSON.stringify({ diagnostics: [{ KnownFile: { message: "Cannot resolve type 'X'", file_name: file, line_lo: line, col_lo: 9, line_hi: line, col_hi: 10 } }] });
const capture = (fn) => { const out = []; const e = console.error, l = console.log; console.error = (...a) => out.push(a.join(" ")); console.log = () => {}; try { fn(); } finally { console.error = e; console.log = l; } return out.join("\n"); };

fs.writeFileSync(file, "type A = X;\nparse.buildParsers<{ A: A }>();\n");
const first = capture(() => globalThis.emit_diagnostic(diag(1)));
// the user edits the file: two lines are added in front, the error moves to line 3
fs.writeFileSync(file, "// a comment\ntype Other = string;\ntype A = X;\nparse.buildParsers<{ A: A }>();\n");
const second = capture(() => globalThis.emit_diagnostic(diag(3)));
console.log("--- build 1 ---\n" + first + "\n--- build 2 (after the edit, same session) ---\n" + second);
fs.rmSync(dir, { recursive: true, force: true });

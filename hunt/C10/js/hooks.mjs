// loader hooks: stubs for the packages that are not installed in the sandbox; bundler.ts itself is
// the real file packages/beff-wasm/ts-node/bundler.ts
const stubs = {
  "../pkg/beff_wasm": "export const init = () => {}; export const bundle_to_string_v2 = () => undefined; export const bundle_to_diagnostics = () => '{}'; export const update_file_content = () => {};",
  "./tsc-slim/out": "export const resolveModuleName = (mod, file, opts, host) => { const base = file.replace(/[^\\/]*$/, '') + mod.replace(/^\\.\\//, ''); for (const ext of ['.ts', '.d.ts']) { if (host.fileExists(base + ext)) return { resolvedModule: { resolvedFileName: base + ext } }; } return {}; }; export const sys = {}; export const findConfigFile = () => undefined; export const readConfigFile = () => ({}); export const parseJsonConfigFileContent = () => ({options: {}});",
  // minimal code frame: prints the source lines of the location out of the text it is given
  "@babel/code-frame": "export const codeFrameColumns = (raw, loc, opts) => { const ls = raw.split('\\n'); const out = []; for (let l = loc.start.line; l <= loc.end.line; l++) out.push(`> ${l} | ${ls[l-1]}`); out.push('    ' + opts.message); return out.join('\\n'); };",
  "chalk": "const id = (s) => s; id.bold = id; export const red = id; export const yellow = id; export const green = id;",
  "./project": "export const BeffUserSettings = undefined;",
};
export async function resolve(specifier, context, next) {
  if (specifier in stubs) return { url: "stub:" + encodeURIComponent(specifier), shortCircuit: true };
  return next(specifier, context);
}
export async function load(url, context, next) {
  if (url.startsWith("stub:")) {
    return { format: "module", source: stubs[decodeURIComponent(url.slice(5))], shortCircuit: true };
  }
  return next(url, context);
}

#!/bin/bash
# usage: run.sh <project-dir> [n]   -- runs the harness n times in fresh processes, prints distinct outputs
BIN=$(ls -t /tmp/hunt-C10/target/debug/deps/hunt_c10-* | grep -v '\.d$' | head -1)
DIR=$1; N=${2:-12}
for i in $(seq 1 $N); do
  HUNT_DIR=$DIR "$BIN" --nocapture 2>&1 | grep -v '^running\|^test \|^$\|test result' | md5sum
done | sort | uniq -c

// loader hook: ./x.js -> ./x.ts inside beff-client/src, and stub zod
import { existsSync } from "node:fs";
import { fileURLToPath } from "node:url";
export async function resolve(specifier, context, nextResolve) {
  if (specifier === "zod") {
    return { url: "data:text/javascript,export const z = { custom: () => ({}) };", shortCircuit: true };
  }
  if (specifier.endsWith(".js") && specifier.startsWith(".") && context.parentURL && context.parentURL.includes("beff-client/src")) {
    const ts = new URL(specifier.replace(/\.js$/, ".ts"), context.parentURL);
    if (existsSync(fileURLToPath(ts))) return { url: ts.href, shortCircuit: true };
  }
  return nextResolve(specifier, context);
}
// type-only imports written without `type` cannot be elided by strip-types: drop them
import { readFileSync } from "node:fs";
export async function load(url, context, nextLoad) {
  if (url.startsWith("file:") && url.includes("beff-client/src") && url.endsWith(".ts")) {
    let src = readFileSync(fileURLToPath(url), "utf8");
    src = src.replace(/^import \{([^}]*)\} from "\.\/(json-schema|types)\.js";$/gm, (m, names, mod) => `import type {${names.replace(/\btype /g, "")}} from "./${mod}.js";`);
    return { format: "module-typescript", source: src, shortCircuit: true };
  }
  return nextLoad(url, context);
}

type T = { readonly a: readonly string[]; readonly b: readonly [number, string]; readonly c: { readonly [k: string]: number }; d: Readonly<{ x: number }> };
parse.buildParsers<{ T: T }>();

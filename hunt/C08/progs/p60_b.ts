type O = { a: string; b?: number };
type T = {
  readonly m: { readonly [K in ("a" | "b")]: (string) };
  readonly n: { +readonly [K in "a" | ("b")]+?: string };
  r: readonly [(number), ...(readonly (string)[])];
  p: Pick<(O), ("a")>;
  q: Readonly<Record<("a" | "b"), (number)>>;
  s: StringFormat<("password")>;
  x: (O)[("a")];
  c: ("a" | "b") extends (string) ? (1) : (2);
  d: `x${("a" | "b")}`;
  e: Omit<Readonly<O>, ("a")>;
  f: Partial<(O)>;
  g: Required<Readonly<O>>;
  h: keyof (O);
};
parse.buildParsers<{ T: T }>();

type T = "b" | ("a");
type R = { [K in T]: number };
parse.buildParsers<{ T: T; R: R }>();

type T = number;
const x: T[] = [];
type W<T> = { a: T; b: typeof x };
type R = W<string>;
parse.buildParsers<{ R: R }>();

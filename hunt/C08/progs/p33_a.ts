type T = { a: string; b: "x" | "y" };
parse.buildParsers<{ T: T }>();

type F<T> = T extends string ? { s: T } : { n: T };
type T = F<"a" | 1>;
parse.buildParsers<{ T: T }>();

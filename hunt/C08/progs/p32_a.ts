interface Base<T> { v: T }
interface I extends Base<string> { x: number }
parse.buildParsers<{ I: I }>();

type A = { b: B | null; n: number };
type B = { a?: A; k: keyof A };
parse.buildParsers<{ A: A; B: B }>();

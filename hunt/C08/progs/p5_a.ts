type T = { t: "a"; x: string } | { t: "b"; x: string };
parse.buildParsers<{ T: T }>();

type T = 1e3 | 0x10 | -0 | 1.0 | 0xff;
parse.buildParsers<{ T: T }>();

type T = { a: boolean };
parse.buildParsers<{ T: T }>();

type Box<X> = { v: X };
type Other = { o: number };
type T = { a: Box<string>; b: Other };
parse.buildParsers<{ T: T }>();

type L = Exclude<"a" | "b" | "c", "c">;
type N = Exclude<string | number | null, null>;
type O = Exclude<{ t: "a"; x: string; o?: number } | { t: "b"; y: number }, { t: "b" }>;
type A = { k: { a?: string; b: number[] } }; type B = { k: { c: boolean } };
type P = (A | B)["k"];
parse.buildParsers<{ L: L; N: N; O: O; P: P }>();

type T = { t: "__proto__" | "b"; x: string };
parse.buildParsers<{ T: T }>();

type T = { k: "x"; t: "a"; v: string } | { k: "x"; t: "b"; v: number } | { k: "y"; w: boolean };
parse.buildParsers<{ T: T }>();

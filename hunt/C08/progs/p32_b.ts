type Base<T> = { v: T };
type I = { x: number; v: string };
parse.buildParsers<{ I: I }>();

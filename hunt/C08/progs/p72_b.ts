const Foo = { A: "a", B: "b" } as const;
type Foo = (typeof Foo)[keyof typeof Foo];
type T = { f: Foo; g: typeof Foo };
parse.buildParsers<{ T: T }>();

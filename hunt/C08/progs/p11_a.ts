type K = number;
type W<U> = { a: U; k: K };
type T = W<string>;
parse.buildParsers<{ T: T }>();

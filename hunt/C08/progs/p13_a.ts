type T = { a: string[]; b: [number, string]; c: { [k: string]: number }; d: { x: number } };
parse.buildParsers<{ T: T }>();

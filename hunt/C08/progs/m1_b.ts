import { A as AA } from "./a";
import type { B } from "./b";
import * as ns from "./a";
type U = ns.A | B;
type T = { u: U; a: AA };
parse.buildParsers<{ T: T; U: U }>();
//@file a.ts
export type A = { t: "a"; x: string };
//@file b.ts
type BB = { t: "b"; y: number };
export type { BB as B };

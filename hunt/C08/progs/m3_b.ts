import * as ns from "./reexp";
import Def, { Box as Bx } from "./a";
type T = { b: Bx<string>; e: ns.E; ea: ns.E.A; u: { t: ns.E.A; x: 1 } | { t: Def.B; y: 2 }; l: import("./a").Box<ns.E>[] };
parse.buildParsers<{ T: T }>();
//@file a.ts
export type Box<X> = { v: X };
export enum E { A = "a", B = "b" }
export default E;
//@file reexp.ts
export * from "./a";

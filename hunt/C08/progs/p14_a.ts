type U = { t: "a"; x: string } | { t: "b"; y: number };
type T = { u: U; v: U; s: "p" | "q" };
parse.buildParsers<{ T: T }>();

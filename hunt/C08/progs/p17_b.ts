type T = [a: string, b: number, ...rest: boolean[]];
parse.buildParsers<{ T: T }>();

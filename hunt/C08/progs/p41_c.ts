const xs = { A: "a", B: "b" } as const;
type X = (typeof xs)[keyof typeof xs];
parse.buildParsers<{ X: X }>();

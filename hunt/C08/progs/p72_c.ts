import { Foo } from "./foo";
type T = { f: Foo; g: typeof Foo };
parse.buildParsers<{ T: T }>();
//@file foo.ts
export const Foo = { A: "a", B: "b" } as const;
export type Foo = (typeof Foo)[keyof typeof Foo];

type N = "password";
type T = StringFormat<N>;
parse.buildParsers<{ T: T }>();

type F<T> = T extends string ? { s: T } : { n: T };
type G<U> = F<U>;
type X = "a" | 1;
type T = G<X>;
parse.buildParsers<{ T: T }>();

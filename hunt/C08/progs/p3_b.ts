type Rest = string[];
type T = [number, ...Rest];
parse.buildParsers<{ T: T }>();

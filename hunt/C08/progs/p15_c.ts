interface J { i?: I; j: string }
interface I extends J { x: number }
type T = { i: I; j: J };
parse.buildParsers<{ T: T }>();

type Box<X> = { v: X };
enum E { A = "a", B = "b" }
type T = { b: Box<string>; e: E; ea: E.A; u: { t: E.A; x: 1 } | { t: E.B; y: 2 }; l: Box<E>[] };
parse.buildParsers<{ T: T }>();

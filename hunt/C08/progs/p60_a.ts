type O = { a: string; b?: number };
type T = {
  m: { [K in "a" | "b"]: string };
  n: { [K in "a" | "b"]?: string };
  r: [number, ...string[]];
  p: Pick<O, "a">;
  q: Record<"a" | "b", number>;
  s: StringFormat<"password">;
  x: O["a"];
  c: "a" | "b" extends string ? 1 : 2;
  d: `x${"a" | "b"}`;
  e: Omit<O, "a">;
  f: Partial<O>;
  g: Required<O>;
  h: keyof O;
};
parse.buildParsers<{ T: T }>();

type T = `a${"b" | "c"}`;
parse.buildParsers<{ T: T }>();

type Box<X> = { v: X };
type Box_string = { o: number };
type T = { a: Box<string>; b: Box_string };
parse.buildParsers<{ T: T }>();

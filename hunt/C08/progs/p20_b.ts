type O = { a: 1; b: 2 };
type T = keyof O;
type R = Record<T, number>;
parse.buildParsers<{ T: T; R: R }>();

import { Foo as Bar } from "./foo";
type T = { f: Bar; g: typeof Bar };
parse.buildParsers<{ T: T }>();
//@file foo.ts
const Foo = { A: "a", B: "b" } as const;
type Foo = (typeof Foo)[keyof typeof Foo];
export { Foo };

type R = Record<string, unknown>;
type T = { a: string } & { b: number } & R;
parse.buildParsers<{ T: T }>();

interface J { i?: I; j: string }
interface I extends J { x: number }
type T = { j: J; i: I };
parse.buildParsers<{ T: T }>();

type A = { b: B | null; n: number };
type B = { a?: A; k: keyof A };
parse.buildParsers<{ B: B; A: A }>();

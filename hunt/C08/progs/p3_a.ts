type T = [number, ...string[]];
parse.buildParsers<{ T: T }>();

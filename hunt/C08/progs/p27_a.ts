type T = { a: (string | number)[]; b: [number, ...string[]]; c: (() => void) | null; d: keyof { x: 1; y: 2 } };
parse.buildParsers<{ T: T }>();

type X = { v: number; t: "b"; k: "x" } | { t: "a"; k: "x"; v: string };
type T = { w: boolean; k: "y" } | X;
parse.buildParsers<{ T: T }>();

import { X } from "./a_b";
import { X as Y } from "./a-b";
type T = { x: X; y: Y };
parse.buildParsers<{ T: T }>();
//@file a_b.ts
export type X = { p: string };
//@file a-b.ts
export type X = { q: number };

type T = number;
const x: T[] = [];
type W<U> = { a: U; b: typeof x };
type R = W<string>;
parse.buildParsers<{ R: R }>();

type A = { b: B | null; n: number };
type B = { a?: A; k: keyof A };
type T = { a: A; b: B };
parse.buildParsers<{ T: T }>();

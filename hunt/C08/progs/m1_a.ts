type A = { t: "a"; x: string };
type B = { t: "b"; y: number };
type U = A | B;
type T = { u: U; a: A };
parse.buildParsers<{ T: T; U: U }>();

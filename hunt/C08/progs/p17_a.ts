type T = [string, number, ...boolean[]];
parse.buildParsers<{ T: T }>();

type A<T> = { a: T };
type A_B<T> = { b: T };
type B_C = 1;
type C = 2;
type T = { x: A<B_C>; y: A_B<C> };
parse.buildParsers<{ T: T }>();

type T = 1000 | 16 | 0 | 1 | 255;
parse.buildParsers<{ T: T }>();

interface J { i?: I; j: string }
interface I extends J { x: number }
parse.buildParsers<{ I: I; J: J }>();

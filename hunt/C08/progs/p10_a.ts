type T = StringFormat<"password">;
parse.buildParsers<{ T: T }>();

type A = { b: B | null; n: number };
type B = { a?: A; k: keyof A };
type T = { b: B; a: A };
parse.buildParsers<{ T: T }>();

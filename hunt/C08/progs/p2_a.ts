type A = { a: string }; type B = { b: number }; type C = { c: boolean };
type T = A & B & C;
parse.buildParsers<{ T: T }>();

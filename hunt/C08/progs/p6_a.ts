type MyDate = { y: number };
type T = { d: MyDate };
parse.buildParsers<{ T: T }>();

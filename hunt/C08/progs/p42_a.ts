type S = { a?: string; b: number };
parse.buildParsers<{ S: S }>();

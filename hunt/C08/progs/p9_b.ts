interface I { b: number }
interface I { a: string }
parse.buildParsers<{ I: I }>();

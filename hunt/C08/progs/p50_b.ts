type T = { t: "__proto__"; x: string } | { t: "b"; x: string };
parse.buildParsers<{ T: T }>();

/** the union */
type U = /** first */ { /** tag */ t: "a"; x: string } | /** second */ { t: /** b */ "b"; y: number };
/** T doc */
type T = { /** u doc */ u: U; /** v doc */ v: U; s: /** p */ "p" | /** q */ "q" };
parse.buildParsers<{ T: T }>();

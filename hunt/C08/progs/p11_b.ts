type K = number;
type W<K> = { a: K; k: number };
type T = W<string>;
parse.buildParsers<{ T: T }>();

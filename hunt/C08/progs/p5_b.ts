type T = { t: "a" | "b"; x: string };
parse.buildParsers<{ T: T }>();

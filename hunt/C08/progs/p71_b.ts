type K = number;
declare const y: { k: K };
type M = { [K in "a" | "b"]: typeof y };
parse.buildParsers<{ M: M }>();

type T = { a: Array<string>; b: ReadonlyArray<Array<number>> };
parse.buildParsers<{ T: T }>();

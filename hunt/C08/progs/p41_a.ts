type X = "a" | "b";
parse.buildParsers<{ X: X }>();

const FooV = { A: "a", B: "b" } as const;
type Foo = (typeof FooV)[keyof typeof FooV];
type T = { f: Foo; g: typeof FooV };
parse.buildParsers<{ T: T }>();

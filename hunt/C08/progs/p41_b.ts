const xs = ["a", "b"] as const;
type X = (typeof xs)[number];
parse.buildParsers<{ X: X }>();

interface I { a: string }
interface I { b: number }
parse.buildParsers<{ I: I }>();

type Id<T> = { readonly [K in keyof T]: T[K] };
type S = Id<{ a?: string; b: number }>;
parse.buildParsers<{ S: S }>();

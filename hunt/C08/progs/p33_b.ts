// leading
type /* c1 */ T /* c2 */ = /* c3 */ { // c4
  a /* c5 */ : /* c6 */ string /* c7 */; /* c8 */
  /* not jsdoc */ b: /** jsdoc */ "x" /* | "z" */ | // "w" |
  "y" };
parse /* c */ . /* c */ buildParsers /* c */ < /* c */ { /** d */ T: /* c */ T } /* c */ >();

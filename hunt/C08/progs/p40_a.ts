type L = "a" | "b";
type N = string | number;
type O = { t: "a"; x: string; o?: number };
type P = { a?: string; b: number[] } | { c: boolean };
parse.buildParsers<{ L: L; N: N; O: O; P: P }>();

type Date = { y: number };
type T = { d: Date };
parse.buildParsers<{ T: T }>();

type T = { a: true | false };
parse.buildParsers<{ T: T }>();

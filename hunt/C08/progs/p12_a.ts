type T = "ab" | "ac";
parse.buildParsers<{ T: T }>();

#!/bin/sh
# usage: run.sh script.mjs [args]
exec /root/.nvm/versions/node/v22.22.2/bin/node --experimental-strip-types --disable-warning=ExperimentalWarning --import /tmp/hunt-C08/_hunt/register.mjs "$@"

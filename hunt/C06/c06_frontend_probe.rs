// End-to-end probes: TypeScript programs whose types go through the semantic engine
// (Exclude, conditional types, indexed access) - prints the resulting types or the diagnostic.
use beff_core::test_tools::{failure, print_types};

fn probe(name: &str, decl: &str) {
    let src = format!("{}\nparse.buildParsers<{{ T: T }}>();\n", decl);
    let r = std::panic::catch_unwind(|| print_types(&src));
    match r {
        Ok(s) => println!("=== {} ===\n{}\n--> {}\n", name, decl, s.trim()),
        Err(_) => {
            let f = std::panic::catch_unwind(|| failure(&src));
            println!(
                "=== {} ===\n{}\n--> DIAGNOSTIC {}\n",
                name,
                decl,
                f.unwrap_or_else(|_| "<panic>".to_string())
            );
        }
    }
}

#[test]
fn probes() {
    std::panic::set_hook(Box::new(|_| {}));
    probe("void-minus-undefined", "type T = Exclude<void | string, undefined>;");
    probe("undefined-minus-void", "type T = Exclude<undefined | string, void>;");
    probe("void-extends-undefined", "type T = void extends undefined ? 1 : 2;");
    probe("huge-literals", "type T = Exclude<1e20 | 1e21 | 5, 1e21>;");
    probe("huge-literals-cond", "type T = 1e20 extends 1e21 ? 'same' : 'different';");
    probe("tiny-fraction", "type T = Exclude<1.0000000001 | 7, 1.0000000002>;");
    probe("tiny-fraction-cond", "type T = 1.0000000001 extends 1.0000000002 ? 'same' : 'different';");
    probe("neg-obj", "type T = Exclude<{a: string}, {a: 'x'}>;");
    probe("neg-obj2", "type T = Exclude<{a: 'x' | 'y'}, {a: 'x'}>;");
    probe("neg-tuple", "type T = Exclude<[number, string], [1, string]>;");
    probe("neg-array", "type T = Exclude<string[] | number[], 'a'[]>;");
    probe("tpl-single", "const n: number = 1; const x = `${n}` as const; type T = Exclude<typeof x | 'k', '1'>;");
    probe("tpl-single-and", "const n: number = 1; const x = `${n}` as const; type X = typeof x; type T = X & '1';");
    probe("tpl-single-cond", "const n: number = 1; const x = `${n}` as const; type T = '1' extends typeof x ? 'yes' : 'no';");
    probe("tpl-multi", "type T = Exclude<`a${string}` | 'b', 'b'>;");
}

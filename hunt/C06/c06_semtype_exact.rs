// SemType-level exactness: an independent membership evaluator over a small universe of values,
// checked against union / intersect / diff / complement of randomly combined operand types.
use beff_core::ast::json::N;
use beff_core::ast::runtype::{TplLitType, TplLitTypeItem, TypedArrayKind};
use beff_core::subtyping::bdd::{Atom, Bdd, IndexedPropertiesAtomic, ListAtomic, MappingAtomicType};
use beff_core::subtyping::semtype::{SemType, SemTypeContext, SemTypeOps};
use beff_core::subtyping::subtype::{
    NumberRepresentationOrFormat, ProperSubtype, StringLitOrFormat, SubTypeTag, VoidUndefinedSubtype,
};
use std::collections::BTreeMap;
use std::rc::Rc;

#[derive(Debug, Clone, PartialEq)]
enum V {
    Absent,
    Null,
    Undef,
    Bool(bool),
    Num(N),
    Str(String),
    BigInt,
    Date,
    TA(TypedArrayKind),
    Obj(BTreeMap<String, V>),
    Arr(Vec<V>),
    MapV(Vec<(V, V)>),
    SetV(Vec<V>),
}

fn tag(v: &V) -> SubTypeTag {
    match v {
        V::Absent => SubTypeTag::OptionalProp,
        V::Null => SubTypeTag::Null,
        V::Undef => SubTypeTag::VoidUndefined,
        V::Bool(_) => SubTypeTag::Boolean,
        V::Num(_) => SubTypeTag::Number,
        V::Str(_) => SubTypeTag::String,
        V::BigInt => SubTypeTag::BigInt,
        V::Date => SubTypeTag::Date,
        V::TA(_) => SubTypeTag::TypedArray,
        V::Obj(_) => SubTypeTag::Mapping,
        V::Arr(_) => SubTypeTag::List,
        V::MapV(_) => SubTypeTag::Map,
        V::SetV(_) => SubTypeTag::Set,
    }
}

fn match_item(item: &TplLitTypeItem, s: &str) -> Vec<usize> {
    // returns all prefix lengths (in bytes) of s that the item can consume
    match item {
        TplLitTypeItem::String => (0..=s.len()).filter(|i| s.is_char_boundary(*i)).collect(),
        TplLitTypeItem::Number => {
            let b = s.as_bytes();
            let mut out = vec![];
            let mut i = 0;
            while i < b.len() && b[i].is_ascii_digit() {
                i += 1;
                out.push(i);
                // optional fraction
                if i < b.len() && b[i] == b'.' {
                    let mut j = i + 1;
                    while j < b.len() && b[j].is_ascii_digit() {
                        j += 1;
                        out.push(j);
                    }
                }
            }
            out.sort();
            out.dedup();
            out
        }
        TplLitTypeItem::Boolean => ["true", "false"]
            .iter()
            .filter(|p| s.starts_with(**p))
            .map(|p| p.len())
            .collect(),
        TplLitTypeItem::StringConst(c) => {
            if s.starts_with(c.as_str()) {
                vec![c.len()]
            } else {
                vec![]
            }
        }
        TplLitTypeItem::OneOf(vs) => {
            let mut out = vec![];
            for v in vs {
                out.extend(match_item(v, s));
            }
            out.sort();
            out.dedup();
            out
        }
    }
}

fn match_tpl(items: &[TplLitTypeItem], s: &str) -> bool {
    match items.split_first() {
        None => s.is_empty(),
        Some((h, rest)) => match_item(h, s).into_iter().any(|n| match_tpl(rest, &s[n..])),
    }
}

fn eval_bdd(ctx: &SemTypeContext, b: &Bdd, v: &V) -> bool {
    match b {
        Bdd::True => true,
        Bdd::False => false,
        Bdd::Node {
            atom,
            left,
            middle,
            right,
        } => {
            let a = atom_member(ctx, atom, v);
            eval_bdd(ctx, middle, v) || (a && eval_bdd(ctx, left, v)) || (!a && eval_bdd(ctx, right, v))
        }
    }
}

fn mapping_member(ctx: &SemTypeContext, m: &MappingAtomicType, o: &BTreeMap<String, V>) -> bool {
    for (k, t) in m.vs.iter() {
        let val = o.get(k).cloned().unwrap_or(V::Absent);
        if !member(ctx, t, &val) {
            return false;
        }
    }
    if let Some(ip) = &m.indexed_properties {
        for (k, val) in o.iter() {
            if m.vs.contains_key(k) {
                continue;
            }
            if member(ctx, &ip.key, &V::Str(k.clone())) && !member(ctx, &ip.value, val) {
                return false;
            }
        }
    }
    true
}

fn list_member(ctx: &SemTypeContext, l: &ListAtomic, a: &[V]) -> bool {
    if a.len() < l.prefix_items.len() {
        return false;
    }
    for (i, v) in a.iter().enumerate() {
        let t = if i < l.prefix_items.len() {
            &l.prefix_items[i]
        } else {
            &l.items
        };
        if !member(ctx, t, v) {
            return false;
        }
    }
    true
}

fn atom_member(ctx: &SemTypeContext, atom: &Atom, v: &V) -> bool {
    match (atom, v) {
        (Atom::Mapping(i), V::Obj(o)) => mapping_member(ctx, &ctx.get_mapping_atomic(*i), o),
        (Atom::List(i), V::Arr(a)) => list_member(ctx, &ctx.get_list_atomic(*i), a),
        (Atom::Set(i), V::SetV(a)) => {
            let l = ctx.get_set_atomic(*i);
            a.iter().all(|x| member(ctx, &l.items, x))
        }
        (Atom::Map(i), V::MapV(es)) => {
            let m = ctx.get_map_atomic(*i);
            let ip = m.indexed_properties.as_ref().unwrap();
            es.iter()
                .all(|(k, x)| member(ctx, &ip.key, k) && member(ctx, &ip.value, x))
        }
        _ => false,
    }
}

fn member(ctx: &SemTypeContext, ty: &SemType, v: &V) -> bool {
    let t = tag(v);
    if ty.all & t.code() != 0 {
        return true;
    }
    for s in &ty.subtype_data {
        if s.tag() != t {
            continue;
        }
        return match (s.as_ref(), v) {
            (ProperSubtype::Boolean(b), V::Bool(x)) => b == x,
            (ProperSubtype::Number { allowed, values }, V::Num(n)) => {
                let hit = values.iter().any(|it| match it {
                    NumberRepresentationOrFormat::Lit(l) => l == n,
                    _ => panic!("format"),
                });
                hit == *allowed
            }
            (ProperSubtype::String { allowed, values }, V::Str(x)) => {
                let hit = values.iter().any(|it| match it {
                    StringLitOrFormat::Tpl(TplLitType(items)) => match_tpl(items, x),
                    _ => panic!("format"),
                });
                hit == *allowed
            }
            (ProperSubtype::VoidUndefined { allowed, values }, V::Undef) => {
                // the only value of `void` and of `undefined` is undefined
                let hit = !values.is_empty();
                hit == *allowed
            }
            (ProperSubtype::TypedArray { allowed, values }, V::TA(k)) => values.contains(k) == *allowed,
            (ProperSubtype::Mapping(b), _)
            | (ProperSubtype::List(b), _)
            | (ProperSubtype::Map(b), _)
            | (ProperSubtype::Set(b), _) => eval_bdd(ctx, b, v),
            _ => panic!("tag mismatch"),
        };
    }
    false
}

struct Rng(u64);
impl Rng {
    fn next(&mut self) -> u64 {
        self.0 ^= self.0 << 13;
        self.0 ^= self.0 >> 7;
        self.0 ^= self.0 << 17;
        self.0
    }
    fn pick(&mut self, n: usize) -> usize {
        (self.next() % (n as u64)) as usize
    }
}

fn sc(s: &str) -> Rc<SemType> {
    Rc::new(SemTypeContext::string_const(StringLitOrFormat::Tpl(TplLitType(vec![
        TplLitTypeItem::StringConst(s.to_string()),
    ]))))
}
fn nc(n: f64) -> Rc<SemType> {
    Rc::new(SemTypeContext::number_const(NumberRepresentationOrFormat::Lit(N::parse_f64(n))))
}

fn obj(pairs: &[(&str, V)]) -> V {
    V::Obj(pairs.iter().map(|(k, v)| (k.to_string(), v.clone())).collect())
}
fn num(n: f64) -> V {
    V::Num(N::parse_f64(n))
}
fn st(s: &str) -> V {
    V::Str(s.to_string())
}

fn run(with_void: bool, with_tpl: bool, seed: u64) -> Vec<String> {
    let mut ctx = SemTypeContext::new();
    let mut base: Vec<(String, Rc<SemType>)> = vec![
        ("null".into(), Rc::new(SemTypeContext::null())),
        ("boolean".into(), Rc::new(SemTypeContext::boolean())),
        ("true".into(), Rc::new(SemTypeContext::boolean_const(true))),
        ("false".into(), Rc::new(SemTypeContext::boolean_const(false))),
        ("number".into(), Rc::new(SemTypeContext::number())),
        ("1".into(), nc(1.0)),
        ("2".into(), nc(2.0)),
        ("1.5".into(), nc(1.5)),
        ("string".into(), Rc::new(SemTypeContext::string())),
        ("'a'".into(), sc("a")),
        ("'b'".into(), sc("b")),
        ("''".into(), sc("")),
        ("undefined".into(), Rc::new(SemTypeContext::undefined())),
        ("optional".into(), Rc::new(SemTypeContext::optional_prop())),
        ("never".into(), Rc::new(SemTypeContext::never())),
        ("unknown".into(), Rc::new(SemTypeContext::unknown())),
        (
            "Uint8Array".into(),
            Rc::new(SemType::new_complex(
                0,
                vec![Rc::new(ProperSubtype::TypedArray {
                    allowed: true,
                    values: vec![TypedArrayKind::Uint8Array],
                })],
            )),
        ),
        (
            "Int8Array".into(),
            Rc::new(SemType::new_complex(
                0,
                vec![Rc::new(ProperSubtype::TypedArray {
                    allowed: true,
                    values: vec![TypedArrayKind::Int8Array],
                })],
            )),
        ),
    ];
    if with_void {
        base.push(("void".into(), Rc::new(SemTypeContext::void())));
    }
    if with_tpl {
        base.push((
            "`${number}`".into(),
            Rc::new(SemTypeContext::string_const(StringLitOrFormat::Tpl(TplLitType(vec![
                TplLitTypeItem::Number,
            ])))),
        ));
        base.push((
            "`${boolean}`".into(),
            Rc::new(SemTypeContext::string_const(StringLitOrFormat::Tpl(TplLitType(vec![
                TplLitTypeItem::Boolean,
            ])))),
        ));
        base.push(("'1'".into(), sc("1")));
        base.push(("'true'".into(), sc("true")));
    }
    // structured
    let string = Rc::new(SemTypeContext::string());
    let number = Rc::new(SemTypeContext::number());
    let opt1 = SemTypeContext::make_optional(nc(1.0)).unwrap();
    let o1 = ctx.mapping_definition(BTreeMap::from([("a".to_string(), string.clone())]), None);
    let o2 = ctx.mapping_definition(BTreeMap::from([("a".to_string(), sc("a"))]), None);
    let o3 = ctx.mapping_definition(BTreeMap::from([("a".to_string(), opt1.clone())]), None);
    let o4 = ctx.mapping_definition(
        BTreeMap::new(),
        Some(IndexedPropertiesAtomic {
            key: string.clone(),
            value: number.clone(),
        }),
    );
    let o5 = ctx.mapping_definition(
        BTreeMap::from([("b".to_string(), number.clone())]),
        None,
    );
    base.push(("{a:string}".into(), Rc::new(o1)));
    base.push(("{a:'a'}".into(), Rc::new(o2)));
    base.push(("{a?:1}".into(), Rc::new(o3)));
    base.push(("{[k:string]:number}".into(), Rc::new(o4)));
    base.push(("{b:number}".into(), Rc::new(o5)));
    let l1 = ctx.array(number.clone());
    let l2 = ctx.tuple(vec![nc(1.0), nc(2.0)], None);
    let l3 = ctx.tuple(vec![number.clone()], Some(string.clone()));
    let l4 = ctx.array(Rc::new(SemTypeContext::unknown()));
    base.push(("number[]".into(), Rc::new(l1)));
    base.push(("[1,2]".into(), Rc::new(l2)));
    base.push(("[number,...string[]]".into(), Rc::new(l3)));
    base.push(("unknown[]".into(), Rc::new(l4)));
    let m1 = ctx.map(string.clone(), number.clone());
    let m2 = ctx.map(sc("a"), nc(1.0));
    base.push(("Map<string,number>".into(), Rc::new(m1)));
    base.push(("Map<'a',1>".into(), Rc::new(m2)));
    let s1 = ctx.set(nc(1.0));
    let s2 = ctx.set(number.clone());
    base.push(("Set<1>".into(), Rc::new(s1)));
    base.push(("Set<number>".into(), Rc::new(s2)));

    let values: Vec<V> = vec![
        V::Absent,
        V::Null,
        V::Undef,
        V::Bool(true),
        V::Bool(false),
        num(1.0),
        num(2.0),
        num(1.5),
        num(3.0),
        num(-1.0),
        st("a"),
        st("b"),
        st(""),
        st("1"),
        st("1.5"),
        st("true"),
        st("c"),
        V::BigInt,
        V::Date,
        V::TA(TypedArrayKind::Uint8Array),
        V::TA(TypedArrayKind::Int8Array),
        V::TA(TypedArrayKind::Float64Array),
        obj(&[]),
        obj(&[("a", st("a"))]),
        obj(&[("a", st("b"))]),
        obj(&[("a", num(1.0))]),
        obj(&[("a", num(2.0))]),
        obj(&[("b", num(2.0))]),
        obj(&[("a", st("a")), ("b", num(1.0))]),
        obj(&[("a", num(1.0)), ("b", num(1.0))]),
        obj(&[("a", st("a")), ("b", st("x"))]),
        V::Arr(vec![]),
        V::Arr(vec![num(1.0)]),
        V::Arr(vec![num(1.0), num(2.0)]),
        V::Arr(vec![num(1.0), st("a")]),
        V::Arr(vec![num(1.0), num(2.0), num(3.0)]),
        V::Arr(vec![st("a")]),
        V::MapV(vec![]),
        V::MapV(vec![(st("a"), num(1.0))]),
        V::MapV(vec![(st("b"), num(2.0))]),
        V::MapV(vec![(num(1.0), num(2.0))]),
        V::SetV(vec![]),
        V::SetV(vec![num(1.0)]),
        V::SetV(vec![num(2.0)]),
        V::SetV(vec![st("a")]),
    ];

    let mut pool = base.clone();
    let mut rng = Rng(seed);
    let mut out: Vec<String> = vec![];
    let mut checks = 0usize;
    for _ in 0..6000 {
        let (na, a) = pool[rng.pick(pool.len())].clone();
        let (nb, b) = pool[rng.pick(pool.len())].clone();
        let op = rng.pick(4);
        let (name, r) = match op {
            0 => (format!("({} | {})", na, nb), a.union(&b)),
            1 => (format!("({} & {})", na, nb), a.intersect(&b)),
            2 => (format!("({} \\ {})", na, nb), a.diff(&b)),
            _ => (format!("~{}", na), a.complement()),
        };
        let r = match r {
            Ok(r) => r,
            Err(e) => {
                if out.len() < 40 {
                    out.push(format!("ERROR {}: {}", name, e));
                }
                continue;
            }
        };
        for v in &values {
            let ma = member(&ctx, &a, v);
            let mb = member(&ctx, &b, v);
            let expect = match op {
                0 => ma || mb,
                1 => ma && mb,
                2 => ma && !mb,
                _ => !ma,
            };
            let got = member(&ctx, &r, v);
            checks += 1;
            if got != expect && out.len() < 40 {
                out.push(format!(
                    "VIOLATION {} value {:?}: expected {} got {}  result={:?}",
                    name, v, expect, got, r
                ));
            }
        }
        if name.len() < 120 {
            pool.push((name, r));
        }
    }
    println!("seed {} checks {} violations {}", seed, checks, out.len());
    out
}

#[test]
fn semtype_ops_exact_plain() {
    let mut all = vec![];
    for seed in 1..41 {
        all.extend(run(false, false, seed * 7919));
    }
    for l in &all {
        println!("{}", l);
    }
    assert!(all.is_empty());
}

#[test]
fn semtype_ops_exact_void() {
    let all = run(true, false, 12345);
    for l in all.iter().take(12) {
        println!("{}", l);
    }
    assert!(all.is_empty());
}

#[test]
fn semtype_ops_exact_tpl() {
    let all = run(false, true, 54321);
    for l in all.iter().take(12) {
        println!("{}", l);
    }
    assert!(all.is_empty());
}

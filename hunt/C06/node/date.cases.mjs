const d = new Date(0);
const m = new Map([["k", 1]]);
export default [
  ["Json", "new Date(0)", d, true],
  ["OnlyDate", "new Date(0)", d, true],
  ["Obj", "new Date(0)   /* { a?: string } */", d, true],
  // Exclude<Json, Date>: in Json, in Date => must not be in the difference
  ["NoDate", "new Date(0)", d, false],
  // Exclude<Date & {a?: string}, null>: in Date, in {a?:string}, not in null => must be in the result
  ["DateAndObj", "new Date(0)", d, true],
  // (Date & {a?: string}) extends never ? "empty" : "inhabited"
  ["Cond", "'inhabited'", "inhabited", true],
  ["MapOrRec", "new Map([['k',1]])", m, true],
  ["OnlyMap", "new Map([['k',1]])", m, true],
  ["NoMap", "new Map([['k',1]])", m, false],
];

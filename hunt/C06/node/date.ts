type Json = string | number | Date | { [k: string]: string };
type NoDate = Exclude<Json, Date>;
type DateAndObj = Exclude<Date & { a?: string }, null>;
type Cond = (Date & { a?: string }) extends never ? "empty" : "inhabited";
type MapOrRec = Map<string, number> | { [k: string]: number };
type NoMap = Exclude<MapOrRec, Map<string, number>>;
parse.buildParsers<{ Json: Json, NoDate: NoDate, OnlyDate: Date, DateAndObj: DateAndObj, Cond: Cond, Obj: { a?: string }, MapOrRec: MapOrRec, OnlyMap: Map<string, number>, NoMap: NoMap }>();

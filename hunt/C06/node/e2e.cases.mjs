// [parser, label, value, membership required by the property (in A and not in B)]
export default [
  ["VoidOrString", "undefined", undefined, true], ["Undef", "undefined", undefined, true],
  ["VoidMinusUndef", "undefined", undefined, false],
  ["HugeA", "1e20", 1e20, true], ["HugeB", "1e20", 1e20, false], ["Huge", "1e20", 1e20, true],
  ["HugeA", "1e21", 1e21, true], ["HugeA", "9223372036854775807", 9223372036854775807, false],
  ["FracA", "1.0000000001", 1.0000000001, true], ["FracB", "1.0000000001", 1.0000000001, false], ["Frac", "1.0000000001", 1.0000000001, true],
  ["ObjA", "{a:'x'}", { a: "x" }, true], ["ObjB", "{a:'x'}", { a: "x" }, true], ["NegObj", "{a:'x'}", { a: "x" }, false],
  ["ArrA", "['a']", ["a"], true], ["ArrB", "['a']", ["a"], true], ["NegArr", "['a']", ["a"], false],
  ["NegArr", "[]", [], false],
  ["NullishA", "null", null, true], ["Null", "null", null, true], ["NoNull", "null", null, false],
  ["TplA", "'1'", "1", true], ["TplMinus1", "'1'", "1", false],
  ["OneInTpl", "'yes'", "yes", true],
];

type VoidOrString = void | string;
type VoidMinusUndef = Exclude<VoidOrString, undefined>;
type HugeA = 1e20 | 1e21 | 5;
type HugeB = 1e21;
type Huge = Exclude<HugeA, HugeB>;
type FracA = 1.0000000001 | 7;
type FracB = 1.0000000002;
type Frac = Exclude<FracA, FracB>;
type ObjA = { a: "x" | "y" };
type ObjB = { a: "x" };
type NegObj = Exclude<ObjA, ObjB>;
type ArrA = string[] | number[];
type ArrB = "a"[];
type NegArr = Exclude<ArrA, ArrB>;
type NullishA = string | null | undefined;
type NoNull = Exclude<NullishA, null>;
const n: number = 1;
const x = `${n}` as const;
type TplA = typeof x | "k";
type TplMinus1 = Exclude<TplA, "1">;
type OneInTpl = "1" extends typeof x ? "yes" : "no";
parse.buildParsers<{
  VoidOrString: VoidOrString, Undef: undefined, VoidMinusUndef: VoidMinusUndef,
  HugeA: HugeA, HugeB: HugeB, Huge: Huge,
  FracA: FracA, FracB: FracB, Frac: Frac,
  ObjA: ObjA, ObjB: ObjB, NegObj: NegObj,
  ArrA: ArrA, ArrB: ArrB, NegArr: NegArr,
  NullishA: NullishA, Null: null, NoNull: NoNull,
  TplA: TplA, TplMinus1: TplMinus1, OneInTpl: OneInTpl,
}>();

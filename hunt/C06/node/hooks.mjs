// loader hooks: ./x.js -> ./x.ts inside beff-client/src, zod stubbed, type-only imports fixed
import { readFileSync } from "node:fs";
import { fileURLToPath } from "node:url";
import { stripTypeScriptTypes } from "node:module";
export async function resolve(specifier, context, next) {
  if (specifier === "zod") {
    return { url: "data:text/javascript,export const z = {}; export default {};", shortCircuit: true };
  }
  if (context.parentURL && context.parentURL.includes("/beff-client/src/") && specifier.startsWith("./") && specifier.endsWith(".js")) {
    return next(specifier.slice(0, -3) + ".ts", context);
  }
  return next(specifier, context);
}
export async function load(url, context, next) {
  if (url.startsWith("file:") && url.endsWith(".ts")) {
    let src = readFileSync(fileURLToPath(url), "utf8");
    src = src.replace(/import \{[^}]*\} from "\.\/(json-schema|types)\.js";/g, "");
    const out = stripTypeScriptTypes(src, { mode: "strip" });
    return { format: "module", source: out, shortCircuit: true };
  }
  return next(url, context);
}

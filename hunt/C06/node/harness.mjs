// usage: node --import ./register.mjs harness.mjs <generated-body.js> <cases.mjs>
import * as rt from "../../packages/beff-client/src/codegen-v2.ts";
import { readFileSync } from "node:fs";
import { pathToFileURL } from "node:url";
import path from "node:path";
const body = readFileSync(process.argv[2], "utf8");
const names = Object.keys(rt);
const prelude = `
class RefRuntype extends BaseRefRuntype { getNamedRuntypes() { return namedRuntypes; } }
const RequiredStringFormats = []; const RequiredNumberFormats = [];
`;
const post = `
const acc = {};
for (const k of Object.keys(buildParsersInput)) acc[k] = buildParserFromRuntype(buildParsersInput[k], k, false);
return acc;`;
const fn = new Function(...names, prelude + body + post);
const parsers = fn(...names.map((n) => rt[n]));
const cases = (await import(pathToFileURL(path.resolve(process.argv[3])).href)).default;
for (const [pname, label, value, expected] of cases) {
  const got = parsers[pname].validate(value);
  console.log(`${pname}.validate(${label}) = ${got}   expected_by_property = ${expected}   ${got === expected ? "ok" : "VIOLATION"}`);
}

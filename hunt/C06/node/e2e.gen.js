const direct_hoist_0 = new RefRuntype(undefined, "VoidOrString");
const direct_hoist_1 = new NullishRuntype(undefined, "undefined");
const direct_hoist_2 = new RefRuntype(undefined, "VoidMinusUndef");
const direct_hoist_3 = new RefRuntype(undefined, "HugeA");
const direct_hoist_4 = new RefRuntype(undefined, "HugeB");
const direct_hoist_5 = new RefRuntype(undefined, "Huge");
const direct_hoist_6 = new RefRuntype(undefined, "FracA");
const direct_hoist_7 = new RefRuntype(undefined, "FracB");
const direct_hoist_8 = new RefRuntype(undefined, "Frac");
const direct_hoist_9 = new RefRuntype(undefined, "ObjA");
const direct_hoist_10 = new RefRuntype(undefined, "ObjB");
const direct_hoist_11 = new RefRuntype(undefined, "NegObj");
const direct_hoist_12 = new RefRuntype(undefined, "ArrA");
const direct_hoist_13 = new RefRuntype(undefined, "ArrB");
const direct_hoist_14 = new RefRuntype(undefined, "NegArr");
const direct_hoist_15 = new RefRuntype(undefined, "NullishA");
const direct_hoist_16 = new NullishRuntype(undefined, "null");
const direct_hoist_17 = new RefRuntype(undefined, "NoNull");
const direct_hoist_18 = new RefRuntype(undefined, "TplA");
const direct_hoist_19 = new RefRuntype(undefined, "TplMinus1");
const direct_hoist_20 = new RefRuntype(undefined, "OneInTpl");
const direct_hoist_21 = new TypeofRuntype(undefined, "string");
const direct_hoist_22 = new ArrayRuntype(undefined, direct_hoist_21);
const direct_hoist_23 = new TypeofRuntype(undefined, "number");
const direct_hoist_24 = new ArrayRuntype(undefined, direct_hoist_23);
const direct_hoist_25 = new AnyOfRuntype(undefined, [
    direct_hoist_22,
    direct_hoist_24
]);
const direct_hoist_26 = new ConstRuntype(undefined, "a");
const direct_hoist_27 = new ArrayRuntype(undefined, direct_hoist_26);
const direct_hoist_28 = new ConstRuntype(undefined, 7);
const direct_hoist_29 = new AnyOfConstsRuntype(undefined, [
    1,
    7
]);
const direct_hoist_30 = new ConstRuntype(undefined, 1);
const direct_hoist_31 = new ConstRuntype(undefined, 5);
const direct_hoist_32 = new AnyOfConstsRuntype(undefined, [
    5,
    9223372036854776000
]);
const direct_hoist_33 = new ConstRuntype(undefined, 9223372036854776000);
const direct_hoist_34 = new AnyOfConstsRuntype(undefined, [
    "x",
    "y"
]);
const direct_hoist_35 = new ObjectRuntype(undefined, {
    "a": direct_hoist_34
}, []);
const direct_hoist_36 = new AnyOfRuntype(undefined, [
    direct_hoist_1,
    direct_hoist_21
]);
const direct_hoist_37 = new AnyOfRuntype(undefined, [
    direct_hoist_16,
    direct_hoist_1,
    direct_hoist_21
]);
const direct_hoist_38 = new ConstRuntype(undefined, "x");
const direct_hoist_39 = new ObjectRuntype(undefined, {
    "a": direct_hoist_38
}, []);
const direct_hoist_40 = new ConstRuntype(undefined, "no");
const direct_hoist_41 = new RegexRuntype(undefined, /(\d+(\.\d+)?)/, "`${number}`");
const direct_hoist_42 = new ConstRuntype(undefined, "k");
const direct_hoist_43 = new AnyOfRuntype(undefined, [
    direct_hoist_41,
    direct_hoist_42
]);
const direct_hoist_44 = new NullishRuntype(undefined, "void");
const direct_hoist_45 = new AnyOfRuntype(undefined, [
    direct_hoist_44,
    direct_hoist_21
]);
const namedRuntypes = {
    "ArrA": direct_hoist_25,
    "ArrB": direct_hoist_27,
    "Frac": direct_hoist_28,
    "FracA": direct_hoist_29,
    "FracB": direct_hoist_30,
    "Huge": direct_hoist_31,
    "HugeA": direct_hoist_32,
    "HugeB": direct_hoist_33,
    "NegArr": direct_hoist_25,
    "NegObj": direct_hoist_35,
    "NoNull": direct_hoist_36,
    "NullishA": direct_hoist_37,
    "ObjA": direct_hoist_35,
    "ObjB": direct_hoist_39,
    "OneInTpl": direct_hoist_40,
    "TplA": direct_hoist_43,
    "TplMinus1": direct_hoist_43,
    "VoidMinusUndef": direct_hoist_45,
    "VoidOrString": direct_hoist_45
};
const buildParsersInput = {
    "VoidOrString": direct_hoist_0,
    "Undef": direct_hoist_1,
    "VoidMinusUndef": direct_hoist_2,
    "HugeA": direct_hoist_3,
    "HugeB": direct_hoist_4,
    "Huge": direct_hoist_5,
    "FracA": direct_hoist_6,
    "FracB": direct_hoist_7,
    "Frac": direct_hoist_8,
    "ObjA": direct_hoist_9,
    "ObjB": direct_hoist_10,
    "NegObj": direct_hoist_11,
    "ArrA": direct_hoist_12,
    "ArrB": direct_hoist_13,
    "NegArr": direct_hoist_14,
    "NullishA": direct_hoist_15,
    "Null": direct_hoist_16,
    "NoNull": direct_hoist_17,
    "TplA": direct_hoist_18,
    "TplMinus1": direct_hoist_19,
    "OneInTpl": direct_hoist_20
};

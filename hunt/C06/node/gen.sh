#!/bin/sh
# usage: gen.sh prog.ts out.js   (compiles the TS program with beff-core and writes the generated module body)
cd /tmp/hunt-C06 && cp _hunt/c06_cgen.rs packages/beff-core/tests/c06_cgen.rs && \
C06_SRC="$1" C06_OUT="$2" CARGO_NET_OFFLINE=true CARGO_TARGET_DIR=/tmp/hunt-C06/target cargo test -q -p beff-core --test c06_cgen 2>&1 | grep -v "^warning" | tail -3

#!/bin/sh
# usage: run.sh <name>   -> compiles node/<name>.ts with beff-core, loads the generated validators on top of
# packages/beff-client/src and checks node/<name>.cases.mjs
D=/tmp/hunt-C06/_hunt/node
"$D/gen.sh" "$D/$1.ts" "$D/$1.gen.js" >/dev/null
cd "$D" && /root/.nvm/versions/node/v22.22.2/bin/node --experimental-strip-types --import ./register.mjs harness.mjs "$1.gen.js" "$1.cases.mjs" 2>&1 | grep -v "Warning\|trace-warnings"
rm -f /tmp/hunt-C06/packages/beff-core/tests/c06_cgen.rs

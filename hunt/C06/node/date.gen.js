const direct_hoist_0 = new RefRuntype(undefined, "Json");
const direct_hoist_1 = new RefRuntype(undefined, "NoDate");
const direct_hoist_2 = new DateRuntype(undefined);
const direct_hoist_3 = new RefRuntype(undefined, "DateAndObj");
const direct_hoist_4 = new RefRuntype(undefined, "Cond");
const direct_hoist_5 = new TypeofRuntype(undefined, "string");
const direct_hoist_6 = new ObjectRuntype(undefined, {
    "a": new OptionalFieldRuntype(direct_hoist_5)
}, []);
const direct_hoist_7 = new RefRuntype(undefined, "MapOrRec");
const direct_hoist_8 = new TypeofRuntype(undefined, "number");
const direct_hoist_9 = new MapRuntype(undefined, direct_hoist_5, direct_hoist_8);
const direct_hoist_10 = new RefRuntype(undefined, "NoMap");
const direct_hoist_11 = new ConstRuntype(undefined, "empty");
const direct_hoist_12 = new NeverRuntype(undefined);
const direct_hoist_13 = new ObjectRuntype(undefined, {}, [
    {
        "key": direct_hoist_5,
        "value": direct_hoist_5
    }
]);
const direct_hoist_14 = new AnyOfRuntype(undefined, [
    direct_hoist_5,
    direct_hoist_8,
    direct_hoist_13,
    direct_hoist_2
]);
const direct_hoist_15 = new ObjectRuntype(undefined, {}, [
    {
        "key": direct_hoist_5,
        "value": direct_hoist_8
    }
]);
const direct_hoist_16 = new AnyOfRuntype(undefined, [
    direct_hoist_15,
    direct_hoist_9
]);
const direct_hoist_17 = new AnyOfRuntype(undefined, [
    direct_hoist_5,
    direct_hoist_8,
    direct_hoist_13
]);
const namedRuntypes = {
    "Cond": direct_hoist_11,
    "DateAndObj": direct_hoist_12,
    "Json": direct_hoist_14,
    "MapOrRec": direct_hoist_16,
    "NoDate": direct_hoist_17,
    "NoMap": direct_hoist_15
};
const buildParsersInput = {
    "Json": direct_hoist_0,
    "NoDate": direct_hoist_1,
    "OnlyDate": direct_hoist_2,
    "DateAndObj": direct_hoist_3,
    "Cond": direct_hoist_4,
    "Obj": direct_hoist_6,
    "MapOrRec": direct_hoist_7,
    "OnlyMap": direct_hoist_9,
    "NoMap": direct_hoist_10
};

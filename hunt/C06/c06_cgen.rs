use beff_core::test_tools::print_cgen;
#[test]
fn cgen() {
    let src = std::fs::read_to_string(std::env::var("C06_SRC").unwrap()).unwrap();
    std::fs::write(std::env::var("C06_OUT").unwrap(), print_cgen(&src)).unwrap();
}

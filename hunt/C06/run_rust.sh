#!/bin/sh
# usage: run_rust.sh <test-file-stem> [filter]   e.g. run_rust.sh c06_findings_engine
cd /tmp/hunt-C06 && cp _hunt/$1.rs packages/beff-core/tests/$1.rs && \
CARGO_NET_OFFLINE=true CARGO_TARGET_DIR=/tmp/hunt-C06/target cargo test -p beff-core --test $1 $2 -- --nocapture --test-threads=1 2>&1 | grep -v "^warning\|^ *|\|^ *=\|^  *[0-9]*:\|^ *at "
rm -f packages/beff-core/tests/$1.rs

// Minimal engine-level reproductions (each test asserts what the property requires; they FAIL on
// the current code). Membership is read off the result structure, not decided by is_subtype.
use beff_core::ast::runtype::{TplLitType, TplLitTypeItem};
use beff_core::subtyping::semtype::{SemType, SemTypeContext, SemTypeOps};
use beff_core::subtyping::subtype::{ProperSubtype, StringLitOrFormat, SubTypeTag, VoidUndefinedSubtype};
use std::rc::Rc;

// does the value `undefined` belong to ty? (void and undefined both denote { undefined })
fn has_undefined(ty: &SemType) -> bool {
    if ty.all & SubTypeTag::VoidUndefined.code() != 0 {
        return true;
    }
    for s in &ty.subtype_data {
        if let ProperSubtype::VoidUndefined { allowed, values } = s.as_ref() {
            let listed = values
                .iter()
                .any(|v| matches!(v, VoidUndefinedSubtype::Void | VoidUndefinedSubtype::Undefined));
            return listed == *allowed;
        }
    }
    false
}

// does the string "1" belong to ty, for ty built from `${number}` and "1" only
fn has_str_1(ty: &SemType) -> bool {
    if ty.all & SubTypeTag::String.code() != 0 {
        return true;
    }
    for s in &ty.subtype_data {
        if let ProperSubtype::String { allowed, values } = s.as_ref() {
            let listed = values.iter().any(|v| match v {
                StringLitOrFormat::Tpl(TplLitType(items)) => match items.as_slice() {
                    [TplLitTypeItem::Number] => true,
                    [TplLitTypeItem::StringConst(c)] => c == "1",
                    _ => false,
                },
                _ => false,
            });
            return listed == *allowed;
        }
    }
    false
}

#[test]
fn void_minus_undefined_still_contains_undefined() {
    let void = Rc::new(SemTypeContext::void());
    let undef = Rc::new(SemTypeContext::undefined());
    let d = void.diff(&undef).unwrap();
    println!("void \\ undefined = {:?}", d);
    // undefined is in void and in undefined => must not be in the difference
    assert!(!has_undefined(&d));
}

#[test]
fn not_void_union_undefined_loses_undefined() {
    let void = Rc::new(SemTypeContext::void());
    let undef = Rc::new(SemTypeContext::undefined());
    let u = void.complement().unwrap().union(&undef).unwrap();
    println!("~void | undefined = {:?}", u);
    // undefined is in the right operand => must be in the union
    assert!(has_undefined(&u));
}

#[test]
fn void_and_not_undefined_contains_undefined() {
    let void = Rc::new(SemTypeContext::void());
    let undef = Rc::new(SemTypeContext::undefined());
    let i = void.intersect(&undef.complement().unwrap()).unwrap();
    println!("void & ~undefined = {:?}", i);
    assert!(!has_undefined(&i));
}

fn tpl_number() -> Rc<SemType> {
    Rc::new(SemTypeContext::string_const(StringLitOrFormat::Tpl(TplLitType(vec![
        TplLitTypeItem::Number,
    ]))))
}
fn lit_1() -> Rc<SemType> {
    Rc::new(SemTypeContext::string_const(StringLitOrFormat::Tpl(TplLitType(vec![
        TplLitTypeItem::StringConst("1".to_string()),
    ]))))
}

#[test]
fn tpl_number_and_literal_1_is_never() {
    let i = tpl_number().intersect(&lit_1()).unwrap();
    println!("`${{number}}` & \"1\" = {:?}", i);
    // "1" matches `${number}` and is "1" => must be in the intersection
    assert!(has_str_1(&i));
}

#[test]
fn tpl_number_minus_literal_1_keeps_1() {
    let d = tpl_number().diff(&lit_1()).unwrap();
    println!("`${{number}}` \\ \"1\" = {:?}", d);
    assert!(!has_str_1(&d));
}

#[test]
fn not_tpl_number_union_literal_1_loses_1() {
    let u = tpl_number().complement().unwrap().union(&lit_1()).unwrap();
    println!("~`${{number}}` | \"1\" = {:?}", u);
    assert!(has_str_1(&u));
}

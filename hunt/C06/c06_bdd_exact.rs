// Brute force: all diagrams reachable from <= 4 atoms by union/intersect/diff/complement
// (bounded closure), truth tables under all 16 assignments; dnf and dnf->bdd round trip.
use beff_core::subtyping::bdd::{Atom, Bdd, BddOps};
use beff_core::subtyping::dnf::{bdd_to_dnf, dnf_to_bdd};
use std::collections::BTreeMap;
use std::rc::Rc;

fn idx(a: &Atom) -> usize {
    match a {
        Atom::List(i) | Atom::Mapping(i) | Atom::Map(i) | Atom::Set(i) => *i,
    }
}

fn eval(b: &Bdd, asg: u32) -> bool {
    match b {
        Bdd::True => true,
        Bdd::False => false,
        Bdd::Node {
            atom,
            left,
            middle,
            right,
        } => {
            let a = (asg >> idx(atom)) & 1 == 1;
            eval(middle, asg) || (a && eval(left, asg)) || (!a && eval(right, asg))
        }
    }
}

fn table(b: &Bdd) -> u32 {
    let mut t = 0u32;
    for asg in 0..16u32 {
        if eval(b, asg) {
            t |= 1 << asg;
        }
    }
    t
}

fn dnf_table(b: &Rc<Bdd>) -> u32 {
    let dnf = bdd_to_dnf(b);
    let mut t = 0u32;
    for asg in 0..16u32 {
        let mut any = false;
        for c in &dnf {
            let ok = c.positive.iter().all(|a| (asg >> idx(a)) & 1 == 1)
                && c.negative.iter().all(|a| (asg >> idx(a)) & 1 == 0);
            if ok {
                any = true;
            }
        }
        if any {
            t |= 1 << asg;
        }
    }
    t
}

#[test]
fn bdd_ops_exact() {
    let mut pool: Vec<Rc<Bdd>> = vec![Rc::new(Bdd::True), Rc::new(Bdd::False)];
    for i in 0..4 {
        pool.push(Rc::new(Bdd::from_atom(Atom::List(i))));
    }
    let mut seen: BTreeMap<Bdd, ()> = BTreeMap::new();
    for p in &pool {
        seen.insert((**p).clone(), ());
    }
    let mut bad = 0usize;
    let mut checked = 0usize;
    let full = 0xFFFFu32;
    let mut frontier_start = 0usize;
    for round in 0..4 {
        let n = pool.len();
        let mut new_items: Vec<Rc<Bdd>> = vec![];
        for i in 0..n {
            for j in 0..n {
                if i < frontier_start && j < frontier_start {
                    continue;
                }
                let a = &pool[i];
                let b = &pool[j];
                let (ta, tb) = (table(a), table(b));
                let rs = [
                    ("union", a.union(b), ta | tb),
                    ("intersect", a.intersect(b), ta & tb),
                    ("diff", a.diff(b), ta & !tb & full),
                    ("complement", a.complement(), !ta & full),
                ];
                for (name, r, expect) in rs {
                    checked += 1;
                    let tr = table(&r);
                    if tr != expect {
                        bad += 1;
                        if bad < 10 {
                            println!("VIOLATION {} a={:?} b={:?} -> {:?}", name, a, b, r);
                        }
                    }
                    let td = dnf_table(&r);
                    if td != tr {
                        bad += 1;
                        if bad < 10 {
                            println!("VIOLATION dnf {:?}", r);
                        }
                    }
                    let back = dnf_to_bdd(&bdd_to_dnf(&r));
                    if table(&back) != tr {
                        bad += 1;
                        if bad < 10 {
                            println!("VIOLATION dnf_to_bdd {:?} -> {:?}", r, back);
                        }
                    }
                    if !seen.contains_key(&*r) && new_items.len() < 1500 {
                        seen.insert((*r).clone(), ());
                        new_items.push(r);
                    }
                }
            }
        }
        frontier_start = n;
        println!(
            "round {} pool {} new {} checked {} bad {}",
            round,
            pool.len(),
            new_items.len(),
            checked,
            bad
        );
        if new_items.is_empty() {
            break;
        }
        pool.extend(new_items);
        if pool.len() > 2500 {
            break;
        }
    }
    println!("checked {} bad {}", checked, bad);
    assert_eq!(bad, 0);
}

#!/bin/bash
# usage: _hunt/run.sh [filter]   -- compiles every _hunt/progs/*.ts (optionally only names containing filter)
cd /tmp/hunt-C07/packages/beff-core
HUNT_ONLY="$1" CARGO_NET_OFFLINE=true CARGO_TARGET_DIR=/tmp/hunt-C07/target cargo test --offline --test hunt -- --nocapture 2>&1 | grep -v -e '^running' -e '^test ' -e '^$' -e 'Finished' -e 'Running' -e 'Compiling' -e '^warning' -e '^  |' -e '^  = note' | sed -E 's/, loc: Full\(FullLocation \{[^)]*\), line: ([0-9]+)[^}]*\}[^}]*\}[^}]*\}\)/ @line \1/g' | cut -c1-${HUNT_W:-2500}

// ==================================================================================================
// JSON Schema Draft 07
// ==================================================================================================
// https://tools.ietf.org/html/draft-handrews-json-schema-validation-01
// --------------------------------------------------------------------------------------------------

/**
 * Primitive type
 * @see https://tools.ietf.org/html/draft-handrews-json-schema-validation-01#section-6.1.1
 */
                                 
               
            
             
             
            
           
           

/**
 * Primitive type
 * @see https://tools.ietf.org/html/draft-handrews-json-schema-validation-01#section-6.1.1
 */
                             
             
          
           
                     
                    
         

// Workaround for infinite type recursion
                                    
                                 
 

// Workaround for infinite type recursion
// https://github.com/Microsoft/TypeScript/issues/3496#issuecomment-128553540
                                                                   

/**
 * Meta schema
 *
 * Recommended values:
 * - 'http://json-schema.org/schema#'
 * - 'http://json-schema.org/hyper-schema#'
 * - 'http://json-schema.org/draft-07/schema#'
 * - 'http://json-schema.org/draft-07/hyper-schema#'
 *
 * @see https://tools.ietf.org/html/draft-handrews-json-schema-validation-01#section-5
 */
                                        

/**
 * JSON Schema v7
 * @see https://tools.ietf.org/html/draft-handrews-json-schema-validation-01
 */
                                                          
                                       
                       
           
       
                              
       
                
 
                              
                           
                            
                                           
                                

     
                                                                                          
                                                                                                  
     
         
       
                                             
       
                

     
                                                                                          
     
                                                                 
                                       
                                      

     
                                                                                          
     
                                  
                               
                                        
                               
                                        

     
                                                                                          
     
                                 
                                 
                               

     
                                                                                          
     
                                                                      
                                                      
                                
                                
                                    
                                               

     
                                                                                          
     
                                     
                                     
                                  
              
       
                                             
       
                
                     
       
                                             
       
                
                                                           
                
       
                                                        
       
                
                                                    

     
                                                                                          
     
                                         
                                           
                                           

     
                                                                                          
     
                                              
                                              
                                              
                                          

     
                                                                                        
     
                              

     
                                                                                        
     
                                        
                                       

     
                                                                                        
     
               
       
                                             
       
                

     
                                                                                         
     
                             
                                   
                                        
                                 
                                  
                                         
                                                   
 

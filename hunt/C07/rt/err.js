

const prettyPrintValue = (it         )         => {
  if (typeof it === "string") {
    return `"${it}"`;
  }
  if (typeof it === "number") {
    return `${it}`;
  }
  if (typeof it === "boolean") {
    return `${it}`;
  }
  if (it === null) {
    return "null";
  }
  if (Array.isArray(it)) {
    return `Array`;
  }
  if (typeof it === "object") {
    return `Object`;
  }
  if (typeof it === "bigint") {
    return `${it}n`;
  }
  // undefined, symbols and functions: JSON.stringify returns undefined (or throws) for these
  return String(it);
};

const joinWithDot = (it          )         => {
  if (it.length === 0) {
    return "";
  }
  let acc = it[0];
  for (const item of it.slice(1)) {
    // skip dot if first char is [
    if (item.startsWith("[")) {
      acc += item;
    } else {
      acc += "." + item;
    }
  }
  return acc;
};

const printPath = (parentPath          , path          )         => {
  const mergedPath = [...parentPath, ...path];
  return mergedPath.length > 0 ? `(${joinWithDot(mergedPath)})` : "";
};
const joinFilteredStrings = (it          )         => {
  return it.filter((it) => it.length > 0).join(" ");
};
const printRegularError = (err                    , parentPath          , showReceived         )         => {
  const path = printPath(parentPath, err.path);
  const msg = [err.message, showReceived ? `received: ${prettyPrintValue(err.received)}` : ""]
    .filter((it) => it.length > 0)
    .join(", ");
  return joinFilteredStrings([path, msg]);
};
const printUnionError = (err                  , parentPath          )         => {
  const path = printPath(parentPath, err.path);
  const printedErrors = printErrorsPart(err.errors, [], false);
  const innerMessages =
    printedErrors.length > 5
      ? printedErrors.slice(0, 5).join(" OR ") + " and more..."
      : printedErrors.join(" | ");

  const msg = [`Failed to decode one of (${innerMessages})`, `received: ${prettyPrintValue(err.received)}`]
    .filter((it) => it.length > 0)
    .join(", ");
  return joinFilteredStrings([path, msg]);
};
const printErrorsPart = (it               , parentPath          , showReceived         )           => {
  return it.map((err) => {
    if ("isUnionError" in err) {
      return printUnionError(err, parentPath);
    }
    return printRegularError(err, parentPath, showReceived);
  });
};
export const printErrors = (it               , parentPath           = [])         => {
  return printErrorsPart(it, parentPath, true)
    .map((msg, idx, all) =>
      all.length == 1 ? joinFilteredStrings([msg]) : joinFilteredStrings([`#${idx}`, msg]),
    )
    .join(" | ");
};

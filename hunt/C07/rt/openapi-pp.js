

/**
 * If a property schema is a top-level `anyOf`/`oneOf` that includes a `null`
 * branch plus at least one non-null branch, remove the `null` branch.
 *
 * Returning `null` means "leave this property schema unchanged".
 */
export const removeNullUnionBranch = (definition                       )                               => {
  if (typeof definition === "boolean") {
    return null;
  }

  const variantsKey = definition.anyOf != null ? "anyOf" : definition.oneOf != null ? "oneOf" : null;
  if (variantsKey == null) {
    return null;
  }

  const variants = definition[variantsKey];
  if (variants == null) {
    return null;
  }

  const nonNull = variants.filter((variant) => !isNullDefinition(variant));
  if (nonNull.length === variants.length || nonNull.length === 0) {
    return null;
  }

  const normalizedNonNull = nonNull.map((variant) => removeNullUnionBranch(variant) ?? variant);

  if (normalizedNonNull.length === 1) {
    return normalizedNonNull[0];
  }

  return {
    ...definition,
    [variantsKey]: normalizedNonNull,
  };
};

/**
 * Detects a schema branch that represents JSON `null`.
 */
const isNullDefinition = (definition                       )          => {
  return typeof definition !== "boolean" && definition.type === "null";
};

export { printErrors } from "./err.js";
export { b, buntyped } from "./b.js";
export {
  StringFormat,
  StringFormatExtends,
  NumberFormat,
  NumberFormatExtends,
  RegularDecodeError,
  UnionDecodeError,
  DecodeError,
  ParseOptions,
  BeffParser,
  BuildParserFunction,
  TypeOf,
} from "./types.js";
export {
  JSONSchema7TypeName,
  JSONSchema7Type,
  JSONSchema7Object,
  JSONSchema7Array,
  JSONSchema7Version,
  JSONSchema7Definition,
  JSONSchema7,
} from "./json-schema.js";
export { createNamedType, overrideNamedType, SchemaPrintingContext } from "./codegen-v2.js";

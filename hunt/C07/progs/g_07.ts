type T = keyof {};
parse.buildParsers<{ T: T }>();

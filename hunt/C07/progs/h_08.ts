type T = Exclude<({ [k: string]: number } & { [k: number]: 1 }) | null, null>;
parse.buildParsers<{ T: T }>();

type T1 = Exclude<[string, number] | [string] | string[], [string]>;
type T2 = Exclude<string[] | number[], number[]>;
type T3 = Exclude<[1, 2] | [3, 4], [1, 2]>;
type T4 = Exclude<Array<string | number>, string[]>;
parse.buildParsers<{ T1: T1, T2: T2, T3: T3, T4: T4 }>();

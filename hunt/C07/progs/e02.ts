type R = { [k: string]: Date; a: Date };
type T4 = R["a" | "b"];
type T5 = R["b"];
type Q = { a: string; [k: number]: boolean };
type T6 = Q[0];
type T7 = Q["a" | 0];
type T8 = Q[number];
parse.buildParsers<{ T4: T4, T5: T5, T6: T6, T7: T7, T8: T8 }>();

type A = { a?: string; b: void; c: undefined; d: [] ; e: [string, ...number[]]; f: object; g: {}; h: Record<string, unknown>};
type T = Exclude<A | string, string>;
parse.buildParsers<{ T: T }>();

type T = Exclude<(string[] & [string, string]) | null, null>;
parse.buildParsers<{ T: T }>();

type X = 1e21 | 1.5e300 | 9007199254740993 | 0.1;
type T = Exclude<1e21 | 1.5e300 | 9007199254740993 | 0.1 | "a", "a">;
parse.buildParsers<{ X: X, T: T }>();

type L = { v: number; next?: L };
type T = Exclude<L | string | null, null>;
parse.buildParsers<{ T: T }>();

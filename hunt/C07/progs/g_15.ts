type T = Exclude<[string, ...number[]] | [string], [string]>;
parse.buildParsers<{ T: T }>();

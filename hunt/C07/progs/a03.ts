type A = { a: any };
type T = Exclude<A | string, string>;
parse.buildParsers<{ T: T, A: A }>();

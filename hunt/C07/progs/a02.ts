type RecursiveGenerated1 = { mine: number };
type Tree = { children: Tree[]; v: string };
type T = Exclude<Tree | string, string>;
parse.buildParsers<{ T: T, R: RecursiveGenerated1 }>();

type A = { a: string; [k: string]: string };
type B = { b: "x" };
type T = Exclude<(A & B) | null, null>;
type K = keyof (A & B);
type K2 = keyof (A | B);
type I = (A & B)["b"];
parse.buildParsers<{ T: T, K: K, K2: K2, I: I }>();

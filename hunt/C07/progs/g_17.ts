type T = Exclude<Record<"a" | "b", string> | null, null>;
parse.buildParsers<{ T: T }>();

type Tree = { l?: Tree; r?: Tree; v: number };
type T1 = Exclude<Tree, { v: 1 }>;
type T2 = Exclude<Tree | { v: string }, Tree>;
type T3 = Exclude<Tree, Tree>;
type T4 = Tree["l" | "r"];
type T5 = Exclude<Tree["l"], undefined>;
parse.buildParsers<{ T1: T1, T2: T2, T3: T3, T4: T4, T5: T5 }>();

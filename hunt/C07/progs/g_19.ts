type T = Exclude<{a: string}[] | {a: number}[], {a: number}[]>;
parse.buildParsers<{ T: T }>();

type A = { b: B; tag: "a" };
type B = { a?: A; list: A[]; tag: "b" };
type T1 = Exclude<A | B | null, null>;
type T2 = Exclude<A | B, { tag: "b" }>;
type T3 = A["b"]["list"][number]["b"];
type T4 = keyof (A | B);
parse.buildParsers<{ T1: T1, T2: T2, T3: T3, T4: T4 }>();

type A = { a: string };
type B = { b: number };
type ViaRefs = (A & B)["a"];
type ViaLiterals = ({ a: string } & { b: number })["a"];
parse.buildParsers<{ ViaRefs: ViaRefs, ViaLiterals: ViaLiterals }>();

type A = { a: string };
type T = Exclude<any, A>;
parse.buildParsers<{ T: T }>();

type O = {a: {b: {c: string}[]}}; type T = O["a"]["b"][number]["c"];
parse.buildParsers<{ T: T }>();

type A = { a: string; n: A | null }; type B = { b: number }; type T = keyof (A & B);
parse.buildParsers<{ T: T }>();

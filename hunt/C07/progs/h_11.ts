type T = ({ a: string } & { a: "x" | "y" })["a"];
parse.buildParsers<{ T: T }>();

type T = Exclude<{a: 1} | [1], object>;
parse.buildParsers<{ T: T }>();

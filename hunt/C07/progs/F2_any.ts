type Resp = { data: unknown; tags: [string, ...any[]]; extra: Record<string, any> };
type Ok = Exclude<Resp | null, null>;
type ByKey = Record<string, Resp>[string];
parse.buildParsers<{ Resp: Resp, Ok: Ok, ByKey: ByKey }>();

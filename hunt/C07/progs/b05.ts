type T1 = Exclude<boolean | 1 | 2 | "a" | "b" | `x${string}` | `y${number}`, true | 2 | "b" | `y${number}`>;
type T2 = Exclude<"a" | "b" | `a${string}`, "a">;
type T3 = Exclude<string | 1, "a" | 1>;
parse.buildParsers<{ T1: T1, T2: T2 }>();

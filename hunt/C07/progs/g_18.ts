type T = Exclude<Partial<{a: string, b: number}> | null, null>;
parse.buildParsers<{ T: T }>();

type A = { a: string };
type B = { b: string };
type T = Exclude<any, A | B>;
parse.buildParsers<{ T: T }>();

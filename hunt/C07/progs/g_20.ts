type T = Exclude<Array<{a: string} | null>, null[]>;
parse.buildParsers<{ T: T }>();

type T1 = Exclude<Map<string, number> | Set<string> | Date | bigint | Uint8Array | Float32Array, Set<string> | Uint8Array>;
type T2 = Exclude<Map<string, number> | Map<string, string>, Map<string, string>>;
type T3 = Exclude<Set<1 | 2>, Set<1>>;
parse.buildParsers<{ T1: T1, T2: T2, T3: T3 }>();

type T = ({ a: string } & { b: number })["a" | "b"];
parse.buildParsers<{ T: T }>();

type T = Exclude<({a: string} & {a: number}) | null, null>;
parse.buildParsers<{ T: T }>();

type A = { a: string; n: A | null }; type B = { b: number }; type T = (A & B)["a"];
parse.buildParsers<{ T: T }>();

type T = Exclude<never, string>;
parse.buildParsers<{ T: T }>();

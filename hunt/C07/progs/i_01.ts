type A = { a: string }; type B = { b: number }; type T = (A & B)["a"];
parse.buildParsers<{ T: T }>();

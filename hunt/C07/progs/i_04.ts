type A = { a: string; n: A | null }; type B = { b: number }; type T = Exclude<(A & B) | null, null>;
parse.buildParsers<{ T: T }>();

type T = Exclude<(string[] & { length: 2 }) | null, null>;
parse.buildParsers<{ T: T }>();

type T = Exclude<(("a" | "b") & ("b" | "c")) | null, null>;
parse.buildParsers<{ T: T }>();

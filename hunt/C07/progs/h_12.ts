type A = { a: A | null; b: string } ; type T = (A & { b: "x" })["a"];
parse.buildParsers<{ T: T }>();

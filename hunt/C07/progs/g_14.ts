type T = Exclude<string[] | [], []>;
parse.buildParsers<{ T: T }>();

type O = { a: string; b?: number; c: null; d: undefined; e: void };
type T1 = O["a" | "b"];
type T2 = O[keyof O];
type T3 = [string, number, ...boolean[]][number];
type T4 = [string, number, ...boolean[]][0 | 5];
type T5 = (O | { a: number })["a"];
type T6 = (string[] | { [k: number]: Date })[number];
parse.buildParsers<{ T1: T1, T2: T2, T3: T3, T4: T4, T5: T5, T6: T6 }>();

type T = Exclude<[] | [string] | [string, string], [string, ...string[]]>;
parse.buildParsers<{ T: T }>();

type L = { v: number; next?: L };
type T = Exclude<L | string, string>;
type N = L["next"];
type K = keyof L;
parse.buildParsers<{ T: T, N: N, K: K }>();

type T = Exclude<string | {a: 1}, never>;
parse.buildParsers<{ T: T }>();

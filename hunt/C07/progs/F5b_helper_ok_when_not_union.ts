type L = { v: number; next: L | null };
type T = Exclude<L | string, string>;
parse.buildParsers<{ T: T }>();

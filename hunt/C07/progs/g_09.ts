type T = Exclude<{a: 1} | [1] | Date | Map<string,string>, {}>;
parse.buildParsers<{ T: T }>();

type T = keyof ({ [k: string]: number } & { a: 1 });
parse.buildParsers<{ T: T }>();

type A0 = { a: string; b0?: number; c: boolean | null; d: "x" | "y" };
type A1 = { a: string; b1?: number; c: boolean | null; d: "x" | "y" };
type A2 = { a: string; b2?: number; c: boolean | null; d: "x" | "y" };
type A3 = { a: string; b3?: number; c: boolean | null; d: "x" | "y" };
type A4 = { a: string; b4?: number; c: boolean | null; d: "x" | "y" };
type A5 = { a: string; b5?: number; c: boolean | null; d: "x" | "y" };
type U = A0 | A1 | A2 | A3 | A4 | A5;
type T = Exclude<U | null, null | { d: "x"; b0: 1 } | { d: "x"; b1: 1 } | { d: "x"; b2: 1 } | { d: "x"; b3: 1 } | { d: "x"; b4: 1 } | { d: "x"; b5: 1 }>;
parse.buildParsers<{ T: T }>();

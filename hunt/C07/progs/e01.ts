type A = { a?: string; n: number | null };
type T = Exclude<A | null, null>;
type M = Exclude<Map<"a", never> | string, string>;
type M0 = Map<"a", never>;
parse.buildParsers<{ A: A, T: T, M: M, M0: M0 }>();

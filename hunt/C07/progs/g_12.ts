type T = Exclude<keyof {a: 1; b: 2; c: 3}, "a">;
parse.buildParsers<{ T: T }>();

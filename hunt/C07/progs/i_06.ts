type A = { a: string; n: A | null }; type T = (A & { b: number })["n"];
parse.buildParsers<{ T: T }>();

type R = { [k: string]: Date; a: Date };
type ViaConst = R["b"];
type ViaString = R[string];
type Rec = Record<string, number>["anything"];
parse.buildParsers<{ ViaConst: ViaConst, ViaString: ViaString, Rec: Rec }>();

type T = keyof unknown;
parse.buildParsers<{ T: T }>();

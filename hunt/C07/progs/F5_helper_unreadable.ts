type L = { v: number; next: L | null };
type T = Exclude<L | string | null, string>;
parse.buildParsers<{ T: T }>();

type T = keyof ({a: 1} & {b: 2} | {a: 3});
parse.buildParsers<{ T: T }>();

type T = Exclude<string | {a: 1}, any>;
parse.buildParsers<{ T: T }>();

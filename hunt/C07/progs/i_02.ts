type A = { a: string }; type B = { b: number }; type T = (A & B)["a" | "b"];
parse.buildParsers<{ T: T }>();

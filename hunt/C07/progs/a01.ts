type T = Exclude<number | string, 1>;
parse.buildParsers<{ T: T }>();

type T = Exclude<(string & {__brand: "x"}) | null, null>;
parse.buildParsers<{ T: T }>();

type L = { v: number; next?: L };
type T = Exclude<L | string, string>;
type U = Exclude<L | string | null, string>;
parse.buildParsers<{ T: T }>();

type T = keyof never;
parse.buildParsers<{ T: T }>();

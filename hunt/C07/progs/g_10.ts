type T = keyof Map<"a"|"b", number>;
parse.buildParsers<{ T: T }>();

#!/bin/bash
# Reproduces every finding: compiles _hunt/progs/F*.ts with the real beff-core (test driver
# packages/beff-core/tests/hunt.rs), then loads the emitted code on top of packages/beff-client/src.
set -e
cd /tmp/hunt-C07/_hunt
N=/root/.nvm/versions/node/v22.22.2/bin/node
mkdir -p out rt
echo '{"type":"module"}' > rt/package.json
HUNT_W=${HUNT_W:-600} ./run.sh F
$N mkrt.mjs 2>/dev/null
for p in F1_name_collision F2_any F3_idx_intersection F4_idx_index_signature F6_exclude_any_two; do $N mkmod.mjs $p; done
echo "--- F1"; $N t_F1.mjs
echo "--- F2"; $N t_F2_any.mjs
echo "--- F3/F4"; $N t_F3_F4.mjs
echo "--- F6"; $N t_F6.mjs

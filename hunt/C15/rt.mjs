// round trip driver: node --import ./register.mjs rt.mjs prog.ts [samples.mjs]
// compiles prog.ts, describes every built parser, compiles the description again and compares
import { execFileSync } from "node:child_process";
import { readFileSync, writeFileSync, mkdirSync, readdirSync } from "node:fs";
import path from "node:path";
import { pathToFileURL } from "node:url";
const ROOT = "/tmp/hunt-C15";
const TMP = ROOT + "/_hunt/tmp";
mkdirSync(TMP, { recursive: true });
const bin = readdirSync(ROOT + "/target/debug/deps").filter((f) => /^hunt_c15-[0-9a-f]+$/.test(f)).map((f) => ROOT + "/target/debug/deps/" + f)[0];
const prelude = readFileSync(ROOT + "/packages/beff-wasm/bundled-code/codegen-v2.js", "utf8");
let counter = 0;
export function compile(src, tag) {
  const inp = `${TMP}/${tag}.ts`;
  const out = `${TMP}/${tag}.gen.js`;
  writeFileSync(inp, src);
  try {
    execFileSync(bin, ["hunt_compile", "--exact", "--nocapture"], { env: { ...process.env, HUNT_IN: inp, HUNT_OUT: out }, stdio: "pipe" });
  } catch (e) {
    return { error: "CRASH " + String(e.stderr).slice(0, 2000) };
  }
  const code = readFileSync(out, "utf8");
  if (code.startsWith("//COMPILE-ERROR")) return { error: code };
  const mod = `${TMP}/${tag}.mod.mjs`;
  writeFileSync(mod, [prelude, `const RequiredStringFormats = [];`, `const RequiredNumberFormats = [];`, code, `export default { buildParsers };`].join("\n"));
  return { mod, code };
}
export async function load(mod) {
  const m = await import(pathToFileURL(mod).href + "?" + counter++);
  const fmts = { stringFormats: {}, numberFormats: {} };
  return m.default.buildParsers(fmts);
}
const isMain = process.argv[1].endsWith("rt.mjs");
if (isMain) {
  const progPath = process.argv[2];
  const tag = path.basename(progPath).replace(/\.ts$/, "");
  const src = readFileSync(progPath, "utf8");
  const samples = process.argv[3] ? (await import(pathToFileURL(path.resolve(process.argv[3])).href)).default : [];
  const c1 = compile(src, tag + ".1");
  if (c1.error) { console.log("FIRST COMPILE FAILED\n" + c1.error); process.exit(2); }
  const p1 = await load(c1.mod);
  let bad = false;
  for (const name of Object.keys(p1)) {
    let text;
    try { text = p1[name].describe(); } catch (e) { console.log(`[${name}] describe() THREW: ${e.message}`); bad = true; continue; }
    console.log(`[${name}] describe():\n${text}`);
    const src2 = `${text}\n\nparse.buildParsers<{ ${name}: Codec${name} }>();\n`;
    const c2 = compile(src2, tag + ".2." + name.replace(/[^A-Za-z0-9]/g, "_"));
    if (c2.error) { console.log(`[${name}] SECOND COMPILE FAILED\n${c2.error}`); bad = true; continue; }
    const p2 = await load(c2.mod);
    const h1 = p1[name].hash256(), h2 = p2[name].hash256();
    const d2 = p2[name].describe();
    console.log(`[${name}] hash256 ${h1 === h2 ? "SAME" : "DIFFERENT"} ${h1.slice(0, 12)} ${h2.slice(0, 12)}`);
    if (h1 !== h2) bad = true;
    if (d2 !== text) { console.log(`[${name}] second describe differs:\n${d2}`); }
    for (const s of samples) {
      const a = p1[name].validate(s), b = p2[name].validate(s);
      if (a !== b) { bad = true; console.log(`[${name}] VALIDATE DIFFERS on ${JSON.stringify(s)} (${String(s)}): first=${a} second=${b}`); }
    }
  }
  console.log(bad ? "RESULT: VIOLATION" : "RESULT: ok");
}

type T = { a: 1e400, b: -1e400, c: 1e21, d: -0, e: 0.1, f: 1_000, g: 0x10 , h: -5};
parse.buildParsers<{ T: T }>();

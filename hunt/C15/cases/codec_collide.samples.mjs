export default [{ a: { x: 1 }, b: { x: 2 } }, { x: 1 }];

export default [{ k: "${string}1" }, { k: "abc1" }, { k: "1" }];

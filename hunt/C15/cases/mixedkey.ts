type T = { a: Record<"a" | `x${string}`, number>, b: { [K in "p" | "q" | `y${number}`]?: string }, c: Record<`x${string}` | `y${string}`, boolean> , d: Record<"lit", number> & Record<`z${string}`, string>};
parse.buildParsers<{ T: T }>();

type H = [string, number];
type T = { a: [...H, boolean], b: [boolean, ...H], c: [...H, ...string[]], d: [], e: [...string[]] , f: [H, ...H[]]};
parse.buildParsers<{ T: T }>();
